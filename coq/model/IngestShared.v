(* C05, fourth session: "never ... corrupts the batch shared with other clients' rows".

   1. The decoders that build the four slices of an onEntries call in a LOOP (Prometheus remote write, Loki protobuf) as
      small programs over slice LENGTHS, regenerated from the source by translate/gen_goroutines_writer and interpreted
      here: for a body of a given shape (samples per series) the interpreter yields the calls of onEntries with the length
      of every slice handed over.  (Third session: a syntactic lockstep verdict, which fails on a broken decoder but does
      not say for WHICH body; the interpreter over the regenerated program does.)
   2. The batch of InsertServiceV2 that all clients of a table share: requests append to the columns, a flush sends the
      block, ch-go's block encoder refuses a block whose columns differ in length, and then EVERY request waiting in that
      batch is answered with the error.
   3. The correspondence cases of harness sharedbatch (two clients whose rows land in one batch).

   Executable definitions only; proofs in proofs/IngestSharedProofs.v. *)
From Coq Require Import List String Ascii ZArith NArith Bool.
From Qryn Require Import model.IngestRobust model.IngestPipe.
Import ListNotations.
Open Scope string_scope.

(* ------------------------------------------------------------------------------------------ *)
(** * 1. Decoder programs over slice lengths *)

(* a slice argument of onEntries *)
Inductive darg :=
| DVar (v : string)              (* x *)
| DSliceTo (v w : string)        (* x[:len(w)]: panics when len(w) > len(x) (Go allows up to cap(x); over-approximated) *)
| DFill (w : string)             (* fastFillArray(len(w), ..) *)
| DMakeLen (w : string)          (* make([]T, len(w)) *)
| DRangeLen                      (* make([]T, len(R)) / fastFillArray(len(R), ..), R the collection of the inner range loop *)
| DOther (s : string).           (* not understood by the translator *)

Inductive dstmt :=
| DMake0 (v : string)            (* v := make([]T, 0, _) *)
| DMakeN (v : string)            (* v := make([]T, len(R)) *)
| DAppend (v : string)           (* v = append(v, e) *)
| DStore (v : string)            (* v[i] = e, i the key of the inner range loop: panics when i >= len(v) *)
| DReset (v : string)            (* v = v[:0] *)
| DInc (c : string)              (* c++ *)
| DZero (c : string)             (* c = 0 / c := 0 *)
| DIfGe (c : string) (k : N) (body : list dstmt)      (* if c >= k { body } *)
| DIfLenPos (v : string) (body : list dstmt)          (* if len(v) > 0 { body } *)
| DCall (ts msg val types : darg)                     (* err := onEntries(labels, ts, msg, val, types); if err != nil { return err } *)
| DRange (body : list dstmt)                          (* for i, x := range R { body } *)
| DMayReturn                                          (* if err != nil { return err } after a call that reads the body (label syntax) *)
| DUnknown (s : string).                              (* a statement that touches the slices and is not understood *)

Record dprog := {
  dp_init : list dstmt;          (* before the loop over the series / streams *)
  dp_series : list dstmt         (* the body of that loop *)
}.

(* one call of onEntries: the series it belongs to and the lengths of timestampsNS, message, value, types *)
Record dcall := { dc_series : N; dc_ts : N; dc_msg : N; dc_val : N; dc_types : N }.

Record dst := {
  ds_len : list (string * N);    (* slice -> length *)
  ds_ctr : list (string * N);    (* counter -> value *)
  ds_idx : N;                    (* key of the inner range loop *)
  ds_series : N;                 (* series / streams begun *)
  ds_calls : list dcall          (* newest first *)
}.
Definition dst0 : dst := {| ds_len := []; ds_ctr := []; ds_idx := 0; ds_series := 0; ds_calls := [] |}.

Fixpoint getn (m : list (string * N)) (k : string) : N :=
  match m with [] => 0%N | (k', v) :: r => if String.eqb k' k then v else getn r k end.
Fixpoint setn (m : list (string * N)) (k : string) (v : N) : list (string * N) :=
  match m with
  | [] => [(k, v)]
  | (k', v') :: r => if String.eqb k' k then (k', v) :: r else (k', v') :: setn r k v
  end.
Definition set_len (st : dst) (v : string) (n : N) : dst :=
  {| ds_len := setn (ds_len st) v n; ds_ctr := ds_ctr st; ds_idx := ds_idx st; ds_series := ds_series st; ds_calls := ds_calls st |}.
Definition set_ctr (st : dst) (c : string) (n : N) : dst :=
  {| ds_len := ds_len st; ds_ctr := setn (ds_ctr st) c n; ds_idx := ds_idx st; ds_series := ds_series st; ds_calls := ds_calls st |}.
Definition set_idx (st : dst) (i : N) : dst :=
  {| ds_len := ds_len st; ds_ctr := ds_ctr st; ds_idx := i; ds_series := ds_series st; ds_calls := ds_calls st |}.
Definition next_series (st : dst) : dst :=
  {| ds_len := ds_len st; ds_ctr := ds_ctr st; ds_idx := ds_idx st; ds_series := (ds_series st + 1)%N; ds_calls := ds_calls st |}.
Definition add_call (st : dst) (c : dcall) : dst :=
  {| ds_len := ds_len st; ds_ctr := ds_ctr st; ds_idx := ds_idx st; ds_series := ds_series st; ds_calls := c :: ds_calls st |}.

(* n: the number of elements of the inner collection (samples of the series, entries of the stream) *)
Definition arg_len (n : N) (st : dst) (a : darg) : option N :=
  match a with
  | DVar v => Some (getn (ds_len st) v)
  | DSliceTo v w => if (getn (ds_len st) w <=? getn (ds_len st) v)%N then Some (getn (ds_len st) w) else None
  | DFill w | DMakeLen w => Some (getn (ds_len st) w)
  | DRangeLen => Some n
  | DOther _ => None
  end.

Section EXECL.
  Variable ex : dstmt -> dst -> option dst.
  Fixpoint execl_with (l : list dstmt) (st : dst) : option dst :=
    match l with
    | [] => Some st
    | x :: r => match ex x st with Some st' => execl_with r st' | None => None end
    end.
End EXECL.

Definition iter_body (f : dst -> option dst) (o : option dst) : option dst :=
  match o with
  | Some st => match f st with Some st' => Some (set_idx st' (ds_idx st' + 1)%N) | None => None end
  | None => None
  end.

(* None: the decoder panics (index / slice bound) or the program is not understood *)
Fixpoint exec (n : N) (s : dstmt) (st : dst) {struct s} : option dst :=
  match s with
  | DMake0 v => Some (set_len st v 0)
  | DMakeN v => Some (set_len st v n)
  | DAppend v => Some (set_len st v (getn (ds_len st) v + 1)%N)
  | DStore v => if (ds_idx st <? getn (ds_len st) v)%N then Some st else None
  | DReset v => Some (set_len st v 0)
  | DInc c => Some (set_ctr st c (getn (ds_ctr st) c + 1)%N)
  | DZero c => Some (set_ctr st c 0)
  | DIfGe c k body => if (k <=? getn (ds_ctr st) c)%N then execl_with (exec n) body st else Some st
  | DIfLenPos v body => if (0 <? getn (ds_len st) v)%N then execl_with (exec n) body st else Some st
  | DCall a b c d =>
      match arg_len n st a, arg_len n st b, arg_len n st c, arg_len n st d with
      | Some la, Some lb, Some lc, Some ld =>
          Some (add_call st {| dc_series := ds_series st; dc_ts := la; dc_msg := lb; dc_val := lc; dc_types := ld |})
      | _, _, _, _ => None
      end
  | DRange body => N.iter n (iter_body (execl_with (exec n) body)) (Some (set_idx st 0))
  | DMayReturn => Some st
  | DUnknown _ => None
  end.
Definition execl (n : N) : list dstmt -> dst -> option dst := execl_with (exec n).

Definition run_series (p : dprog) (o : option dst) (n : N) : option dst :=
  match o with Some st => execl n (dp_series p) (next_series st) | None => None end.
(* the calls of onEntries for a body whose series carry ns samples, oldest first *)
Definition run_dprog (p : dprog) (ns : list N) : option (list dcall) :=
  match fold_left (run_series p) ns (execl 0 (dp_init p) dst0) with
  | Some st => Some (rev (ds_calls st))
  | None => None
  end.

(* writer/utils/unmarshal/metricsProtobuf.go promMetricsProtoDec.Decode *)
Definition prom_flush_limit : N := 1000.
Definition prom_call : dstmt := DCall (DVar "tsns") (DVar "msg") (DVar "value") (DFill "tsns").
Definition prom_inner : list dstmt :=
  [DAppend "tsns"; DAppend "value"; DAppend "msg"; DInc "points";
   DIfGe "points" prom_flush_limit [prom_call; DZero "points"; DReset "tsns"; DReset "value"; DReset "msg"]].
Definition prom_prog : dprog := {|
  dp_init := [DZero "points"];
  dp_series := [DMake0 "tsns"; DMake0 "value"; DMake0 "msg"; DRange prom_inner; DIfLenPos "tsns" [prom_call]]
|}.
(* writer/utils/unmarshal/logsProtobuf.go logsProtoDec.Decode *)
Definition lokiproto_prog : dprog := {|
  dp_init := [];
  dp_series := [DMayReturn; DMakeN "tsns"; DMakeN "msgs"; DRange [DStore "tsns"; DStore "msgs"];
                DCall (DVar "tsns") (DVar "msgs") DRangeLen DRangeLen]
|}.

Definition darg_eqb (a b : darg) : bool :=
  match a, b with
  | DVar x, DVar y | DFill x, DFill y | DMakeLen x, DMakeLen y | DOther x, DOther y => String.eqb x y
  | DSliceTo x1 x2, DSliceTo y1 y2 => String.eqb x1 y1 && String.eqb x2 y2
  | DRangeLen, DRangeLen => true
  | _, _ => false
  end.
Section EQL.
  Variable eq : dstmt -> dstmt -> bool.
  Fixpoint dstmts_eqb_with (a b : list dstmt) : bool :=
    match a, b with
    | [], [] => true
    | x :: r, y :: s => eq x y && dstmts_eqb_with r s
    | _, _ => false
    end.
End EQL.
Fixpoint dstmt_eqb (a b : dstmt) {struct a} : bool :=
  match a, b with
  | DMake0 x, DMake0 y | DMakeN x, DMakeN y | DAppend x, DAppend y | DStore x, DStore y | DReset x, DReset y
  | DInc x, DInc y | DZero x, DZero y | DUnknown x, DUnknown y => String.eqb x y
  | DIfGe c k x, DIfGe c' k' y => String.eqb c c' && N.eqb k k' && dstmts_eqb_with dstmt_eqb x y
  | DIfLenPos v x, DIfLenPos v' y => String.eqb v v' && dstmts_eqb_with dstmt_eqb x y
  | DCall a1 a2 a3 a4, DCall b1 b2 b3 b4 => darg_eqb a1 b1 && darg_eqb a2 b2 && darg_eqb a3 b3 && darg_eqb a4 b4
  | DRange x, DRange y => dstmts_eqb_with dstmt_eqb x y
  | DMayReturn, DMayReturn => true
  | _, _ => false
  end.
Definition dprog_eqb (a b : dprog) : bool :=
  dstmts_eqb_with dstmt_eqb (dp_init a) (dp_init b) && dstmts_eqb_with dstmt_eqb (dp_series a) (dp_series b).

(* the decoders' side of the contract of onEntries *)
Definition dcall_consistent (c : dcall) : bool :=
  N.eqb (dc_msg c) (dc_ts c) && N.eqb (dc_val c) (dc_ts c) && N.eqb (dc_types c) (dc_ts c).
Fixpoint sumN (l : list N) : N := match l with [] => 0%N | x :: r => (x + sumN r)%N end.

(* body shapes as the harness writes them: k series with n samples each *)
Definition expand (shape : list (N * N)) : list N := flat_map (fun kn => repeat (snd kn) (N.to_nat (fst kn))) shape.

(* what a decoder program must be for every body: never panics, hands over four slices of one length, and every sample of
   the body exactly once; checked on probe bodies around the hand-over limit when a regenerated program differs from the
   modelled one: the first probe that fails is a concrete failing body *)
Definition shape_ok (p : dprog) (ns : list N) : bool :=
  match run_dprog p ns with
  | Some cs => forallb dcall_consistent cs && N.eqb (sumN (map dc_ts cs)) (sumN ns)
  | None => false
  end.
Definition probe_shapes : list (list (N * N)) :=
  [ [(1, 1)]; [(3, 2)]; [(1, 0); (1, 3)]; [(1, 999)]; [(1, 1000)]; [(1, 1001)]; [(1, 1500)]; [(999, 1); (1, 2)]; [(2, 600)];
    [(1000, 1); (1, 1)]; [(1, 2500)]; [(400, 1); (1, 700); (5, 1)] ]%N.
Definition failing_probes (p : dprog) : list (list (N * N)) :=
  filter (fun sh => negb (shape_ok p (expand sh))) probe_shapes.

(* ------------------------------------------------------------------------------------------ *)
(** * 2. The batch all clients of one table share (service/genericInsertService.go InsertServiceV2) *)

(* Request: under the mutex, processRequest appends the request's slices to the shared columns and returns how much the
   COUNTED column grew (samples: fingerprint; time series: date); a request that made it grow waits for the flush, another
   one is answered at once (its rows stay in the columns).  fetchLoopIteration: swapBuffers takes the columns and the
   waiting promises when somebody waits; client.Do encodes the block (ch-go proto.Block.EncodeRawBlock: every column must
   have the rows of the first) and every waiting promise gets its verdict. *)
Record sreq := { sr_client : Z; sr_cols : list N }.       (* rows appended to every column, in the order of the INSERT *)
Inductive sev := SvReq (r : sreq) | SvFlush.
Record sbatch := { sb_cols : list N; sb_wait : list Z }.
Record sanswer := { sa_client : Z; sa_ok : bool }.

Fixpoint add_cols (a b : list N) : list N :=
  match a, b with
  | x :: r, y :: s => (x + y)%N :: add_cols r s
  | _, _ => []
  end.
Definition block_accepted (cols : list N) : bool := all_equal cols.
Definition sbatch0 (ncols : nat) : sbatch := {| sb_cols := repeat 0%N ncols; sb_wait := [] |}.

(* cnt: position of the counted column *)
Definition sstep (ncols cnt : nat) (b : sbatch) (e : sev) : sbatch * list sanswer :=
  match e with
  | SvReq r =>
      let cols := add_cols (sb_cols b) (sr_cols r) in
      if (0 <? nth cnt (sr_cols r) 0)%N
      then ({| sb_cols := cols; sb_wait := (sb_wait b ++ [sr_client r])%list |}, [])
      else ({| sb_cols := cols; sb_wait := sb_wait b |}, [{| sa_client := sr_client r; sa_ok := true |}])
  | SvFlush =>
      match sb_wait b with
      | [] => (b, [])
      | _ => (sbatch0 ncols, map (fun c => {| sa_client := c; sa_ok := block_accepted (sb_cols b) |}) (sb_wait b))
      end
  end.
Fixpoint srun (ncols cnt : nat) (b : sbatch) (evs : list sev) : list sanswer :=
  match evs with
  | [] => []
  | e :: r => let '(b', a) := sstep ncols cnt b e in (a ++ srun ncols cnt b' r)%list
  end.
Definition sreq_ok (ncols : nat) (r : sreq) : bool := Nat.eqb (List.length (sr_cols r)) ncols && all_equal (sr_cols r).
Definition sevs_ok (ncols : nat) (evs : list sev) : bool :=
  forallb (fun e => match e with SvReq r => sreq_ok ncols r | SvFlush => true end) evs.

(* the columns of the two INSERT statements, as the fields of the request they are filled from
   (service/impl/samplesInsertService.go, timeSeriesInsertService.go) *)
Definition spl_block_fields : list string := ["MType"; "MFingerprint"; "MTimestampNS"; "MMessage"; "MValue"].
Definition spl_counted : nat := 1.
Definition ts_block_fields : list string := ["MType"; "MDate"; "MFingerprint"; "MLabels"].
Definition ts_counted : nat := 1.
Definition field_len (m : cols) (f : string) : N :=
  match find (fun kv => String.eqb (fst kv) f) m with Some kv => snd kv | None => 0%N end.
Definition spl_request (client : Z) (b : lbatch) : sreq :=
  {| sr_client := client; sr_cols := map (field_len (lb_spl b)) spl_block_fields |}.
Definition ts_request (client : Z) (b : lbatch) : sreq :=
  {| sr_client := client; sr_cols := map (field_len (lb_ts b)) ts_block_fields |}.

(* ------------------------------------------------------------------------------------------ *)
(** * 3. Two clients, one batch (harness sharedbatch) *)

Inductive ckind := CProm | CLokiProto | CLokiJson | CDdMetrics.
Record client := { cl_kind : ckind; cl_shape : list (N * N); cl_bad : bool }.

(* the decoders without a loop of their own (Loki JSON, Datadog metrics: jx callbacks) make one call per stream / series
   with slices appended together (lockstep verdict of the third session) *)
Fixpoint simple_calls (i : N) (ns : list N) : list dcall :=
  match ns with
  | [] => []
  | n :: r => {| dc_series := (i + 1)%N; dc_ts := n; dc_msg := n; dc_val := n; dc_types := n |} :: simple_calls (i + 1)%N r
  end.
Definition client_calls (prom lokiproto : dprog) (c : client) : option (list dcall) :=
  match cl_kind c with
  | CProm => run_dprog prom (expand (cl_shape c))
  | CLokiProto => run_dprog lokiproto (expand (cl_shape c))
  | _ => Some (simple_calls 0 (expand (cl_shape c)))
  end.

(* the events of the column-level model: a series is announced by its first call that carries a sample
   (the harness gives every series its own label set and one day) *)
Fixpoint events_of_calls (seen : N) (cs : list dcall) : list ent_ev :=
  match cs with
  | [] => []
  | c :: r =>
      let fresh := (0 <? dc_ts c)%N && (seen <? dc_series c)%N in
      {| en_lbl_short := false; en_ts := N.to_nat (dc_ts c); en_msg := N.to_nat (dc_msg c); en_val := N.to_nat (dc_val c);
         en_types := N.to_nat (dc_types c); en_bad_type := false; en_series := if fresh then 1 else 0; en_bytes := 0 |}
      :: events_of_calls (if fresh then dc_series c else seen) r
  end.

(* the requests one client's HTTP request appends to the shared batches: (samples, time series); None: answered with an
   error before anything is pushed (refused body, decoder panic, onEntries panic).  The accounted size is left out
   (en_bytes = 0): all rows of the request land in the one batch the harness flushes, in one request or in several *)
Definition client_requests (p : entries_prog) (sf tf : list string) (prom lokiproto : dprog) (who : Z) (c : client)
  : option (list sreq * list sreq) :=
  if cl_bad c then None
  else match client_calls prom lokiproto c with
       | None => None
       | Some cs =>
           let evs := map LcEntries (events_of_calls 0 cs) in
           match lcol_status p sf tf (lbatch0 sf tf) evs with
           | C2xx => let sent := sent_lbatches p sf tf (lbatch0 sf tf) evs in
                     Some (map (spl_request who) sent, map (ts_request who) sent)
           | _ => None
           end
       end.

Definition client_ok (who : Z) (answers : list sanswer) : bool :=
  forallb (fun a => negb (Z.eqb (sa_client a) who) || sa_ok a) answers.

Record shobs := {
  so_a : outcome; so_b : outcome;
  so_blocks : list (Z * bool * list N);      (* (3 = samples | 4 = time series, refused, rows of every column) *)
  so_a_lines : N                             (* A's log lines found in accepted samples blocks *)
}.
Record shcase := { sh_id : Z; sh_a : client; sh_b : client; sh_a_is_loki : bool; sh_obs : shobs }.

Definition table_blocks (t : Z) (o : shobs) : list (bool * list N) :=
  map (fun x => (snd (fst x), snd x)) (filter (fun x => Z.eqb (fst (fst x)) t) (so_blocks o)).
Definition sum_cols (ncols : nat) (bs : list (list N)) : list N := fold_left add_cols bs (repeat 0%N ncols).

Definition reqs_or_nil (x : option (list sreq * list sreq)) : list sreq * list sreq :=
  match x with Some y => y | None => ([], []) end.
Definition cls_of (pushed : bool) (ok_spl ok_ts : bool) : expect :=
  if pushed then (if ok_spl && ok_ts then Exact C2xx else Exact C5xx) else AnyError.

(* expected: (A's class, B's class, samples block refused, its column totals, time-series block refused, totals) *)
Definition sh_expected (p : entries_prog) (sf tf : list string) (prom lokiproto : dprog) (c : shcase)
  : expect * expect * (bool * list N) * (bool * list N) :=
  let ra := client_requests p sf tf prom lokiproto 1 (sh_a c) in
  let rb := client_requests p sf tf prom lokiproto 2 (sh_b c) in
  let spl := (fst (reqs_or_nil ra) ++ fst (reqs_or_nil rb))%list in
  let ts := (snd (reqs_or_nil ra) ++ snd (reqs_or_nil rb))%list in
  let aspl := srun 5 spl_counted (sbatch0 5) (map SvReq spl ++ [SvFlush]) in
  let ats := srun 4 ts_counted (sbatch0 4) (map SvReq ts ++ [SvFlush]) in
  let cols_spl := sum_cols 5 (map sr_cols spl) in
  let cols_ts := sum_cols 4 (map sr_cols ts) in
  (cls_of (is_some ra) (client_ok 1 aspl) (client_ok 1 ats),
   cls_of (is_some rb) (client_ok 2 aspl) (client_ok 2 ats),
   (negb (block_accepted cols_spl), cols_spl), (negb (block_accepted cols_ts), cols_ts)).

Definition sh_mismatch (p : entries_prog) (sf tf : list string) (prom lokiproto : dprog) (c : shcase) : bool :=
  let '(ea, eb, (rs, cs), (rt, ct)) := sh_expected p sf tf prom lokiproto c in
  let o := sh_obs c in
  let bs := table_blocks 3 o in
  let bt := table_blocks 4 o in
  negb (accepts ea (so_a o) && accepts eb (so_b o)
        && Bool.eqb rs (existsb fst bs) && list_N_eqb cs (sum_cols 5 (map snd bs))
        && Bool.eqb rt (existsb fst bt) && list_N_eqb ct (sum_cols 4 (map snd bt))).

(* the property on the observation alone: a well-formed push is acknowledged and stored whatever the other client sent;
   a refused body is not acknowledged; no block is refused *)
Definition rows_of (c : client) : N := if cl_bad c then 0%N else sumN (expand (cl_shape c)).
Definition sh_spec_ok (c : shcase) : bool :=
  let o := sh_obs c in
  let stored := sumN (map (fun b => hd 0%N (snd b)) (filter (fun b => negb (fst b)) (table_blocks 3 o))) in
  (if cl_bad (sh_a c) then negb (accepts (Exact C2xx) (so_a o)) && responded (so_a o) else accepts (Exact C2xx) (so_a o))
  && (if cl_bad (sh_b c) then negb (accepts (Exact C2xx) (so_b o)) && responded (so_b o) else accepts (Exact C2xx) (so_b o))
  && forallb (fun x => negb (snd (fst x)) && all_equal (snd x)) (so_blocks o)
  && N.eqb stored (rows_of (sh_a c) + rows_of (sh_b c))%N
  && (negb (sh_a_is_loki c) || N.eqb (so_a_lines o) (rows_of (sh_a c))).

Definition sh_mismatches (p : entries_prog) (sf tf : list string) (prom lokiproto : dprog) (cs : list shcase) : list Z :=
  map sh_id (filter (sh_mismatch p sf tf prom lokiproto) cs).
Definition sh_spec_violations (cs : list shcase) : list Z := map sh_id (filter (fun c => negb (sh_spec_ok c)) cs).

(* a variant that looks like a harmless optimisation (independent breaking change C05-d): msg is made once per series with
   len(samples) empty strings, handed over as msg[:len(tsns)] at the limit and WHOLE after the loop *)
Definition prom_prog_presized_msg : dprog := {|
  dp_init := [DZero "points"];
  dp_series := [DMake0 "tsns"; DMake0 "value"; DMakeN "msg";
                DRange [DAppend "tsns"; DAppend "value"; DInc "points";
                        DIfGe "points" prom_flush_limit
                          [DCall (DVar "tsns") (DSliceTo "msg" "tsns") (DVar "value") (DFill "tsns"); DZero "points"; DReset "tsns"; DReset "value"]];
                DIfLenPos "tsns" [prom_call]]
|}.

(* ------------------------------------------------------------------------------------------ *)
(** * 4. onProfile at column level and the profile insert service *)

(* parserDoer.onProfile, one statement per slice field of p.profile *)
Inductive pop :=
| PApp (f : string)        (* p.profile.F = append(p.profile.F, x): one element per call *)
| PSet (f : string).       (* p.profile.F = x: the array of THIS call replaces the field *)
Record profile_prog := { pp_ops : list pop; pp_flush_resets : bool; pp_unknown : Z }.
(* service/impl/profileInsertService.go ProcessRequest, per column *)
Inductive kop :=
| KRows (f : string)       (* one value per element of profileSeriesData.F *)
| KOne (f : string)        (* profileSeriesData.F appended as ONE array value *)
| KBad (s : string).

Definition on_profile_prog_model : profile_prog := {|
  pp_ops := [PApp "TimestampNs"; PApp "Ptype"; PApp "ServiceName"; PApp "PeriodType"; PApp "PeriodUnit"; PApp "DurationNs";
             PApp "PayloadType"; PApp "Payload"; PSet "SamplesTypesUnits"; PSet "Tags"; PSet "ValuesAgg"; PSet "Function"; PSet "Tree"];
  pp_flush_resets := true; pp_unknown := 0 |}.
Definition profile_cols_model : list (string * kop) :=
  [("timestampNs", KRows "TimestampNs"); ("ptype", KRows "Ptype"); ("serviceName", KRows "ServiceName");
   ("sampleTypesUnits", KOne "SamplesTypesUnits"); ("periodType", KRows "PeriodType"); ("periodUnit", KRows "PeriodUnit");
   ("tags", KOne "Tags"); ("durationNs", KRows "DurationNs"); ("payloadType", KRows "PayloadType"); ("payload", KRows "Payload");
   ("valuesAgg", KOne "ValuesAgg"); ("tree", KOne "Tree"); ("functions", KOne "Function")].

Definition pop_field (o : pop) : string := match o with PApp f | PSet f => f end.
Definition is_app (ops : list pop) (f : string) : bool := existsb (fun o => match o with PApp g => String.eqb f g | _ => false end) ops.
Definition is_set (ops : list pop) (f : string) : bool := existsb (fun o => match o with PSet g => String.eqb f g | _ => false end) ops.
Definition kop_field (k : kop) : string := match k with KRows f | KOne f | KBad f => f end.

(* what a request that was built by `calls` calls of onProfile (since the last reset) appends to every column: None when a
   column reads a field in a way that does not fit how onProfile fills it *)
Definition kop_rows (ops : list pop) (calls : N) (k : kop) : option N :=
  match k with
  | KRows f => if is_app ops f then Some calls else None
  | KOne f => if is_set ops f then Some 1%N else None
  | KBad _ => None
  end.
Fixpoint opt_all {A : Type} (l : list (option A)) : option (list A) :=
  match l with
  | [] => Some []
  | Some x :: r => match opt_all r with Some y => Some (x :: y) | None => None end
  | None :: _ => None
  end.
Definition profile_request_cols (p : profile_prog) (cols : list (string * kop)) (calls : N) : option (list N) :=
  opt_all (map (fun c => kop_rows (pp_ops p) calls (snd c)) cols).

(* decidable check: every slice field of ProfileData is filled by exactly one statement of onProfile; the block under the
   size test sends and resets; every column of the service reads a field the way it is filled, every field is read by
   exactly one column; the counted column (res[0]) grows per row; rows AND per-request arrays both occur *)
Definition profile_ok (p : profile_prog) (fields : list string) (cols : list (string * kop)) (unknown : Z) : bool :=
  pp_flush_resets p && Z.eqb (pp_unknown p) 0 && Z.eqb unknown 0
  && nodup_str fields
  && forallb (fun f => Nat.eqb (count_str f (map pop_field (pp_ops p))) 1) fields
  && forallb (fun o => existsb (String.eqb (pop_field o)) fields) (pp_ops p)
  && forallb (fun c => is_some (kop_rows (pp_ops p) 1 (snd c))) cols
  && forallb (fun f => Nat.eqb (count_str f (map (fun c => kop_field (snd c)) cols)) 1) fields
  && match cols with (_, KRows _) :: _ => true | _ => false end
  && existsb (fun c => match snd c with KOne _ => true | _ => false end) cols.

(* a profile push at the shared batch: one request with `calls` rows *)
Definition profile_request (p : profile_prog) (cols : list (string * kop)) (who : Z) (calls : N) : option sreq :=
  match profile_request_cols p cols calls with Some c => Some {| sr_client := who; sr_cols := c |} | None => None end.

(* harness sharedbatch, profile pairs: both clients push a pprof profile to /ingest (a refused body when bad); their rows
   share one batch of the profile insert service (table 5) *)
Record shpcase := { shp_id : Z; shp_a_bad : bool; shp_b_bad : bool; shp_obs : shobs }.
Definition shp_expected (p : profile_prog) (cols : list (string * kop)) (c : shpcase) : expect * expect * (bool * list N) :=
  let req (bad : bool) (who : Z) := if bad then None else profile_request p cols who 1 in
  let ra := req (shp_a_bad c) 1%Z in
  let rb := req (shp_b_bad c) 2%Z in
  let reqs := ((match ra with Some r => [r] | None => [] end) ++ (match rb with Some r => [r] | None => [] end))%list in
  let n := List.length cols in
  let ans := srun n 0 (sbatch0 n) (map SvReq reqs ++ [SvFlush]) in
  let tot := sum_cols n (map sr_cols reqs) in
  (cls_of (is_some ra) (client_ok 1 ans) true, cls_of (is_some rb) (client_ok 2 ans) true, (negb (block_accepted tot), tot)).
Definition shp_mismatch (p : profile_prog) (cols : list (string * kop)) (c : shpcase) : bool :=
  let '(ea, eb, (rf, tot)) := shp_expected p cols c in
  let o := shp_obs c in
  let bs := table_blocks 5 o in
  negb (accepts ea (so_a o) && accepts eb (so_b o) && Bool.eqb rf (existsb fst bs)
        && list_N_eqb tot (sum_cols (List.length cols) (map snd bs))).
Definition shp_spec_ok (c : shpcase) : bool :=
  let o := shp_obs c in
  let stored := sumN (map (fun b => hd 0%N (snd b)) (filter (fun b => negb (fst b)) (table_blocks 5 o))) in
  (if shp_a_bad c then negb (accepts (Exact C2xx) (so_a o)) && responded (so_a o) else accepts (Exact C2xx) (so_a o))
  && (if shp_b_bad c then negb (accepts (Exact C2xx) (so_b o)) && responded (so_b o) else accepts (Exact C2xx) (so_b o))
  && forallb (fun x => negb (snd (fst x)) && all_equal (snd x)) (so_blocks o)
  && N.eqb stored ((if shp_a_bad c then 0 else 1) + (if shp_b_bad c then 0 else 1))%N.
Definition shp_mismatches (p : profile_prog) (cols : list (string * kop)) (cs : list shpcase) : list Z :=
  map shp_id (filter (shp_mismatch p cols) cs).
Definition shp_spec_violations (cs : list shpcase) : list Z := map shp_id (filter (fun c => negb (shp_spec_ok c)) cs).

(* ------------------------------------------------------------------------------------------ *)
(** * 5. The gzip layer of a pprof body (fix 5) *)

(* golangPprof.go Parse (both /ingest routes): a body that begins with the gzip magic is inflated HERE -- gzip.NewReader, the
   limiter of model/IngestFraming.v, io.ReadAll -- and what comes out must not begin with the magic again, so the profile
   parser below (google/pprof ParseData, which inflates a gzip stream without any bound) never inflates anything *)
Definition pprof_parse_guard_model : list string := [
  "if b := data.Bytes(); len(b) >= 2 && b[0] == 0x1f && b[1] == 0x8b";
  "gz, err := gzip.NewReader(data)";
  "if err != nil { return nil, err }";
  "inflated, err := io.ReadAll(helpers.LimitDecoded(gz))";
  "if err != nil { return nil, err }";
  "if len(inflated) >= 2 && inflated[0] == 0x1f && inflated[1] == 0x8b { return nil, fmt.Errorf(""profile is compressed twice"") }";
  "data = bytes.NewBuffer(inflated)"].
Fixpoint strs_eqb' (a b : list string) : bool :=
  match a, b with [] , [] => true | x :: r, y :: s => String.eqb x y && strs_eqb' r s | _, _ => false end.

(* layers: the sizes the successive gzip layers of the body inflate to (outermost first; [] = not gzip at all).
   What the profile parser is handed, and the bytes inflated on the way: before the fix the parser inflated one layer whole *)
Inductive pprof_in := PpRefused | PpParsed (bytes : Z).
Definition pprof_guard (limit : Z) (wire : Z) (layers : list Z) : pprof_in * Z :=
  match layers with
  | [] => (PpParsed wire, 0%Z)
  | n :: rest =>
      if (limit <? n)%Z then (PpRefused, limit)                 (* the limiter: 400 after `limit` inflated bytes *)
      else match rest with
           | [] => (PpParsed n, n)
           | _ => (PpRefused, n)                                 (* still gzip: compressed twice *)
           end
  end.
Definition pprof_guard_orig (wire : Z) (layers : list Z) : pprof_in * Z :=
  match layers with [] => (PpParsed wire, 0%Z) | n :: _ => (PpParsed n, n) end.

(* ------------------------------------------------------------------------------------------ *)
(** * 6. The lockstep argument for the decoders without a loop of their own, inside Coq *)

(* The third session's verdict ("the slices handed to onEntries change length only in lockstep") was computed by the translator.
   Now the translator only EXTRACTS: for every non-literal call site, every statement list of the file that changes the length of
   one of the slices (members), as the changes in source order, and whether a control-flow statement stands between the first and
   the last of them.  The verdict is computed here, and what it means is a theorem (proofs/IngestSharedProofs.v section 7):
   whatever the order and the number of times the lists are executed (any control flow BETWEEN lists: jx callbacks, loops,
   early returns), the members have one length whenever a list has been left -- in particular at every call of onEntries. *)
Inductive chg :=
| ChAppend1                (* x = append(x, one element) *)
| ChReset                  (* x = x[:0] *)
| ChMake0                  (* x = make([]T, 0, _) *)
| ChMakeE (e : string)     (* x = make([]T, e) *)
| ChOther (s : string).    (* anything else that assigns to x *)
Definition chg_eqb (a b : chg) : bool :=
  match a, b with
  | ChAppend1, ChAppend1 | ChReset, ChReset | ChMake0, ChMake0 => true
  | ChMakeE x, ChMakeE y => String.eqb x y
  | _, _ => false                     (* ChOther equals nothing: a list with one is never uniform *)
  end.
Fixpoint chgs_eqb (a b : list chg) : bool :=
  match a, b with [], [] => true | x :: r, y :: s => chg_eqb x y && chgs_eqb r s | _, _ => false end.
(* ev: the value of a make expression while the list runs (len of the collection being decoded) *)
Definition apply_chg (ev : string -> N) (c : chg) (n : N) : N :=
  match c with ChAppend1 => (n + 1)%N | ChReset | ChMake0 => 0%N | ChMakeE e => ev e | ChOther _ => n end.
Definition lens := string -> N.
Definition upd (st : lens) (m : string) (v : N) : lens := fun x => if String.eqb x m then v else st x.
Definition run_block (ev : string -> N) (st : lens) (blk : list (string * chg)) : lens :=
  fold_left (fun st x => upd st (fst x) (apply_chg ev (snd x) (st (fst x)))) blk st.
Fixpoint run_trace (st : lens) (tr : list (list (string * chg) * (string -> N))) : lens :=
  match tr with [] => st | (blk, ev) :: r => run_trace (run_block ev st blk) r end.
(* the changes one member undergoes in a list, in order *)
Definition proj (m : string) (blk : list (string * chg)) : list chg :=
  map snd (filter (fun x => String.eqb (fst x) m) blk).
(* a list is uniform: no control flow inside, it touches members only, and every member undergoes the SAME sequence of changes
   (the third session counted kinds per list, which would have accepted `a = append(a, x); b = b[:0]; a = a[:0]; b = append(b, y)`) *)
Definition block_uniform (members : list string) (b : list (string * chg) * bool) : bool :=
  negb (snd b)
  && forallb (fun x => existsb (String.eqb (fst x)) members) (fst b)
  && match members with
     | [] => true
     | m0 :: r => chgs_eqb (proj m0 (fst b)) (proj m0 (fst b)) && forallb (fun m => chgs_eqb (proj m (fst b)) (proj m0 (fst b))) r
     end.
(* a derived argument (make([]T, E) / fastFillArray(E, ..)): E is len(member), or the expression every member is made with *)
Definition derived_ok (members : list string) (blocks : list (list (string * chg) * bool)) (d : string) : bool :=
  existsb (fun m => String.eqb d ("len(" ++ m ++ ")")) members
  || (forallb (fun b => forallb (fun x => chg_eqb (snd x) (ChMakeE d)) (fst b)) blocks && negb (Nat.eqb (List.length blocks) 0)).
Definition lockstep_site := (string * string * list string * list string * list (list (string * chg) * bool))%type.
Definition site_uniform (s : lockstep_site) : bool :=
  let '(_, _, members, derived, blocks) := s in
  negb (Nat.eqb (List.length members) 0) && forallb (block_uniform members) blocks && forallb (derived_ok members blocks) derived.
Definition members_equal (members : list string) (st : lens) : Prop :=
  forall m m', In m members -> In m' members -> st m = st m'.

(* ------------------------------------------------------------------------------------------ *)
(** * 7. Span pushes at the shared batches of the two span insert services *)

(* service/impl/tempoInsertService.go: each of the two ProcessRequest closures appends, per column, the slice of one field
   of the request (the fields regenerated as gen_spans_consumed / gen_attrs_consumed) *)
Definition span_request (who : Z) (consumed : list string) (m : cols) : sreq :=
  {| sr_client := who; sr_cols := map (field_len m) consumed |}.

(* harness sharedbatch, span pairs: both clients push Zipkin JSON spans (k spans with t tags each; a refused body when bad);
   tables 6 = tempo_traces, 7 = tempo_traces_attrs_gin *)
Record shscase := { shs_id : Z; shs_a_spans : N; shs_b_spans : N; shs_a_bad : bool; shs_b_bad : bool; shs_obs : shobs }.
Definition shs_spec_ok (c : shscase) : bool :=
  let o := shs_obs c in
  let stored := sumN (map (fun b => hd 0%N (snd b)) (filter (fun b => negb (fst b)) (table_blocks 6 o))) in
  (if shs_a_bad c then negb (accepts (Exact C2xx) (so_a o)) && responded (so_a o) else accepts (Exact C2xx) (so_a o))
  && (if shs_b_bad c then negb (accepts (Exact C2xx) (so_b o)) && responded (so_b o) else accepts (Exact C2xx) (so_b o))
  && forallb (fun x => negb (snd (fst x)) && all_equal (snd x)) (so_blocks o)
  && N.eqb stored ((if shs_a_bad c then 0 else shs_a_spans c) + (if shs_b_bad c then 0 else shs_b_spans c))%N.
Definition shs_spec_violations (cs : list shscase) : list Z := map shs_id (filter (fun c => negb (shs_spec_ok c)) cs).

(* ------------------------------------------------------------------------------------------ *)
(** * 8. The multipart form of /ingest at framing level *)

(* pProfProtoDec.Decode after the query parameters: the whole body is read; findBoundary takes the first line "--" + a token of
   [A-Za-z0-9'-] (the boundary parameter of the Content-Type header is not looked at); mime/multipart ReadForm wants every part
   delimited and the closing delimiter; form.File["profile"][0] = the first part with that name AND a filename; its content goes
   through Decompressor(100000): gzip, at least 1 and at most 100000 inflated bytes; then unmarshal.Parse (section 5: a second
   gzip layer is refused, the payload limit applies) and the profile parser.  mime/multipart and compress/gzip are modelled as read. *)
Inductive mcontent := McProfile | McNested | McEmpty | McGarbage | McNotGzip.
(* mp_inflated: what the gzip layer of the file inflates to; McNested: the file is a gzip stream of a gzip-compressed profile
   (what pprof writes, compressed once more by the client): the Decompressor takes the first layer, Parse the second (mp_inflated2) *)
Record mpart := { mp_name : string; mp_file : bool; mp_content : mcontent; mp_inflated : Z; mp_inflated2 : Z }.
Record mform := { mf_boundary_ok : bool; mf_closed : bool; mf_parts : list mpart }.
Definition mform_field : string := "profile".
Definition decompressor_limit : Z := 100000.
Definition mform_source_model : list string := [mform_field; "100000"; "(?m)^--([A-Za-z0-9'-]+)\r?\n"].
Definition mform_file (f : mform) : option mpart :=
  find (fun p => String.eqb (mp_name p) mform_field && mp_file p) (mf_parts f).
Definition mform_accepts (limit : Z) (f : mform) : bool :=
  mf_boundary_ok f && mf_closed f &&
  match mform_file f with
  | Some p => match mp_content p with
              | McProfile => (0 <? mp_inflated p)%Z && (mp_inflated p <=? decompressor_limit)%Z
              | McNested => (0 <? mp_inflated p)%Z && (mp_inflated p <=? decompressor_limit)%Z && (mp_inflated2 p <=? limit)%Z
              | _ => false
              end
  | None => false
  end.
Definition mform_predict (limit : Z) (f : mform) : expect := if mform_accepts limit f then Exact C2xx else AnyError.
(* bytes inflated for the request: the first gzip layer of the chosen file within the Decompressor's bound (+1 to notice the
   excess), and a second layer within the payload limit *)
Definition mform_inflated (limit : Z) (f : mform) : Z :=
  if mf_boundary_ok f && mf_closed f
  then match mform_file f with
       | Some p => match mp_content p with
                   | McNotGzip => 0%Z
                   | McNested => (Z.min (mp_inflated p) (decompressor_limit + 1) + Z.min (mp_inflated2 p) limit)%Z
                   | _ => Z.min (mp_inflated p) (decompressor_limit + 1)
                   end
       | None => 0%Z
       end
  else 0%Z.

Record mfcase := { mc_id : Z; mc_form : mform; mc_limit : Z; mc_obs : obs }.
Definition mf_mismatches (cs : list mfcase) : list Z :=
  map mc_id (filter (fun c => negb (accepts (mform_predict (mc_limit c) (mc_form c)) (ob_outcome (mc_obs c)))) cs).
(* the oracle: answered, later requests served, allocation within the allowance, a form without an acceptable profile not acknowledged *)
Definition mf_spec_ok (c : mfcase) : bool :=
  let ob := mc_obs c in
  responded (ob_outcome ob) && ob_canary_ok ob && (ob_alloc_kb ob <=? alloc_bound_kb (served_kb ob))%Z
  && (mform_accepts (mc_limit c) (mc_form c) || negb (accepts (Exact C2xx) (ob_outcome ob))).
Definition mf_spec_violations (cs : list mfcase) : list Z := map mc_id (filter (fun c => negb (mf_spec_ok c)) cs).

