(* C05, round 7: what a route is HANDED.  WithOverallContextMiddleware assigns r.Body per Content-Encoding; the route's parser
   (a streaming decoder, io.ReadAll, io.Copy) then reads r.Body.  The harness runs the real middleware on a request and copies
   r.Body away with io.Copy (buffers of 32 KiB), counting: `hc_handed`.  The model: the same loop (read_all, model/IngestFraming.v)
   over the limiter of the payload limit, whatever the Content-Encoding of the request is -- a case of the switch that leaves the
   decoded stream outside helpers.LimitDecoded (seeded C05-g: zlib.NewReader(helpers.LimitDecoded(r.Body))) hands over more. *)
From Coq Require Import List String Ascii ZArith Bool.
From Qryn Require Import model.IngestRobust model.IngestPipe model.IngestFraming.
Import ListNotations.
Open Scope Z_scope.

(* io.Copy: Read calls with a 32 KiB buffer, a decompressor that fills it; enough calls to pass the limit *)
Definition copy_buf : Z := 32768.
Definition copy_script (limit : Z) : list (Z * Z) := repeat (copy_buf, copy_buf) (Z.to_nat (limit / copy_buf + 3)).
Definition all_res_bytes (r : all_res) : Z := match r with AllOk n => n | AllErr _ n => n | AllMore n => n end.
Definition handed_model (limit decoded : Z) : Z := all_res_bytes (read_all (lim_init limit decoded) (copy_script limit) 0).

Record handcase := {
  hc_id : Z;
  hc_ce : string;                 (* Content-Encoding of the request *)
  hc_accepted : bool;             (* it is one of the cases of the switch (list read from the source on this run); else: refused, 400 *)
  hc_limit : Z;                   (* pbPool.limit the harness configured *)
  hc_decoded : Z;                 (* bytes the body decodes to (counted by the harness up to limit + 2) *)
  hc_handed : Z                   (* bytes read from r.Body behind the real middleware (counted up to limit + 1 MiB) *)
}.
Definition hand_expected (c : handcase) : Z := if hc_accepted c then handed_model (hc_limit c) (hc_decoded c) else 0.
Definition hand_mismatch (c : handcase) : bool := negb (hc_handed c =? hand_expected c).
Definition hand_spec_ok (c : handcase) : bool := hc_handed c <=? hc_limit c.
Definition hand_mismatches (cs : list handcase) : list Z := map hc_id (filter hand_mismatch cs).
Definition hand_spec_violations (cs : list handcase) : list Z := map hc_id (filter (fun c => negb (hand_spec_ok c)) cs).
