(* C08 - float64. The theorems of C08 compute with exact rationals; ClickHouse computes the value column in
   Float64. This file says which value expressions of the metric selects are EXACT in float64 and which are
   approximate, over the standard model of IEEE arithmetic: every arithmetic operation returns rnd(exact result),
   where rnd is the identity on representable numbers. The only fact about rnd that is used: integers of magnitude
   <= 2^53 are representable.
   * exact, no hypothesis: min / max / argMin / argMax / any / first / last / the topk order / the step-fix pick -
     they return one of their inputs (no arithmetic);
   * exact on integer data below 2^53: toFloat64(COUNT()), toFloat64(sum(length(_string))) (the sum itself is UInt64
     arithmetic), count(), sum(...) of integer-valued samples whose absolute values add up to at most 2^53 - in EVERY
     summation order and association (ClickHouse sums in unrolled lanes: a tree, not a left fold);
   * one correctly rounded operation away from the reference: x / seconds for a range of whole seconds (rate,
     bytes_rate, rate over unwrapped integer samples), avg = sum / count on such data: rnd(the reference's rational);
   * approximate, not modelled: a divisor with a fractional part (its decimal literal is rounded first), sums of
     non-integer samples, toFloat64OrZero of a decimal fraction, varPop / stddevPop / quantile (oracles on both sides),
     the decimal threshold of a comparison when it is not a float64.
   Executable definitions only. *)
From Coq Require Import List ZArith QArith Qcanon String Bool.
From Qryn Require Import model.Logql model.LogqlPlan model.LogqlMetricSem.
Import ListNotations.
Open Scope Z_scope.

Definition int53 (z : Z) : Prop := Z.abs z <= 2 ^ 53.
Definition zsum (zs : list Z) : Z := fold_right Z.add 0 zs.
Definition abs_sum (zs : list Z) : Z := fold_right (fun z a => Z.abs z + a) 0 zs.

Section FLOAT64.
  Variable rnd : Qc -> Qc.                       (* round to nearest float64 *)

  (* a summation order: any binary tree over the summands; every internal node rounds *)
  Inductive stree := SLeaf (q : Qc) | SNode (l r : stree).
  Fixpoint leaves (t : stree) : list Qc := match t with SLeaf q => [q] | SNode l r => (leaves l ++ leaves r)%list end.
  Fixpoint fl_sum (t : stree) : Qc := match t with SLeaf q => q | SNode l r => rnd (Qcplus (fl_sum l) (fl_sum r)) end.

  (* the value column of LRAPlanner in float64: the count / the byte sum are integers converted by toFloat64, then one division *)
  Definition fl_eval_lra (v : lra_val) (g : list mrow) : Qc :=
    let cnt := rnd (qz (Z.of_nat (List.length g))) in
    let bytes := rnd (qz (zsum (map (fun r => Z.of_nat (String.length (r_line r))) g))) in
    match v with
    | LVCount => cnt
    | LVCountDiv d => rnd (Qcdiv cnt (rnd (secs_exact d)))
    | LVBytes => bytes
    | LVBytesDiv d => rnd (Qcdiv bytes (rnd (secs_exact d)))
    end.
  (* sum / rate / avg over unwrapped samples, summed along the tree t *)
  Definition fl_eval_uw_sum (t : stree) : Qc := fl_sum t.
  Definition fl_eval_uw_rate (d : Z) (t : stree) : Qc := rnd (Qcdiv (fl_sum t) (rnd (secs_exact d))).
  Definition fl_eval_avg (t : stree) : Qc := rnd (Qcdiv (fl_sum t) (rnd (qz (Z.of_nat (List.length (leaves t)))))).
End FLOAT64.
