(* The label list every log / metric ingest protocol hands to onEntries (property C04): what the
   decoders of writer/utils/unmarshal build out of a request, before fingerprintLabels and encodeLabels
   see it. Executable definitions only; proofs in proofs/ProtoLabelsProofs.v.

     Loki JSON (stream object / labels string), Loki protobuf, Prometheus remote write:
         sanitizeLabels(labels in wire order)                                      (Labels.v proto_labels)
     InfluxDB line protocol (influxUnmarshal.go): sanitizeLabels(("measurement", name) :: tags in the
         iteration order of a Go map); a metric line appends ("__name__", sanitizeMetricName(field)) AFTER
         sanitising (so that value is not cut)
     Datadog logs (datadogJsonUnmarshal.go): the ddtags matches (model/DdTags.v dd_tags: the regular expression) in order, then those of ddsource, service,
         hostname, source_type that are not empty, then ("type", "datadog")   - NOT sanitized
     Datadog Cloudflare logs (datadogCFJsonUnmarshal.go): the non-empty ones of eight fixed fields
     Datadog metrics (datadogMetricsJsonUnmarshal.go): in document order ("__name__", metric) and, for the
         i-th object of "resources", ("resource<i>_<key>", value) per member
     Elasticsearch document (elasticUnmarshal.go): type=elastic, _index=target, _id=id if given
     Elasticsearch bulk: type=elastic, _index=target if given, then the string members of the create/index
         object except "type" (and "_index" when a target is given), in document order
     OTLP logs (otlplogs.go): a Go map filled from resource, scope and record attributes (later wins,
         keys through SanitizeKey) and "level" = severity text; the labels are its entries in map order.
   None of the last five calls sanitizeLabels. *)
From Coq Require Import List ZArith String Ascii Bool Permutation.
From Qryn Require Import model.GoQuote model.LabelJson model.Fingerprint model.Labels model.GoJson model.DdTags.
From Qryn Require Export model.AnyValue.
Import ListNotations.
Open Scope Z_scope.

Definition nonempty_value (l : label) : bool := negb (String.eqb (snd l) "").

(* ------------------------------------------------------------------ Datadog *)
Definition dd_logs_labels (tags : list label) (source service hostname source_type : string) : list label :=
  tags ++ filter nonempty_value
    [("ddsource", source); ("service", service); ("hostname", hostname); ("source_type", source_type); ("type", "datadog")]%string.

Record dd_cf := {
  cf_ddsource : string; cf_script : string; cf_outcome : string; cf_event : string;
  cf_action_result : string;       (* "", "true" or "false" *)
  cf_action_type : string; cf_actor_type : string; cf_resource_type : string }.
Definition dd_cf_labels (f : dd_cf) : list label :=
  filter nonempty_value
    [("ddsource", cf_ddsource f); ("ScriptName", cf_script f); ("Outcome", cf_outcome f); ("EventType", cf_event f);
     ("ActionResult", cf_action_result f); ("ActionType", cf_action_type f); ("ActorType", cf_actor_type f);
     ("ResourceType", cf_resource_type f)]%string.

(* members of the series object that produce labels, in document order *)
Inductive dd_item :=
| DMetric (name : string)
| DResources (objs : list (list label)).
Fixpoint dd_resources (i : Z) (objs : list (list label)) : list label :=
  match objs with
  | [] => []
  | o :: r => map (fun kv => (append "resource" (append (dec i) (String "_" (fst kv))), snd kv)) o ++ dd_resources (i + 1) r
  end.
Definition dd_item_labels (it : dd_item) : list label :=
  match it with
  | DMetric v => [("__name__"%string, v)]
  | DResources objs => dd_resources 1 objs
  end.
Definition dd_metrics_labels (items : list dd_item) : list label := flat_map dd_item_labels items.

(* ------------------------------------------------------------------ Elasticsearch *)
Definition es_doc_labels (target : string) (id : option string) : list label :=
  [("type", "elastic"); ("_index", target)]%string ++ match id with Some i => [("_id"%string, i)] | None => [] end.
Definition es_bulk_keep (target : string) (kv : label) : bool :=
  negb ((negb (String.eqb target "") && String.eqb (fst kv) "_index") || String.eqb (fst kv) "type").
Definition es_bulk_labels (target : string) (members : list label) : list label :=
  [("type", "elastic")]%string ++ (if String.eqb target "" then [] else [("_index"%string, target)]) ++
  filter (es_bulk_keep target) members.

(* ------------------------------------------------------------------ OTLP logs (SanitizeKey, SanitizeValue, the Go map: model/AnyValue.v) *)
Definition otlp_fill (attrs : list (string * oval)) (m : list label) : list label :=
  fold_left (fun m kv => mset (otlp_key (fst kv)) (otlp_value (snd kv)) m) attrs m.
(* severity "" = none *)
Definition otlp_map (resource scope record : list (string * oval)) (severity : string) : list label :=
  let m := otlp_fill record (otlp_fill scope (otlp_fill resource [])) in
  if String.eqb severity "" then m else mset "level" severity m.

(* ------------------------------------------------------------------ InfluxDB metric lines *)
Definition influx_metric_labels (measurement : string) (tags : list label) (field : string) : list label :=
  sanitize (("measurement"%string, measurement) :: tags) ++ [("__name__"%string, san_name true 0 field)].

(* ------------------------------------------------------------------ one type for all wire forms *)
Inductive wire :=
| WSanitized (p : proto) (sent : list label)
| WInfluxMetric (measurement : string) (tags_in_map_order : list label) (field : string)
| WDatadogLogs (tags : list label) (source service hostname source_type : string)
| WDatadogCF (f : dd_cf)
| WDatadogMetrics (items : list dd_item)
| WElasticDoc (target : string) (id : option string)
| WElasticBulk (target : string) (members : list label)
| WOtlpLogs (entries_in_map_order : list label).

Definition wire_labels (w : wire) : list label :=
  match w with
  | WSanitized p sent => proto_labels p sent
  | WInfluxMetric m tags f => influx_metric_labels m tags f
  | WDatadogLogs tags a b c d => dd_logs_labels tags a b c d
  | WDatadogCF f => dd_cf_labels f
  | WDatadogMetrics items => dd_metrics_labels items
  | WElasticDoc t id => es_doc_labels t id
  | WElasticBulk t ms => es_bulk_labels t ms
  | WOtlpLogs es => es
  end.

(* two requests that differ only in the order the wire (or a Go map) presents the labels *)
Inductive wire_reorder : wire -> wire -> Prop :=
| RSan p1 p2 s1 s2 : Permutation s1 s2 -> wire_reorder (WSanitized p1 s1) (WSanitized p2 s2)
| RInflux m t1 t2 f : Permutation t1 t2 -> wire_reorder (WInfluxMetric m t1 f) (WInfluxMetric m t2 f)
| RDDLogs t1 t2 a b c d : Permutation t1 t2 -> wire_reorder (WDatadogLogs t1 a b c d) (WDatadogLogs t2 a b c d)
| RDDCF f : wire_reorder (WDatadogCF f) (WDatadogCF f)
| RDDMetrics i1 i2 : Permutation (dd_metrics_labels i1) (dd_metrics_labels i2) ->
    wire_reorder (WDatadogMetrics i1) (WDatadogMetrics i2)
| RESDoc t id : wire_reorder (WElasticDoc t id) (WElasticDoc t id)
| RESBulk t m1 m2 : Permutation m1 m2 -> wire_reorder (WElasticBulk t m1) (WElasticBulk t m2)
| ROtlp e1 e2 : Permutation e1 e2 -> wire_reorder (WOtlpLogs e1) (WOtlpLogs e2).

Section WIRE_FP.
  Variable ch64 : string -> Z.
  Variable h128 : Z -> Z -> Z.
  Variable fin : Z * Z * Z -> Z.
  Definition wire_fp (ttl_hdr : Z) (w : wire) : Z :=
    fingerprint ch64 h128 fin (on_entries_labels ttl_hdr (wire_labels w)).
End WIRE_FP.

(* ------------------------------------------------------------------ the two open findings as classes of requests
   The label SET a request denotes: the sanitized pairs of the label list its decoder builds, without the control
   label __ttl_days__ (sanitizeLabels is not idempotent - a cut value gets "..." again -, so the list of a sanitizing
   protocol is taken as it is). *)
Definition strip_ttl (ls : list label) : list label := filter (fun l => negb (is_ttl_label l)) ls.
Definition sanitizing (w : wire) : bool :=
  match w with WSanitized _ _ | WInfluxMetric _ _ _ => true | _ => false end.
Definition wire_set (w : wire) : list label :=
  strip_ttl (if sanitizing w then wire_labels w else sanitize (wire_labels w)).
(* finding labels-unsanitized-by-protocol: a decoder that skips sanitizeLabels built a list sanitizeLabels would change *)
Definition in_unsanitized_class (w : wire) : bool :=
  negb (sanitizing w) && negb (labels_eqb (sanitize (wire_labels w)) (wire_labels w)).
(* finding ttl-label-kept-with-ttl-header: the request has a TTL header and its label list carries the control label *)
Definition in_ttl_class (ttl_hdr : Z) (w : wire) : bool :=
  negb (ttl_hdr =? 0) && existsb is_ttl_label (wire_labels w).
Definition outside_findings (ttl_hdr : Z) (w : wire) : bool :=
  negb (in_unsanitized_class w) && negb (in_ttl_class ttl_hdr w).

(* ------------------------------------------------------------------ the Bernstein fingerprint type
   FingerPrintType = FINGERPRINT_Bernstein: uint64(heputils.FingerprintLabelsDJBHashPrometheus(the 24 bytes)):
     var hash int32 = 5381; for i := len(data)-1; i > -1; i-- { hash = (hash*33) ^ int32(uint16(data[i])) }; uint32(hash) *)
Definition w32 (x : Z) : Z := Z.land x 4294967295.
Fixpoint le_bytes_z (n : nat) (k : Z) : list Z :=
  match n with
  | O => []
  | S m => (k mod 256) :: le_bytes_z m (k / 256)
  end.
Definition fin_djb (d : Z * Z * Z) : Z :=
  let '(d0, d1, d2) := d in
  fold_left (fun h b => Z.lxor (w32 (h * 33)) b) (rev (le_bytes_z 8 d0 ++ le_bytes_z 8 d1 ++ le_bytes_z 8 d2)) 5381.
Definition fingerprint_djb_tbl (t : list (string * Z)) (ls : list label) : Z :=
  fingerprint (tbl_ch64 t) hash128to64 fin_djb ls.

(* ------------------------------------------------------------------ correspondence cases (protocols) *)
Record pcase := {
  pc_id : Z;
  pc_wire : wire;                    (* what was sent, as the decoder sees it *)
  pc_ch : list (string * Z);         (* city.CH64 of every name and value of the resulting labels (oracle table) *)
  pc_print : list (Z * bool);        (* strconv.IsPrint of every rune > 0xFF occurring (oracle table) *)
  pc_fp : Z;                         (* observed: fingerprint of the sample / series row *)
  pc_fps : list Z;                   (* observed: the same content sent in other orders *)
  pc_fp_djb : Z;                     (* observed: the same request under FingerPrintType = Bernstein *)
  pc_fps_djb : list Z;               (* observed: the other orders under FingerPrintType = Bernstein *)
  pc_doc : string;                   (* observed: the series row's labels text *)
  pc_has_hdr : bool;                 (* the request was also sent with a TTL header (X-Ttl-Days: 7) *)
  pc_fp_hdr : Z;                     (* observed: its fingerprint then *)
  pc_has_loki : bool;                (* the label list the decoder stored was also pushed as a Loki stream *)
  pc_fp_loki : Z                     (* observed: the fingerprint Loki stored for it *)
}.
Definition pc_labels (c : pcase) : list label := on_entries_labels 0 (wire_labels (pc_wire c)).
Definition pm_fp (c : pcase) : bool := negb (fingerprint_tbl (pc_ch c) (pc_labels c) =? pc_fp c).
Definition pm_djb (c : pcase) : bool := negb (fingerprint_djb_tbl (pc_ch c) (pc_labels c) =? pc_fp_djb c).
(* with a TTL header onEntries keeps the control label __ttl_days__ *)
Definition pm_hdr (c : pcase) : bool :=
  pc_has_hdr c && negb (fingerprint_tbl (pc_ch c) (on_entries_labels 7 (wire_labels (pc_wire c))) =? pc_fp_hdr c).
(* spec: the fingerprint does not depend on the request (here: on whether a TTL header came with it) *)
Definition pv_hdr (c : pcase) : bool := pc_has_hdr c && negb (pc_fp_hdr c =? pc_fp c).
(* the order of a Go map is not the model's: for OTLP logs and Influx tags the document is compared as what
   encodeLabels writes for the order it shows, over the same labels *)
Definition same_labels (a b : list label) : bool :=
  Nat.eqb (List.length a) (List.length b) &&
  forallb (fun l => existsb (label_eqb l) b) a && forallb (fun l => existsb (label_eqb l) a) b.
Definition map_ordered (w : wire) : bool :=
  match w with WOtlpLogs _ | WInfluxMetric _ _ _ => true | _ => false end.
Definition pm_doc (c : pcase) : bool :=
  let ip := isprint_tbl (pc_print c) in
  if map_ordered (pc_wire c) then
    negb (match json_decode (pc_doc c) with
          | Some l' => String.eqb (encode_labels ip l') (pc_doc c) && same_labels l' (pc_labels c)
          | None => false
          end)
  else negb (String.eqb (encode_labels ip (pc_labels c)) (pc_doc c)).
(* spec oracles on the observations: every order gives the same fingerprint; the document decodes to the labels *)
Definition pv_perm (c : pcase) : bool :=
  negb (forallb (fun f => f =? pc_fp c) (pc_fps c) && forallb (fun f => f =? pc_fp_djb c) (pc_fps_djb c)).
Definition pv_doc (c : pcase) : bool :=
  negb (match json_decode (pc_doc c) with
        | Some l' => if map_ordered (pc_wire c) then same_labels l' (map fix_label (pc_labels c))
                     else labels_eqb l' (map fix_label (pc_labels c))
        | None => false
        end).
(* the labels a protocol stores are not what sanitizeLabels would leave (name outside [a-zA-Z_][a-zA-Z0-9_]*, value
   longer than 103 bytes or ill-formed): the series cannot be addressed like one that arrived through Loki *)
Definition pv_unsanitized (c : pcase) : bool :=
  match pc_wire c with
  | WSanitized _ _ | WInfluxMetric _ _ _ => false
  | _ => negb (labels_eqb (sanitize (pc_labels c)) (pc_labels c))
  end.

(* spec: the fingerprint does not depend on the protocol: the same label list pushed through Loki gets the same one.
   Model of the Loki side: sanitizeLabels, then fingerprintLabels. *)
Definition pm_loki (c : pcase) : bool :=
  pc_has_loki c && negb (fingerprint_tbl (pc_ch c) (on_entries_labels 0 (sanitize (pc_labels c))) =? pc_fp_loki c).
Definition pv_proto (c : pcase) : bool := pc_has_loki c && negb (pc_fp_loki c =? pc_fp c).
(* EXACT findings: an observed dependence is the recorded finding only inside the finding's class; outside it is a violation *)
Definition pk_unsan (c : pcase) : bool := pv_proto c && in_unsanitized_class (pc_wire c).
Definition pv_proto_new (c : pcase) : bool := pv_proto c && negb (in_unsanitized_class (pc_wire c)).
Definition pk_hdr (c : pcase) : bool := pv_hdr c && in_ttl_class 7 (pc_wire c).
Definition pv_hdr_new (c : pcase) : bool := pv_hdr c && negb (in_ttl_class 7 (pc_wire c)).
(* inside the classes the dependence is expected to show (a class member WITHOUT it is reported as a count only) *)
Definition pc_unsan_same (c : pcase) : bool := pc_has_loki c && in_unsanitized_class (pc_wire c) && negb (pv_proto c).

Definition pids (f : pcase -> bool) (cs : list pcase) : list Z := map pc_id (filter f cs).
Definition preport (cs : list pcase) : list (list Z) :=
  [pids pm_fp cs; pids pm_djb cs; pids pm_doc cs; pids pv_perm cs; pids pv_doc cs; pids pk_unsan cs;
   pids pm_hdr cs; pids pk_hdr cs; pids pm_loki cs; pids pv_proto_new cs; pids pv_hdr_new cs; pids pc_unsan_same cs;
   pids pv_unsanitized cs].

(* ------------------------------------------------------------------ correspondence cases (pairs of label sets under both fingerprint types) *)
Record jcase := {
  jc_id : Z;
  jc_a : list label; jc_b : list label;      (* two label sets as they reach fingerprintLabels *)
  jc_ch : list (string * Z);                 (* city.CH64 of their names and values (oracle table) *)
  jc_city_a : Z; jc_city_b : Z;              (* observed under FingerPrintType = CityHash *)
  jc_djb_a : Z; jc_djb_b : Z                 (* observed under FingerPrintType = Bernstein *)
}.
Definition jm (c : jcase) : bool :=
  negb ((fingerprint_tbl (jc_ch c) (jc_a c) =? jc_city_a c) && (fingerprint_tbl (jc_ch c) (jc_b c) =? jc_city_b c) &&
        (fingerprint_djb_tbl (jc_ch c) (jc_a c) =? jc_djb_a c) && (fingerprint_djb_tbl (jc_ch c) (jc_b c) =? jc_djb_b c)).
Definition jdifferent (c : jcase) : bool := negb (same_labels (jc_a c) (jc_b c)).
(* spec: different label sets get different fingerprints *)
Definition jv_city (c : jcase) : bool := jdifferent c && (jc_city_a c =? jc_city_b c).
Definition jv_djb (c : jcase) : bool := jdifferent c && (jc_djb_a c =? jc_djb_b c).
(* a Bernstein fingerprint has 32 bits *)
Definition jv_range (c : jcase) : bool := negb ((jc_djb_a c <? 4294967296) && (jc_djb_b c <? 4294967296)).
Definition jreport (cs : list jcase) : list (list Z) :=
  let ids f := map jc_id (filter f cs) in [ids jm; ids jv_city; ids jv_djb; ids jv_range].
