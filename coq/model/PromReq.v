(* C17, round 6: (1) ROW STREAMS that break off, (2) the CONTEXT a querier runs its statements with when several
   PromQL requests overlap on one reader (reader/service/promQueryable.go: CLokiQueriable.SetOidAndDB / Querier,
   CLokiQuerier.Select, labelsGetter.Fetch; reader/controller/promQuery{Range,Instant}Controller.go).
   Executable definitions only; proofs in proofs/PromReqProofs.v.

   (1) database/sql: Rows.Next() hands out the rows the driver delivers; when the driver reports an error instead of
       the next row (connection lost, the statement's context is done) Next() returns false and Rows.Err() returns the
       error.  Select and Fetch look at Err() after their loops (fix of round 6); `select_stream_unchecked` is the
       reading before the fix (kept for the refutation).
   (2) The router creates ONE CLokiQueriable.  A request r: the controller calls Storage.SetOidAndDB(ctx_r) and gives
       the result to the engine; the engine calls Querier() on it; the querier runs every statement with the context
       it was built with; when the handler returns net/http cancels ctx_r.  Requests are goroutines: the events of
       different requests interleave arbitrarily.  `shared = false` is the code (SetOidAndDB returns a per-request
       COPY carrying ctx_r); `shared = true` stores ctx_r in the router's object and returns that object. *)
From Coq Require Import List ZArith NArith Bool.
From Qryn Require Import model.PromSelect.
Import ListNotations.

(* ---------------------------------------------------------------- (1) streams *)
Record stream (A : Type) := { st_rows : list A; st_cut : option nat }.   (* Some k: an error is reported instead of row k *)
Arguments st_rows {A} _.
Arguments st_cut {A} _.
Definition delivered {A} (s : stream A) : list A :=
  match st_cut s with None => st_rows s | Some k => firstn k (st_rows s) end.
Definition failed {A} (s : stream A) : bool := match st_cut s with None => false | Some _ => true end.

Inductive sel_result := SelErr | SelOk (l : list out_series).

(* Select: the sample-row loop, `if err = rows.Err()`, then lblsGetter.Fetch() - which sends its request only when a
   fingerprint was planned, reads the label rows and returns rows.Err() - then ReshuffleSeries and the sort *)
Definition select_stream (mr : bool) (rows : stream row) (fetch : stream fetch_row) : sel_result :=
  if failed rows then SelErr
  else match st_rows rows with
       | [] => SelOk (select_series mr [] [])
       | _ => if failed fetch then SelErr else SelOk (select_series mr (st_rows rows) (st_rows fetch))
       end.
(* before the fix: whatever was delivered is the answer *)
Definition select_stream_unchecked (mr : bool) (rows : stream row) (fetch : stream fetch_row) : sel_result :=
  SelOk (select_series mr (delivered rows) (match delivered rows with [] => [] | _ => delivered fetch end)).

(* the failure is met by the reader (Select reads every row it is given) *)
Definition failure_met (rows : stream row) (fetch : stream fetch_row) : bool :=
  failed rows || (negb (Nat.eqb (List.length (st_rows rows)) 0) && failed fetch).

(* specification judged on an OBSERVED result: an error when a stream failed, otherwise select_spec_ok over ALL rows *)
Definition stream_spec_ok (mr : bool) (rows : stream row) (fetch : stream fetch_row) (obs : sel_result) : bool :=
  match obs with
  | SelErr => failure_met rows fetch
  | SelOk l => negb (failure_met rows fetch) && select_spec_ok mr (st_rows rows) (st_rows fetch) l
  end.

Record stcase := { tc_id : Z; tc_rows : stream row; tc_fetch : stream fetch_row; tc_obs : sel_result }.
Definition sel_result_eqb (a b : sel_result) : bool :=
  match a, b with
  | SelErr, SelErr => true
  | SelOk x, SelOk y => list_eqb out_eqb (canon_out x) (canon_out y)
  | _, _ => false
  end.
Definition stcase_mismatch (c : stcase) : bool := negb (sel_result_eqb (select_stream false (tc_rows c) (tc_fetch c)) (tc_obs c)).
Definition stcase_spec_violation (c : stcase) : bool := negb (stream_spec_ok false (tc_rows c) (tc_fetch c) (tc_obs c)).
Definition stream_mismatches (cs : list stcase) : list Z := map tc_id (filter stcase_mismatch cs).
Definition stream_spec_violations (cs : list stcase) : list Z := map tc_id (filter stcase_spec_violation cs).

(* ---------------------------------------------------------------- (2) requests and contexts *)
(* the context of request r is named r *)
Inductive handle := HShared | HCopy (c : N).          (* what SetOidAndDB returned to a request *)
Inductive ev :=
| ESet (r : N)        (* controller of r: Storage.SetOidAndDB(ctx_r) *)
| EQuerier (r : N)    (* engine of r: Querier() on what SetOidAndDB returned: &CLokiQuerier{ctx: c.Ctx} *)
| ELook (r : N)       (* a querier of r uses its context: sends a statement / reads a row *)
| EEnd (r : N).       (* the handler of r has returned: net/http cancels ctx_r *)

Record rstate := {
  rs_shared : option N;                 (* the Ctx field of the router's CLokiQueriable *)
  rs_handles : list (N * handle);
  rs_qctx : list (N * option N);        (* the ctx field of the request's CLokiQuerier *)
  rs_ended : list N }.
Definition rs_init : rstate := {| rs_shared := None; rs_handles := []; rs_qctx := []; rs_ended := [] |}.

Fixpoint lookup {B} (r : N) (l : list (N * B)) : option B :=
  match l with
  | [] => None
  | (k, v) :: t => if N.eqb k r then Some v else lookup r t
  end.

Definition look_obs := (N * option N * bool)%type.    (* request, the context its querier runs under, is that context done *)

Definition set_oid_and_db (shared : bool) (st : rstate) (r : N) : rstate :=
  if shared
  then {| rs_shared := Some r; rs_handles := (r, HShared) :: rs_handles st; rs_qctx := rs_qctx st; rs_ended := rs_ended st |}
  else {| rs_shared := rs_shared st; rs_handles := (r, HCopy r) :: rs_handles st; rs_qctx := rs_qctx st; rs_ended := rs_ended st |}.
Definition querier (st : rstate) (r : N) : rstate :=
  let c := match lookup r (rs_handles st) with
           | Some (HCopy c) => Some c
           | Some HShared => rs_shared st
           | None => None
           end in
  {| rs_shared := rs_shared st; rs_handles := rs_handles st; rs_qctx := (r, c) :: rs_qctx st; rs_ended := rs_ended st |}.
Definition ctx_done (st : rstate) (c : option N) : bool :=
  match c with Some x => existsb (N.eqb x) (rs_ended st) | None => false end.
Definition look (st : rstate) (r : N) : look_obs :=
  let c := match lookup r (rs_qctx st) with Some c => c | None => None end in
  (r, c, ctx_done st c).
Definition step (shared : bool) (st : rstate) (e : ev) : rstate * list look_obs :=
  match e with
  | ESet r => (set_oid_and_db shared st r, [])
  | EQuerier r => (querier st r, [])
  | ELook r => (st, [look st r])
  | EEnd r => ({| rs_shared := rs_shared st; rs_handles := rs_handles st; rs_qctx := rs_qctx st; rs_ended := r :: rs_ended st |}, [])
  end.
Fixpoint run (shared : bool) (st : rstate) (tr : list ev) : list look_obs :=
  match tr with
  | [] => []
  | e :: t => let '(st', o) := step shared st e in o ++ run shared st' t
  end.

(* what net/http, the controller and the engine guarantee about ONE request: set-up, then Querier(), then the
   statements, then the end, each request once.  Phases: 0 unknown, 1 set up, 2 has its querier, 3 ended. *)
Definition phase (ph : list (N * N)) (r : N) : N := match lookup r ph with Some p => p | None => 0%N end.
Fixpoint wf_go (ph : list (N * N)) (tr : list ev) : bool :=
  match tr with
  | [] => true
  | ESet r :: t => N.eqb (phase ph r) 0 && wf_go ((r, 1%N) :: ph) t
  | EQuerier r :: t => N.eqb (phase ph r) 1 && wf_go ((r, 2%N) :: ph) t
  | ELook r :: t => N.eqb (phase ph r) 2 && wf_go ph t
  | EEnd r :: t => (N.eqb (phase ph r) 1 || N.eqb (phase ph r) 2) && wf_go ((r, 3%N) :: ph) t
  end.
Definition wf (tr : list ev) : bool := wf_go [] tr.

(* a request may also end EARLY: its client goes away and net/http cancels ctx_r while the goroutine of r still runs
   (it notices at its next statement or row).  Then r's own looks find ctx_r done; nobody else's may. *)
Fixpoint wfc_go (ph : list (N * N)) (ended : list N) (tr : list ev) : bool :=
  match tr with
  | [] => true
  | ESet r :: t => N.eqb (phase ph r) 0 && wfc_go ((r, 1%N) :: ph) ended t
  | EQuerier r :: t => N.eqb (phase ph r) 1 && wfc_go ((r, 2%N) :: ph) ended t
  | ELook r :: t => N.eqb (phase ph r) 2 && wfc_go ph ended t
  | EEnd r :: t => negb (N.eqb (phase ph r) 0) && negb (existsb (N.eqb r) ended) && wfc_go ph (r :: ended) t
  end.
Definition wfc (tr : list ev) : bool := wfc_go [] [] tr.

(* the specification as a function of the trace ALONE (no queryable, no querier): every look of r sees ctx_r, and sees it
   done exactly when r itself has ended before *)
Fixpoint spec_go (ended : list N) (tr : list ev) : list look_obs :=
  match tr with
  | [] => []
  | ELook r :: t => (r, Some r, existsb (N.eqb r) ended) :: spec_go ended t
  | EEnd r :: t => spec_go (r :: ended) t
  | _ :: t => spec_go ended t
  end.
Definition spec_looks (tr : list ev) : list look_obs := spec_go [] tr.

(* the specification, on one observation: a request reads under its own context, which nobody has cancelled *)
Definition look_ok (o : look_obs) : bool :=
  match o with
  | (r, Some c, d) => N.eqb c r && negb d
  | (_, None, _) => false
  end.

(* the answer of request r under an interleaving: a row stream of r fails where the driver fails (fault) or, when one
   of r's looks found the context done, at row k *)
Definition req_looks (r : N) (obs : list look_obs) : list look_obs := filter (fun o => N.eqb (fst (fst o)) r) obs.
Definition ctx_cut (looks : list look_obs) : bool := existsb (fun o => snd o) looks.
Definition cut_at (fault : option nat) (cut : bool) (k : nat) : option nat :=
  match fault with Some f => Some f | None => if cut then Some k else None end.
Definition request_select (shared : bool) (tr : list ev) (r : N) (mr : bool)
           (rows : list row) (fault_rows : option nat) (fetch : list fetch_row) (fault_fetch : option nat) (k k' : nat) : sel_result :=
  let cut := ctx_cut (req_looks r (run shared rs_init tr)) in
  select_stream mr {| st_rows := rows; st_cut := cut_at fault_rows cut k |} {| st_rows := fetch; st_cut := cut_at fault_fetch cut k' |}.

(* generated cases: the observed trace of an overlap scenario *)
Record ocase := { oc_id : Z; oc_trace : list ev; oc_obs : list look_obs }.
Definition opt_eqb (a b : option N) : bool :=
  match a, b with Some x, Some y => N.eqb x y | None, None => true | _, _ => false end.
Definition obs_eqb (a b : look_obs) : bool :=
  N.eqb (fst (fst a)) (fst (fst b)) && opt_eqb (snd (fst a)) (snd (fst b)) && Bool.eqb (snd a) (snd b).
Definition ocase_mismatch (c : ocase) : bool := negb (list_eqb obs_eqb (run false rs_init (oc_trace c)) (oc_obs c)).
Definition ocase_spec_violation (c : ocase) : bool := negb (list_eqb obs_eqb (spec_looks (oc_trace c)) (oc_obs c)).
Definition ocase_not_wf (c : ocase) : bool := negb (wfc (oc_trace c)).
Definition overlap_mismatches (cs : list ocase) : list Z := map oc_id (filter ocase_mismatch cs).
Definition overlap_spec_violations (cs : list ocase) : list Z := map oc_id (filter ocase_spec_violation cs).
Definition overlap_not_wf (cs : list ocase) : list Z := map oc_id (filter ocase_not_wf cs).
