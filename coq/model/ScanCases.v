(* Functions evaluated over the statements recorded by harness/cmd/readscan (checks/c13.py):
   the parse of each statement is validated (render (parse s) = s, wf_parsed) and the oracle of
   Scans.v is run on its scans. Also the comparison of the planner model's own trees. *)
From Coq Require Import List ZArith NArith String Ascii Bool.
From Qryn Require Import lib.Strs model.Sql model.SqlRender model.Scans.
Import ListNotations.
Open Scope string_scope.

Record stmt_result := {
  r_render_ok : bool;                       (* render tree = Some sql (single-node options: the parser never emits inlined WITHs) *)
  r_rendered : option string;               (* the model's text when it differs (diagnostics) *)
  r_wf : bool;                              (* wf_parsed *)
  r_nscans : nat;
  r_report : list (string * list Z)         (* per scan: table, failure codes ([] = bounded) *)
}.

Definition check_stmt (w : window) (tree : select) (sql : string) : stmt_result :=
  let r := render tree false in
  let ok := match r with Some t => String.eqb t sql | None => false end in
  {| r_render_ok := ok; r_rendered := if ok then None else r; r_wf := wf_parsed tree;
     r_nscans := List.length (scans tree); r_report := report w tree |}.

Record stmt_case := { c_id : Z; c_win : window; c_tree : select; c_sql : string }.

(* ids of statements whose parse is not validated / that have an unbounded scan *)
Definition bad_parse (c : stmt_case) : bool :=
  let r := check_stmt (c_win c) (c_tree c) (c_sql c) in negb (r_render_ok r && r_wf r).
Definition unbounded (c : stmt_case) : bool := negb (every_scan_bounded_b table_info (c_win c) (c_tree c)).
Definition bad_parses (cs : list stmt_case) : list Z := map c_id (filter bad_parse cs).
Definition unbounded_stmts (cs : list stmt_case) : list Z := map c_id (filter unbounded cs).
Definition reports (cs : list stmt_case) : list (Z * list (string * list Z)) :=
  map (fun c => (c_id c, filter (fun p => existsb (fun z => Z.ltb z 100) (snd p)) (report (c_win c) (c_tree c)))) cs.

(* ---------- the day under which the trace write path files the attribute rows of a span ----------
   onSpan (writer/utils/unmarshal/builder.go, after fix 71ffd5d): MDate = time.Unix(ts/1e9, 0).UTC();
   ch-go proto.ToDate(t) = (t.Unix() + zone offset of t) / 86400, and a UTC time has offset 0: the process
   time zone `tz` (seconds east) plays no part.  Before the fix the time was in time.Local and the offset was
   added: attrs_stored_day_local. *)
Definition attrs_stored_day (tz ts_ns : Z) : Z := ((ts_ns / 1000000000) / 86400)%Z.
Definition attrs_stored_day_local (tz ts_ns : Z) : Z := ((ts_ns / 1000000000 + tz) / 86400)%Z.

Record day_case := { dc_id : Z; dc_off : Z; dc_ts : Z; dc_days : list Z }.
(* model = implementation: every attribute row of the span carries the model's day (and there is one) *)
Definition day_mismatch (c : day_case) : bool :=
  match dc_days c with
  | [] => true
  | l => negb (forallb (Z.eqb (attrs_stored_day (dc_off c) (dc_ts c))) l)
  end.
(* the property's demand on the OBSERVED day: a reader asking for any window that contains the span's
   timestamp bounds the index by date >= day(from) (or FormatFromDate) and date <= day(to): the stored day
   must be the UTC day of the timestamp *)
Definition day_spec_violation (c : day_case) : bool :=
  negb (forallb (fun d => Z.eqb d (day_of_ns (dc_ts c))) (dc_days c)).
Definition day_mismatches (cs : list day_case) : list Z := map dc_id (filter day_mismatch cs).
Definition day_spec_violations (cs : list day_case) : list Z := map dc_id (filter day_spec_violation cs).
