(* Model of sanitizeLabels and encodeLabels (writer/utils/unmarshal/unmarshal.go) and the case
   record / comparison functions of the label-set correspondence of property C04.
   Executable definitions only; proofs in proofs/LabelsProofs.v. *)
From Coq Require Import List ZArith String Ascii Bool Uint63.
From Qryn Require Import model.GoQuote model.LabelJson model.Fingerprint.
Import ListNotations.
Open Scope Z_scope.

(* ------------------------------------------------------------------ sanitizeLabels
   sanitizeRe = (^[^a-zA-Z_]|[^a-zA-Z0-9_]), ReplaceAllString(name, "_"): Go's regexp walks the
   string rune by rune (an ill-formed byte is one rune U+FFFD of width 1); a negated class matches
   any rune outside it (including newline), so every rune that is not [a-zA-Z0-9_] - and a leading
   digit - is replaced, as a whole rune, by one '_'. *)
Definition is_alpha_us (b : Z) : bool := in_rng 97 122 b || in_rng 65 90 b || (b =? 95).
Definition is_alnum_us (b : Z) : bool := is_alpha_us b || in_rng 48 57 b.
Definition us : ascii := chr 95.

Fixpoint san_name (first : bool) (skip : nat) (s : string) : string :=
  match s with
  | EmptyString => EmptyString
  | String c r =>
    match skip with
    | S k => san_name false k r
    | O =>
      let b := byte c in
      if b <? 128 then
        String (if (if first then is_alpha_us b else is_alnum_us b) then c else us) (san_name false 0 r)
      else match decode_rune s with
           | Some (_, w) => String us (san_name false (Nat.pred w) r)
           | None => String us (san_name false 0 r)
           end
    end
  end.

(* if len(v) > 100 { v = v[:100] + "..." }   (a byte cut: may split a rune); v = strings.ToValidUTF8(v, "\uFFFD") *)
Definition cut_value (v : string) : string :=
  if (100 <? Z.of_nat (String.length v)) then append (stake 100 v) "..." else v.
Definition san_value (v : string) : string := to_valid false 0 (cut_value v).
(* before the fix of the label document: the cut only *)
Definition sanitize1_old (l : label) : label := (san_name true 0 (fst l), cut_value (snd l)).

Definition sanitize1 (l : label) : label := (san_name true 0 (fst l), san_value (snd l)).
Definition sanitize (ls : list label) : list label := map sanitize1 ls.

(* ------------------------------------------------------------------ encodeLabels
   "{" + join(",", jsonQuote(name) + ":" + jsonQuote(value)) + "}" *)
Definition enc_pair (isprint : Z -> bool) (l : label) : string :=
  append (json_quote isprint (fst l)) (String ":" (json_quote isprint (snd l))).
Fixpoint enc_join (isprint : Z -> bool) (ls : list label) : string :=
  match ls with
  | [] => EmptyString
  | [l] => enc_pair isprint l
  | l :: r => append (enc_pair isprint l) (String "," (enc_join isprint r))
  end.
Definition encode_labels (isprint : Z -> bool) (ls : list label) : string :=
  String "{" (append (enc_join isprint ls) "}").
(* the label list a reader of the document gets: ill-formed bytes (none after sanitizeLabels) read U+FFFD *)
Definition fix_label (l : label) : label := (utf8_fix 0 (fst l), utf8_fix 0 (snd l)).
Definition label_valid (l : label) : bool := utf8_valid 0 (fst l) && utf8_valid 0 (snd l).

(* encodeLabels before the fix: strconv.Quote, which is not a JSON quoter
   "{" + join(",", Quote(name) + ":" + Quote(value)) + "}" *)
Definition enc_pair_q (isprint : Z -> bool) (l : label) : string :=
  append (go_quote isprint (fst l)) (String ":" (go_quote isprint (snd l))).
Fixpoint enc_join_q (isprint : Z -> bool) (ls : list label) : string :=
  match ls with
  | [] => EmptyString
  | [l] => enc_pair_q isprint l
  | l :: r => append (enc_pair_q isprint l) (String "," (enc_join_q isprint r))
  end.
Definition encode_labels_quote (isprint : Z -> bool) (ls : list label) : string :=
  String "{" (append (enc_join_q isprint ls) "}").

(* ------------------------------------------------------------------ what reaches fingerprintLabels
   Every log/metric protocol ends in onEntries(labels, ...). The label list it passes is
   sanitizeLabels(labels in wire order) for the Loki JSON "stream" object, the Loki JSON / protobuf
   "labels" string (parseLabelsLokiFormat reads back what the client rendered), Prometheus
   remote write, and the InfluxDB line protocol (there "sent" is the label ("measurement", name)
   followed by the tags in the iteration order of a Go map, i.e. in an arbitrary order; metric
   lines append ("__name__", field) after sanitising, which is not modelled). onEntries then drops the __ttl_days__ label unless a TTL came with the request
   (header), and fingerprints the rest. *)
Inductive proto := LokiJsonStream | LokiJsonLabels | LokiProto | PromRemoteWrite | InfluxLogs.
Definition proto_labels (p : proto) (sent : list label) : list label :=
  match p with
  | LokiJsonStream | LokiJsonLabels | LokiProto | PromRemoteWrite | InfluxLogs => sanitize sent
  end.
Definition is_ttl_label (l : label) : bool := String.eqb (fst l) "__ttl_days__".
Definition on_entries_labels (ttl_hdr : Z) (ls : list label) : list label :=
  if ttl_hdr =? 0 then filter (fun l => negb (is_ttl_label l)) ls else ls.

Section SERIES_FP.
  Variable ch64 : string -> Z.
  Variable h128 : Z -> Z -> Z.
  Variable fin : Z * Z * Z -> Z.
  Definition series_fp (p : proto) (ttl_hdr : Z) (sent : list label) : Z :=
    fingerprint ch64 h128 fin (on_entries_labels ttl_hdr (proto_labels p sent)).
End SERIES_FP.

(* ------------------------------------------------------------------ the guard of the partial round trip
   bytes that strconv.Quote renders in a way JSON reads back: printable ASCII, and the five
   control characters whose Go escape is also a JSON escape (\b \f \n \r \t). *)
Definition json_safe_byte (b : Z) : bool :=
  in_rng 32 126 b || (b =? 8) || (b =? 9) || (b =? 10) || (b =? 12) || (b =? 13).
Fixpoint json_safe (s : string) : bool :=
  match s with
  | EmptyString => true
  | String c r => json_safe_byte (byte c) && json_safe r
  end.
Definition labels_safe (ls : list label) : bool :=
  forallb (fun l => json_safe (fst l) && json_safe (snd l)) ls.

(* the wider class actually read back (used by the spec oracle to separate the recorded finding
   from new failures): additionally well-formed multi-byte runes that are printable, or
   non-printable below U+10000 (rendered \uXXXX, which is JSON). Everything else - \a \v, other
   bytes < 0x20, 0x7f, ill-formed UTF-8, non-printable runes >= U+10000 - is rendered with an
   escape JSON does not have. *)
Definition isprint_or_bmp (isprint : Z -> bool) (rn : Z) : bool := isprint rn || (rn <? 65536).
Fixpoint json_ok_str (isprint : Z -> bool) (skip : nat) (s : string) : bool :=
  match s with
  | EmptyString => true
  | String c r =>
    match skip with
    | S k => json_ok_str isprint k r
    | O =>
      let b := byte c in
      if b <? 128 then json_safe_byte b && json_ok_str isprint 0 r
      else match decode_rune s with
           | Some (rn, w) => isprint_or_bmp isprint rn && json_ok_str isprint (Nat.pred w) r
           | None => false
           end
    end
  end.
Definition labels_json_ok (isprint : Z -> bool) (ls : list label) : bool :=
  forallb (fun l => json_ok_str isprint 0 (fst l) && json_ok_str isprint 0 (snd l)) ls.

(* ------------------------------------------------------------------ comparisons *)
Definition label_eqb (a b : label) : bool := String.eqb (fst a) (fst b) && String.eqb (snd a) (snd b).
Fixpoint labels_eqb (a b : list label) : bool :=
  match a, b with
  | [], [] => true
  | x :: r, y :: r' => label_eqb x y && labels_eqb r r'
  | _, _ => false
  end.
Definition olabels_eqb (a : option (list label)) (b : list label) : bool :=
  match a with Some l => labels_eqb l b | None => false end.

(* names pairwise distinct (the quantifier of C04: label sets whose names stay distinct after sanitisation) *)
Fixpoint names_distinct (ls : list label) : bool :=
  match ls with
  | [] => true
  | l :: r => negb (existsb (fun m => String.eqb (fst l) (fst m)) r) && names_distinct r
  end.

(* Transport of data into generated case files. Coq spends ~70 us per character of a string literal
   and ~1.5 ms per 20-digit Z numeral when elaborating a file, but only ~0.1 ms per primitive-integer
   numeral; so byte strings travel as [bstr [length; w1; w2; ...]] (7 bytes per 63-bit word, little
   endian) and 64-bit values as [z64 hi lo] (32 bits each). Decoding happens under vm_compute. *)
Definition int_bit (w : int) (k : int) : bool :=
  negb (PrimInt63.eqb (PrimInt63.land (PrimInt63.lsr w k) 1%uint63) 0%uint63).
Definition ascii_of_int (w : int) : ascii :=
  Ascii (int_bit w 0%uint63) (int_bit w 1%uint63) (int_bit w 2%uint63) (int_bit w 3%uint63)
        (int_bit w 4%uint63) (int_bit w 5%uint63) (int_bit w 6%uint63) (int_bit w 7%uint63).
Fixpoint bytes_of_word (k : nat) (w : int) : string :=
  match k with
  | O => EmptyString
  | S k' => String (ascii_of_int w) (bytes_of_word k' (PrimInt63.lsr w 8%uint63))
  end.
Fixpoint bytes_of_words (len : nat) (l : list int) : string :=
  match l with
  | [] => EmptyString
  | w :: r => let k := Nat.min 7 len in append (bytes_of_word k w) (bytes_of_words (len - k) r)
  end.
Definition bstr (l : list int) : string :=
  match l with
  | [] => EmptyString
  | n :: ws => bytes_of_words (Z.to_nat (Uint63.to_Z n)) ws
  end.
Definition z64 (hi lo : int) : Z := Uint63.to_Z hi * 4294967296 + Uint63.to_Z lo.

(* ------------------------------------------------------------------ correspondence cases (label sets)
   One generated label set; the harness ran the real sanitizeLabels / fingerprintLabels /
   encodeLabels (hooks) and the exported parsers on it. *)
Record lcase := {
  lc_id : Z;
  lc_raw : list label;               (* as sent *)
  lc_ch : list (Z * Z);              (* city.CH64 of the name and of the value of every sanitized label (oracle table) *)
  lc_print : list (Z * bool);        (* strconv.IsPrint of every rune > 0xFF occurring (oracle table) *)
  lc_san : list label;               (* observed: sanitizeLabels *)
  lc_fp : Z;                         (* observed: fingerprintLabels(sanitized) *)
  lc_fps : list Z;                   (* observed: the distinct fingerprints of the same set permuted / through each protocol *)
  lc_doc : string                    (* observed: encodeLabels(sanitized) *)
}.

Fixpoint ch_table (ls : list label) (hs : list (Z * Z)) : list (string * Z) :=
  match ls, hs with
  | (n, v) :: r, (a, b) :: r' => (n, a) :: (v, b) :: ch_table r r'
  | _, _ => []
  end.

Definition mm_san (c : lcase) : bool := negb (labels_eqb (sanitize (lc_raw c)) (lc_san c)).
Definition mm_fp (c : lcase) : bool :=
  negb (fingerprint_tbl (ch_table (lc_san c) (lc_ch c)) (lc_san c) =? lc_fp c).
Definition mm_doc (c : lcase) : bool :=
  negb (String.eqb (encode_labels (isprint_tbl (lc_print c)) (lc_san c)) (lc_doc c)).

(* spec oracles on the implementation's observations *)
Definition sv_perm (c : lcase) : bool := negb (forallb (fun f => f =? lc_fp c) (lc_fps c)).
Definition doc_bad (c : lcase) : bool := negb (olabels_eqb (json_decode (lc_doc c)) (lc_san c)).
(* the observed document does not read back as the observed sanitized label list *)
Definition sv_doc (c : lcase) : bool := doc_bad c.
(* the observed sanitized values are not all valid UTF-8 (sanitizeLabels must see to it) *)
Definition sv_utf8 (c : lcase) : bool := negb (forallb label_valid (lc_san c)).
(* strconv.Quote would have written other bytes although its document was JSON for the label set: the fix
   must not change the stored text of series that were readable *)
Definition sv_compat (c : lcase) : bool :=
  let ip := isprint_tbl (lc_print c) in
  labels_json_ok ip (lc_san c) && negb (String.eqb (encode_labels_quote ip (lc_san c)) (lc_doc c)).

Definition ids (f : lcase -> bool) (cs : list lcase) : list Z := map lc_id (filter f cs).
(* all verdicts in one pass (one vm_compute = the case list is compiled once):
   [mm_san; mm_fp; mm_doc; sv_perm; sv_doc; sv_utf8; sv_compat] *)
Definition lreport (cs : list lcase) : list (list Z) :=
  [ids mm_san cs; ids mm_fp cs; ids mm_doc cs; ids sv_perm cs; ids sv_doc cs; ids sv_utf8 cs; ids sv_compat cs].
