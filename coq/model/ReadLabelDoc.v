(* C12, round 7: the fallback decoder of stored label documents (reader/service/queryLabelsService.go, storedLabels), which runs
   in the row-streaming goroutine of QueryLabelsService.Series -- a goroutine WITHOUT recover: a panic in it ends the reader
   process. Go's operations that can panic (s[i], s[n:]) are explicit here: [index] / [slice_from] return None where Go panics.

   Abstracted: strings are byte lists; the label map is the number of pairs stored; encoding/json (the first attempt, taken for
   well-formed JSON) is outside: whatever it accepts never reaches this code. strconv.QuotedPrefix is a parameter of the model;
   the theorem needs of it only that the prefix it returns is not longer than its argument. [qp_scan] is a concrete instance
   (closing quote, backslash escapes the next byte) used by the tie and the examples: it agrees with strconv.QuotedPrefix on
   every prefix of a document whose strings were written by strconv.Quote or encoding/json (the escapes are then valid). *)
From Coq Require Import List Ascii Bool Arith Lia.
Import ListNotations.
Open Scope char_scope.

Definition bytes := list ascii.

Definition index (s : bytes) (i : nat) : option ascii := nth_error s i.                       (* s[i] *)
Definition slice_from (s : bytes) (n : nat) : option bytes :=                                  (* s[n:] *)
  if Nat.leb n (length s) then Some (skipn n s) else None.

Fixpoint trim_left (cut : ascii -> bool) (s : bytes) : bytes :=                               (* strings.TrimLeft *)
  match s with c :: t => if cut c then trim_left cut t else s | [] => [] end.
Definition is_sep (c : ascii) : bool := (c =? ":") || (c =? ",") || (c =? " ").
Definition is_blank (c : ascii) : bool := (c =? " ").
(* strings.TrimSpace, ASCII part: space, \t \n \v \f \r *)
Definition is_space (c : ascii) : bool := (c =? " ") || (Nat.leb 9 (nat_of_ascii c) && Nat.leb (nat_of_ascii c) 13).
Definition trim_space (s : bytes) : bytes := rev (trim_left is_space (rev (trim_left is_space s))).
Definition trim_prefix_brace (s : bytes) : bytes := match s with "{" :: t => t | _ => s end.  (* strings.TrimPrefix(s, "{") *)

Inductive outcome := Panic | Malformed | Decoded (pairs : nat).
Inductive step := SPanic | SErr | SGo (rest : bytes).

(* which decoder: the code on main, or the seeded variant C12-g (`if j == 0 && rest[0] != ':'` without a look at len(rest)) *)
Inductive variant := VMain | VSeeded | VSeededGuarded.

Section Decoder.
  Variable quoted_prefix : bytes -> option nat.     (* strconv.QuotedPrefix(rest): Some (len q), None = err != nil *)
  Variable v : variant.

  (* one round of `for j := range kv`: q, err := strconv.QuotedPrefix(rest); ...; rest = strings.TrimLeft(rest[len(q):], ":, ") *)
  Definition take_quoted (name : bool) (rest : bytes) : step :=
    match quoted_prefix rest with
    | None => SErr
    | Some n =>
      match slice_from rest n with
      | None => SPanic
      | Some r =>
        match v with
        | VMain => SGo (trim_left is_sep r)
        | VSeeded =>
          let r1 := trim_left is_blank r in
          if name then
            match index r1 0 with
            | None => SPanic
            | Some c => if c =? ":" then SGo (trim_left is_sep r1) else SErr
            end
          else SGo (trim_left is_sep r1)
        | VSeededGuarded =>
          let r1 := trim_left is_blank r in
          if name then
            match r1 with
            | [] => SErr
            | c :: _ => if c =? ":" then SGo (trim_left is_sep r1) else SErr
            end
          else SGo (trim_left is_sep r1)
        end
      end
    end.

  Definition finish (rest : bytes) (n : nat) : outcome :=
    match rest with ["}"] => Decoded n | _ => Malformed end.

  (* the loop condition, len(rest) > 0 && rest[0] is a double quote: the index is guarded by the length test (short-circuit &&) *)
  Fixpoint pairs_loop (fuel : nat) (rest : bytes) (n : nat) : outcome :=
    match fuel with
    | 0 => Malformed
    | S f =>
      match rest with
      | c :: _ =>
        if c =? """" then
          match take_quoted true rest with
          | SPanic => Panic
          | SErr => Malformed
          | SGo r1 =>
            match take_quoted false r1 with
            | SPanic => Panic
            | SErr => Malformed
            | SGo r2 => pairs_loop f r2 (S n)
            end
          end
        else finish rest n
      | [] => finish rest n
      end
    end.

  Definition stored_labels_fallback (doc : bytes) : outcome :=
    pairs_loop (S (length doc)) (trim_prefix_brace (trim_space doc)) 0.
End Decoder.

(* a concrete QuotedPrefix for documents whose escapes are valid *)
Fixpoint qp_scan_from (s : bytes) (k : nat) (esc : bool) : option nat :=
  match s with
  | [] => None
  | c :: t => if esc then qp_scan_from t (S k) false
              else if c =? "\" then qp_scan_from t (S k) true
              else if c =? """" then Some (S k)
              else qp_scan_from t (S k) false
  end.
Definition qp_scan (s : bytes) : option nat :=
  match s with c :: t => if c =? """" then qp_scan_from t 1 false else None | [] => None end.

Definition is_decoded (o : outcome) : bool := match o with Decoded _ => true | _ => false end.
Definition is_panic (o : outcome) : bool := match o with Panic => true | _ => false end.
Definition of_codes (l : list nat) : bytes := map ascii_of_nat l.

(* the tie: per request the byte codes of the rows that encoding/json refused; how many of them the series answer holds *)
Definition decoded_count (v : variant) (rows : list (list nat)) : nat :=
  length (filter (fun r => is_decoded (stored_labels_fallback qp_scan v (of_codes r))) rows).
Definition panicking_rows (v : variant) (rows : list (list nat)) : nat :=
  length (filter (fun r => is_panic (stored_labels_fallback qp_scan v (of_codes r))) rows).
Record ldcase := mkLD { ld_id : nat; ld_rows : list (list nat); ld_json : nat; ld_items : nat }.
(* predicted: (a row panics -> crash) else the number of series answered = documents JSON took + documents the fallback decodes *)
Definition ld_predicted (c : ldcase) : bool * nat :=
  (Nat.eqb (panicking_rows VMain (ld_rows c)) 0, ld_json c + decoded_count VMain (ld_rows c)).
Definition ld_mismatches (cs : list ldcase) : list nat :=
  map ld_id (filter (fun c => negb (fst (ld_predicted c) && Nat.eqb (snd (ld_predicted c)) (ld_items c))) cs).

(* ---------------------------------------------------------------------------------------------------------------------
   Round 8: Go's `for len(rest) > 0 && rest[0] is a quote { two QuotedPrefix rounds }` WITHOUT fuel, as a relation (a Go loop has
   no fuel; [pairs_loop] above cuts it off after len(doc)+1 rounds and answers Malformed then -- whether that cut-off can ever be
   the reason of an answer is what proofs/ReadLabelDocProofs.v settles). [loop_run rest n k o]: started on [rest] with [n] pairs
   stored, the loop ends with outcome [o] after [k] COMPLETED rounds (a round = label name + label value). No derivation = the
   goroutine spins forever, the request hangs. *)
Definition starts_quote (rest : bytes) : bool := match rest with c :: _ => c =? """" | [] => false end.
Definition decoder_start (doc : bytes) : bytes := trim_prefix_brace (trim_space doc).

Section Unbounded.
  Variable quoted_prefix : bytes -> option nat.
  Variable v : variant.
  Inductive loop_run : bytes -> nat -> nat -> outcome -> Prop :=
  | LR_exit : forall rest n, starts_quote rest = false -> loop_run rest n 0 (finish rest n)
  | LR_panic1 : forall rest n, starts_quote rest = true -> take_quoted quoted_prefix v true rest = SPanic -> loop_run rest n 0 Panic
  | LR_err1 : forall rest n, starts_quote rest = true -> take_quoted quoted_prefix v true rest = SErr -> loop_run rest n 0 Malformed
  | LR_panic2 : forall rest n r1, starts_quote rest = true -> take_quoted quoted_prefix v true rest = SGo r1 ->
      take_quoted quoted_prefix v false r1 = SPanic -> loop_run rest n 0 Panic
  | LR_err2 : forall rest n r1, starts_quote rest = true -> take_quoted quoted_prefix v true rest = SGo r1 ->
      take_quoted quoted_prefix v false r1 = SErr -> loop_run rest n 0 Malformed
  | LR_round : forall rest n r1 r2 k o, starts_quote rest = true -> take_quoted quoted_prefix v true rest = SGo r1 ->
      take_quoted quoted_prefix v false r1 = SGo r2 -> loop_run r2 (S n) k o -> loop_run rest n (S k) o.
End Unbounded.
Definition qp_nothing (s : bytes) : option nat := Some 0.
Definition one_quote : bytes := [""""].    (* the text of one byte, a double quote *)

(* tie, round 8: what the REAL strconv.QuotedPrefix answered on a text (0 = error, else len(q)) against the scanner of the tie,
   and the contract the termination theorem needs of it (at least one byte, at most the text) *)
Record qpcase := mkQP { qp_id : nat; qp_text : list nat; qp_real : nat }.
Definition qp_model (c : qpcase) : nat := match qp_scan (of_codes (qp_text c)) with Some n => n | None => 0 end.
Definition qp_contract_ok (c : qpcase) : bool := Nat.eqb (qp_real c) 0 || (Nat.leb 1 (qp_real c) && Nat.leb (qp_real c) (length (qp_text c))).
Definition qp_mismatches (cs : list qpcase) : list nat := map qp_id (filter (fun c => negb (Nat.eqb (qp_model c) (qp_real c))) cs).
Definition qp_contract_violations (cs : list qpcase) : list nat := map qp_id (filter (fun c => negb (qp_contract_ok c)) cs).
