(* The walks of the two line-by-line decoders over the JSON object of one body line (property C03; definitions only):
     datadogCFRequestDec.DecodeLine / decodeRootObj (writer/utils/unmarshal/datadogCFJsonUnmarshal.go)
     elasticBulkDec.decodeLine / decodeCreateObj     (writer/utils/unmarshal/elasticUnmarshal.go)
   The tokenizer (go-faster/jx) is not modelled: a line is given as its text (the row's message) and the tree of values jx
   walks over (model/LokiJson.v jv; members in order, repeated keys in order).  The result is the line record of
   model/Decode.v (cfline / esline), so decode (BCf ..) / decode (BEs ..) and their theorems apply to bodies given as lines. *)
From Coq Require Import List ZArith NArith Bool Ascii String.
From Qryn Require Import gen.DecodeConsts model.Decode model.LokiLabels model.LokiTime model.LokiJson.
Import ListNotations.
Open Scope Z_scope.

(* ---------------------------------------------------------------- Cloudflare: decodeRootObj, one member after the other.
   dec.Str() on a value that is no string is an error (None); EventTimestampMs / When: a number goes through dec.Int64 (an
   integer literal within int64, anything else an error), a value of another type is skipped; ActionResult: a bool is
   read, a value of another type is NOT consumed, so the object loop of jx fails on it (None). *)
Definition cf_set_str (k : string) (l : cfline) (s : string) : cfline :=
  if String.eqb k "EventType" then CF (cf_text l) (cf_script l) (cf_outcome l) s (cf_ts l) (cf_actres l) (cf_acttype l) (cf_actor l) (cf_restype l)
  else if String.eqb k "Outcome" then CF (cf_text l) (cf_script l) s (cf_event l) (cf_ts l) (cf_actres l) (cf_acttype l) (cf_actor l) (cf_restype l)
  else if String.eqb k "ScriptName" then CF (cf_text l) s (cf_outcome l) (cf_event l) (cf_ts l) (cf_actres l) (cf_acttype l) (cf_actor l) (cf_restype l)
  else if String.eqb k "ActionType" then CF (cf_text l) (cf_script l) (cf_outcome l) (cf_event l) (cf_ts l) (cf_actres l) s (cf_actor l) (cf_restype l)
  else if String.eqb k "ActorType" then CF (cf_text l) (cf_script l) (cf_outcome l) (cf_event l) (cf_ts l) (cf_actres l) (cf_acttype l) s (cf_restype l)
  else if String.eqb k "ResourceType" then CF (cf_text l) (cf_script l) (cf_outcome l) (cf_event l) (cf_ts l) (cf_actres l) (cf_acttype l) (cf_actor l) s
  else l.
Definition cf_str_key (k : string) : bool :=
  String.eqb k "EventType" || String.eqb k "Outcome" || String.eqb k "ScriptName" || String.eqb k "ActionType" ||
  String.eqb k "ActorType" || String.eqb k "ResourceType".
Definition cf_set_ts (l : cfline) (t : Z) : cfline :=
  CF (cf_text l) (cf_script l) (cf_outcome l) (cf_event l) t (cf_actres l) (cf_acttype l) (cf_actor l) (cf_restype l).
Definition cf_member (l : cfline) (kv : string * jv) : option cfline :=
  let '(k, v) := kv in
  if cf_str_key k then match v with JStr s => Some (cf_set_str k l s) | _ => None end
  else if String.eqb k "EventTimestampMs" then
    match v with
    | JNum _ (Some z) => Some (cf_set_ts l (wrap64 (z * 1000000)))      (* d.TsNs, err = dec.Int64(); d.TsNs *= 1000000 *)
    | JNum _ None => None
    | _ => Some l
    end
  else if String.eqb k "When" then
    match v with JNum _ (Some z) => Some (cf_set_ts l z) | JNum _ None => None | _ => Some l end
  else if String.eqb k "ActionResult" then
    match v with
    | JBool b => Some (CF (cf_text l) (cf_script l) (cf_outcome l) (cf_event l) (cf_ts l) (Some b) (cf_acttype l) (cf_actor l) (cf_restype l))
    | _ => None
    end
  else Some l.
Fixpoint cf_members (ms : list (string * jv)) (l : cfline) : option cfline :=
  match ms with
  | [] => Some l
  | kv :: r => match cf_member l kv with Some l' => cf_members r l' | None => None end
  end.
(* a line: (its text, the object it holds; None = a line that is empty: jx finds no object) *)
Definition cf_line (tl : string * option jv) : option cfline :=
  match snd tl with
  | Some (JObj ms) => cf_members ms (CF (fst tl) "" "" "" 0 None "" "" "")
  | _ => None
  end.

(* ---------------------------------------------------------------- Elasticsearch bulk: decodeLine.
   The members are visited in order until the first of delete / update / index / create; everything behind it is skipped. *)
Definition es_action_labels (target : string) (ams : list (string * jv)) : labels :=
  [("type", "elastic")]%string ++ (if String.eqb target "" then [] else [("_index"%string, target)]) ++
  flat_map (fun kv => match snd kv with
                      | JStr s => if (negb (String.eqb target "") && String.eqb (fst kv) "_index") || String.eqb (fst kv) "type"
                                  then [] else [(fst kv, s)]
                      | _ => []
                      end) ams.
Fixpoint es_members (target : string) (ms : list (string * jv)) : option eskind :=
  match ms with
  | [] => Some EsDoc
  | (k, v) :: r =>
    if String.eqb k "delete" || String.eqb k "update" then Some EsClear
    else if String.eqb k "index" || String.eqb k "create" then
      match v with JObj ams => Some (EsSet (es_action_labels target ams)) | _ => None end
    else es_members target r
  end.
(* one line read as an action line: (its text, the tree jx walks over; None = an empty line) *)
Definition es_line (target : string) (tl : string * option jv) : option esline :=
  match snd tl with
  | None => Some (EL (fst tl) EsBlank)                       (* if len(line) == 0 { return nil } *)
  | Some (JObj ms) => option_map (EL (fst tl)) (es_members target ms)
  | Some _ => None
  end.
(* the body, line by line: the first non-empty line behind an index / create action is that action's document WHATEVER KEYS
   IT HAS (e.source, since the fix of defect elastic-document-with-action-key: its members are skipped; it must still be a
   JSON object); every other line is read as an action line by its keys *)
Fixpoint es_walk (target : string) (source : bool) (ls : list (string * option jv)) : option (list esline) :=
  match ls with
  | [] => Some []
  | tl :: r =>
    match snd tl with
    | None => option_map (cons (EL (fst tl) EsBlank)) (es_walk target source r)
    | Some v =>
      if source then match v with JObj _ => option_map (cons (EL (fst tl) EsDoc)) (es_walk target false r) | _ => None end
      else match es_line target tl with
           | Some l => option_map (cons l) (es_walk target (match el_kind l with EsSet _ => true | _ => false end) r)
           | None => None
           end
    end
  end.

(* ---------------------------------------------------------------- generated case files *)
(* wc_case: the observations, with a body BCf / BEs that carries the clock (and the ddsource) but no lines: they are what the
   walk makes of wc_lines; wc_ctx: the target of the bulk route; wc_wellformed: every line was written as the protocol says *)
Record wcase := WCase { wc_case : case; wc_ctx : string; wc_lines : list (string * option jv); wc_wellformed : bool }.
Definition wc_body (c : wcase) : option body :=
  match c_body (wc_case c) with
  | BCf src ck _ => option_map (BCf src ck) (all_some cf_line (wc_lines c))
  | BEs ck _ => option_map (BEs ck) (es_walk (wc_ctx c) false (wc_lines c))
  | b => Some b
  end.
Definition with_any_body (c : case) (b : body) : case :=
  Case (c_id c) b (c_ctx_ttl c) (c_cache c) (c_tab c) (c_obs c) (c_err c).
Definition wc_mismatch (c : wcase) : bool :=
  match wc_body c with
  | None => negb (is_error (c_err (wc_case c)))
  | Some b => model_mismatch (with_any_body (wc_case c) b)
  end.
(* a body written as the protocol says must be answered with one faithful row per entry (an error is a violation); any
   other body that is accepted, with one row per entry the walk finds in it *)
Definition wc_spec_violation (c : wcase) : bool :=
  match wc_body c with
  | Some b => (wc_wellformed c || negb (is_error (c_err (wc_case c)))) && spec_violation (with_any_body (wc_case c) b)
  | None => false
  end.
Definition wc_check_all (cs : list wcase) : list Z * list Z :=
  (map (fun c => c_id (wc_case c)) (filter wc_mismatch cs), map (fun c => c_id (wc_case c)) (filter wc_spec_violation cs)).

(* bodies read through a reader that fails part-way (Decode.v fr_violation): the request failed, or its rows are those of
   ALL lines *)
Definition wc_fr_violation (c : wcase) : bool :=
  match wc_body c with
  | Some b => fr_violation (with_any_body (wc_case c) b)
  | None => false
  end.
Definition wc_fr_check_all (cs : list wcase) : list Z * list Z := ([], map (fun c => c_id (wc_case c)) (filter wc_fr_violation cs)).

