(* Model of one insert service of writer/service/genericInsertService.go (type InsertServiceV2)
   and of the six ProcessRequest closures of writer/service/impl/*.go.
   Executable definitions only; proofs are in proofs/IngestProofs.v.

   A cell is (row id, column index): the value one submitted row contributes to one column.
   A request is one cell list per column -- exactly the shape of model.TimeSamplesData,
   TimeSeriesData, TempoSamples, TempoTag, ProfileData (parallel arrays).  The open batch is
   one append-only buffer per column.  Each function below is one mutex hold / one sequential
   section of the Go code; the comments name it. *)
From Coq Require Import List NArith ZArith Bool.
Import ListNotations.

Definition cell := (N * nat)%type.
Definition col := list cell.
Definition req := list col.
Definition block := list col.

(* the six services of writer/service/impl *)
Inductive kind := KSamples | KSeries | KMetrics | KSpans | KTags | KProfile.

(* number of columns of the INSERT statement, in the order of acquirer.serialize()/toIFace() *)
Definition ncols (k : kind) : nat :=
  match k with
  | KSamples => 5      (* type, fingerprint, timestamp_ns, string, value *)
  | KSeries => 4       (* type, date, fingerprint, labels *)
  | KMetrics => 4      (* type, fingerprint, timestamp_ns, value *)
  | KSpans => 9        (* trace_id, span_id, parent_id, name, timestamp_ns, duration_ns, service_name, payload_type, payload *)
  | KTags => 7         (* date, key, val, trace_id, span_id, timestamp_ns, duration *)
  | KProfile => 13     (* timestamp_ns, type, service_name, sample_types_units, period_type, period_unit, tags,
                          duration_ns, payload_type, payload, values_agg, tree, functions *)
  end.

(* the column whose growth ProcessRequest returns as `inserted`:
   len(samples.Fingerprint.Data) / len(acquirer.Date.Data) / len(metrics.Fingerprint.Data) / res[0].Size() *)
Definition keycol (k : kind) : nat :=
  match k with
  | KSamples => 1 | KSeries => 1 | KMetrics => 1 | KSpans => 0 | KTags => 0 | KProfile => 0
  end.

Definition table_of (n : nat) (rids : list N) : block :=
  map (fun k => map (fun rid => (rid, k)) rids) (seq 0 n).

(* a Go request struct always has exactly its declared fields: missing columns are empty, extra ones do not exist *)
Definition fit (n : nat) (r : req) : req := firstn n (r ++ repeat [] n).

Fixpoint upd {A} (n : nat) (x : A) (l : list A) : list A :=
  match l, n with
  | [], _ => []
  | _ :: t, O => x :: t
  | h :: t, S n' => h :: upd n' x t
  end.

(* what ProcessRequest appends, per column.  Only the time-series closure is not a plain per-column loop:
     for i, d := range MDate { Date.Append(d); Labels.Append(MLabels[i]) }
   so labels beyond len(MDate) are dropped and a shorter MLabels is an index-out-of-range panic (None). *)
Definition eff_series (r1 : req) : option req :=
  let d := length (nth 1 r1 []) in
  let l := nth 3 r1 [] in
  if Nat.ltb (length l) d then None else Some (upd 3 (firstn d l) r1).
Definition eff (k : kind) (r : req) : option req :=
  match k with
  | KSeries => eff_series (fit (ncols k) r)
  | _ => Some (fit (ncols k) r)
  end.

(* column-wise append; buffers without a partner are left untouched *)
Fixpoint zip_app {A} (a b : list (list A)) : list (list A) :=
  match a, b with
  | x :: a', y :: b' => (x ++ y) :: zip_app a' b'
  | _, _ => a
  end.

(* promise identities: created by the environment (direct Request calls) or by attempt k of
   sub-push i of HTTP handler h (controller/builder.go doPush) *)
Inductive pid := PEnv (n : N) | PSub (h i : nat) (k : N).

(* requestPortion, plus whether fetchLoopIteration has reached client.Do with it: between swapBuffers and Do it
   runs OnBeforeInsert() and builds the proto.Input, without the mutex -- Requests can be served in between *)
Record portion := { p_cols : block; p_res : list (pid * req); p_sent : bool }.

Record svc := {
  kd : kind;
  grp : nat;                         (* the InsertServiceV2Multimodal (round-robin group) this worker belongs to *)
  maxq : Z;                          (* maxQueueSize *)
  cols : block;                      (* svc.columns *)
  size : Z;                          (* svc.size *)
  results : list (pid * req);        (* svc.results (the request is kept beside its promise for the statements) *)
  inflight : option portion;         (* the portion fetchLoopIteration is sending: client.Do has not returned *)
  client : bool;                     (* svc.client != nil *)
  planned : bool;                    (* svc.insertCtx is done (timer expiry, size trigger or PlanFlush) *)
  running : bool                     (* svc.running *)
}.

Definition empty_cols (k : kind) : block := repeat [] (ncols k).

(* Init(): columns acquired, no client yet, insertCtx armed with pushInterval *)
Definition svc_init (k : kind) (g : nat) (mq : Z) : svc :=
  {| kd := k; grp := g; maxq := mq; cols := empty_cols k; size := 0; results := []; inflight := None;
     client := false; planned := false; running := true |}.

Inductive sact :=
 | SRequest (p : pid) (r : req) (sz : Z)   (* Request: the mutex hold around processRequest *)
 | SPlan                                   (* insertCtx done: timer expiry or PlanFlush() *)
 | SDial (ok : bool)                       (* fetchLoopIteration: svc.client == nil -> V3Session() *)
 | SSwap                                   (* swapBuffers: one mutex hold *)
 | SSend                                   (* OnBeforeInsert() done, input built: client.Do is called *)
 | SDoReturn (ok : bool)                   (* client.Do returned; releaseWaiting(err); drop the client on error *)
 | SPingFail                               (* watchdog ping failed: client closed and forgotten *)
 | SStop.                                  (* Stop(): ctx cancelled, Run returns, running = false *)

(* what a step does to the outside: the block handed to client.Do, the return of Do, calls of Promise.Done *)
Inductive sev := VSwap | VSend (b : block) | VRet (ok : bool) | VDone (p : pid) (r : req) (ok : bool).

Definition set_planned (s : svc) (b : bool) : svc :=
  {| kd := kd s; grp := grp s; maxq := maxq s; cols := cols s; size := size s; results := results s; inflight := inflight s;
     client := client s; planned := b; running := running s |}.
Definition set_client (s : svc) (b : bool) : svc :=
  {| kd := kd s; grp := grp s; maxq := maxq s; cols := cols s; size := size s; results := results s; inflight := inflight s;
     client := b; planned := planned s; running := running s |}.
Definition set_cols (s : svc) (c : block) : svc :=
  {| kd := kd s; grp := grp s; maxq := maxq s; cols := c; size := size s; results := results s; inflight := inflight s;
     client := client s; planned := planned s; running := running s |}.

Definition is_nil {A} (l : list A) : bool := match l with [] => true | _ => false end.
Definition is_none {A} (o : option A) : bool := match o with None => true | Some _ => false end.

(* the fetch loop may start an iteration: Run is in its select, insertCtx is done, no Do in progress *)
Definition loop_ready (s : svc) : bool := running s && planned s && is_none (inflight s).

Definition sstep (s : svc) (a : sact) : option (svc * list sev) :=
  match a with
  | SRequest p r sz =>
      if negb (running s) then Some (s, [VDone p r false])            (* "service stopped" *)
      else
        match eff (kd s) r with
        | None => None                                                (* panic inside processRequest: the process dies *)
        | Some r' =>
            let cols' := zip_app (cols s) r' in                        (* the appends happen before `inserted` is looked at *)
            if Nat.eqb (length (nth (keycol (kd s)) r' [])) 0
            then Some (set_cols s cols', [VDone p r true])             (* inserted == 0: p.Done(0, nil) *)
            else
              let size' := (size s + sz)%Z in
              Some ({| kd := kd s; grp := grp s; maxq := maxq s; cols := cols'; size := size';
                       results := results s ++ [(p, r)]; inflight := inflight s; client := client s;
                       planned := planned s || (Z.ltb 0 (maxq s) && Z.ltb (maxq s) size');
                       running := running s |}, [])
        end
  | SPlan => Some (set_planned s true, [])
  | SDial ok =>
      if loop_ready s && negb (client s) then Some (set_client s ok, []) else None
  | SSwap =>
      if loop_ready s && client s then
        if is_nil (results s) then Some (set_planned s false, [])     (* len(svc.results) == 0: return nil, nil *)
        else Some ({| kd := kd s; grp := grp s; maxq := maxq s; cols := empty_cols (kd s); size := 0; results := [];
                      inflight := Some {| p_cols := cols s; p_res := results s; p_sent := false |};
                      client := true; planned := false; running := running s |}, [VSwap])
      else None
  | SSend =>
      match inflight s with
      | Some po =>
          if p_sent po then None
          else Some ({| kd := kd s; grp := grp s; maxq := maxq s; cols := cols s; size := size s; results := results s;
                        inflight := Some {| p_cols := p_cols po; p_res := p_res po; p_sent := true |};
                        client := client s; planned := planned s; running := running s |}, [VSend (p_cols po)])
      | None => None
      end
  | SDoReturn ok =>
      match inflight s with
      | None => None
      | Some po =>
          if negb (p_sent po) then None else
          Some ({| kd := kd s; grp := grp s; maxq := maxq s; cols := cols s; size := size s; results := results s;
                   inflight := None; client := ok; planned := planned s; running := running s |},
                VRet ok :: map (fun pr => VDone (fst pr) (snd pr) ok) (p_res po))
      end
  | SPingFail =>
      if is_none (inflight s) then Some (set_client s false, []) else None
  | SStop => Some ({| kd := kd s; grp := grp s; maxq := maxq s; cols := cols s; size := size s; results := results s;
                      inflight := inflight s; client := client s; planned := planned s; running := false |}, [])
  end.

(* ---------------------------------------------------------------------------------------------
   Boolean helpers shared by the specification monitors *)
Definition cell_eqb (a b : cell) : bool := N.eqb (fst a) (fst b) && Nat.eqb (snd a) (snd b).
(* every cell of c occurs in d.  The first disjunct is only a fast path (c is a contiguous piece of d, the normal
   case); the second is the definition. *)
Fixpoint prefixb (c d : col) : bool :=
  match c, d with
  | [], _ => true
  | x :: c', y :: d' => if cell_eqb x y then prefixb c' d' else false   (* `if`: evaluation must stop at the first difference *)
  | _ :: _, [] => false
  end.
Fixpoint infixb (c d : col) : bool :=
  if prefixb c d then true else match d with [] => false | _ :: d' => infixb c d' end.
Definition col_sub_def (c d : col) : bool := forallb (fun x => existsb (cell_eqb x) d) c.
Definition col_sub (c d : col) : bool := if infixb c d then true else col_sub_def c d.
(* every cell of every column of r is in the same column of b *)
Fixpoint cells_subb (r b : block) : bool :=
  match r, b with
  | [], _ => true
  | c :: r', d :: b' => if col_sub c d then cells_subb r' b' else false     (* = &&, evaluated lazily *)
  | _ :: _, [] => false
  end.
Definition no_cells (r : req) : bool := forallb is_nil r.
Definition key_empty (k : kind) (r : req) : bool := is_nil (nth (keycol k) r []).

Fixpoint col_eqb (a b : col) : bool :=
  match a, b with
  | [], [] => true
  | x :: a', y :: b' => cell_eqb x y && col_eqb a' b'
  | _, _ => false
  end.
Fixpoint block_eqb (a b : block) : bool :=
  match a, b with
  | [], [] => true
  | x :: a', y :: b' => col_eqb x y && block_eqb a' b'
  | _, _ => false
  end.

(* a request is well formed when it is the column-major table of its rows (all columns equally long, the
   i-th cell of every column belongs to row i) *)
Definition rids_of (r : req) : list N := map fst (hd [] r).
Definition wf_reqb (k : kind) (r : req) : bool := block_eqb r (table_of (ncols k) (rids_of r)).

(* a run of one worker *)
Fixpoint srun (s : svc) (tr : list sact) : option (svc * list sev) :=
  match tr with
  | [] => Some (s, [])
  | a :: tr' =>
      match sstep s a with
      | None => None
      | Some (s', e1) => match srun s' tr' with None => None | Some (s'', e2) => Some (s'', e1 ++ e2) end
      end
  end.

(* the continuation that empties a worker while the database keeps answering: let the Do that is out return,
   then one flush (PlanFlush / timer, dial if needed, swapBuffers, Do, return) *)
Definition drain (s : svc) : list sact :=
  (match inflight s with
   | Some po => (if p_sent po then [] else [SSend]) ++ [SDoReturn true]
   | None => []
   end) ++
  [SPlan] ++
  (if (if is_none (inflight s) then client s else true) then [] else [SDial true]) ++
  [SSwap] ++
  (if is_nil (results s) then [] else [SSend; SDoReturn true]).

Definition is_srequest (a : sact) : bool := match a with SRequest _ _ _ => true | _ => false end.
Fixpoint dones (vs : list sev) : list (pid * bool) :=
  match vs with
  | [] => []
  | VDone p _ ok :: t => (p, ok) :: dones t
  | _ :: t => dones t
  end.
