(* C15 - the stage in front of the streams encoder: internal_planner.ResponseOptimizerPlanner
   (reader/logql/logql_transpiler_v2/internal_planner/planner_fingerprint_optimizer.go).

     fpMap := make(map[uint64][]LogEntry); size := 0
     OnEntry:             fpMap[entry.Fingerprint] = append(fpMap[entry.Fingerprint], *entry); size++
     OnAfterEntriesSlice: if size < 3000 { return }; for _, ents := range fpMap { c <- ents }; fpMap = new map; size = 0
     OnAfterEntries:      if size == 0 { return }; for _, ents := range fpMap { c <- ents }

   It regroups the rows of every window of (at least) 3000 rows by fingerprint and hands exportStreamsValue one
   batch per fingerprint and window. The Go map is an association list here (keys in the order of their first
   insertion); the order in which `range fpMap` visits the keys is arbitrary in Go: it is an argument ([os], the
   fingerprints of the batches as they were observed; where it is not a permutation of the keys the insertion
   order is used, so the function is total and every behaviour of the code is [optimize thr os bs] for some os).
   The threshold is a parameter: the theorems hold for every threshold, the code's is [flush_threshold]. *)
From Coq Require Import List NArith ZArith Bool Ascii String.
From Qryn Require Import model.GoFloat model.JsonStream.
Import ListNotations.

Definition fpmap := list (N * list entry).

Fixpoint fm_add (m : fpmap) (e : entry) : fpmap :=
  match m with
  | [] => [(e_fp e, [e])]
  | (k, l) :: r => if N.eqb k (e_fp e) then (k, l ++ [e]) :: r else (k, l) :: fm_add r e
  end.
Definition fm_keys (m : fpmap) : list N := map fst m.
Fixpoint fm_get (m : fpmap) (k : N) : list entry :=
  match m with
  | [] => []
  | (k', l) :: r => if N.eqb k' k then l else fm_get r k
  end.

(* for _, ents := range fpMap *)
Definition visit (os : list N) (m : fpmap) : list N :=
  let o := firstn (List.length m) os in if is_perm_of o (fm_keys m) then o else fm_keys m.
Definition flush (os : list N) (m : fpmap) : list (list entry) := map (fm_get m) (visit os m).
Definition os_rest (os : list N) (m : fpmap) : list N := skipn (List.length m) os.

(* for entries := range in { for i := range entries { OnEntry }; OnAfterEntriesSlice }; OnAfterEntries *)
Fixpoint opt_run (thr : Z) (m : fpmap) (size : Z) (os : list N) (bs : list (list entry)) : list (list entry) :=
  match bs with
  | [] => if (size =? 0)%Z then [] else flush os m
  | b :: r =>
    let m' := fold_left fm_add b m in
    let size' := (size + Z.of_nat (List.length b))%Z in
    if (size' <? thr)%Z then opt_run thr m' size' os r
    else (flush os m' ++ opt_run thr [] 0 (os_rest os m') r)%list
  end.
Definition optimize (thr : Z) (os : list N) (bs : list (list entry)) : list (list entry) := opt_run thr [] 0 os bs.
Definition flush_threshold : Z := 3000.

(* the observed orders are usable: at every flush the next |keys| observed fingerprints are a permutation of the keys,
   and nothing is left over *)
Fixpoint orders_valid (thr : Z) (m : fpmap) (size : Z) (os : list N) (bs : list (list entry)) : bool :=
  match bs with
  | [] => if (size =? 0)%Z then (match os with [] => true | _ => false end)
          else is_perm_of os (fm_keys m)
  | b :: r =>
    let m' := fold_left fm_add b m in
    let size' := (size + Z.of_nat (List.length b))%Z in
    if (size' <? thr)%Z then orders_valid thr m' size' os r
    else is_perm_of (firstn (List.length m') os) (fm_keys m') && orders_valid thr [] 0 (os_rest os m') r
  end.

(* the response of the pipeline optimizer -> exportStreamsValue *)
Definition enc_opt_streams (os : list N) (bs : list (list entry)) : list token :=
  enc_streams cur_hdr (optimize flush_threshold os bs).

(* ------------------------------------------------------------------------------------------ *)
(* what the property asks of the body, read off the document (independent of the model of the stage):
   the envelope, every object {"stream": labels, "values": [...]}, and for every fingerprint of the input the values
   listed under its labels, over all objects in document order, are exactly its rows in input order; nothing else is listed *)
Definition resp_result (d : json) : option (list json) :=
  match d with
  | JObj [(s, JStr ok); (dk, JObj [(rt, JStr t); (rk, JArr l)])] =>
    if String.eqb s "status" && String.eqb ok "success" && String.eqb dk "data" && String.eqb rt "resultType" &&
       String.eqb t "streams" && String.eqb rk "result" then Some l else None
  | _ => None
  end.
Definition stream_obj_ok (d : json) : bool :=
  match d with
  | JObj [(a, JObj _); (b, JArr _)] => String.eqb a "stream" && String.eqb b "values"
  | _ => false
  end.
Definition stream_labels (d : json) : json := match d with JObj ((_, l) :: _) => l | _ => JNull end.
Fixpoint dedupN (l : list N) : list N :=
  match l with [] => [] | x :: r => x :: filter (fun y => negb (N.eqb x y)) (dedupN r) end.
Definition fp_is (f : N) (e : entry) : bool := N.eqb (e_fp e) f.
Definition labels_of_fp (f : N) (es : list entry) : json :=
  match find (fp_is f) es with Some e => labels_doc (e_lbls e) | None => JNull end.
Fixpoint json_list_eq (a b : list json) : bool :=
  match a, b with
  | [], [] => true
  | x :: a', y :: b' => json_eq x y && json_list_eq a' b'
  | _, _ => false
  end.
Definition rows_once (result : list json) (es : list entry) : bool :=
  let rows := rows_of_result result in
  Nat.eqb (List.length rows) (List.length es) &&
  forallb (fun f =>
    json_list_eq (map snd (filter (fun r => json_eq (fst r) (labels_of_fp f es)) rows))
                 (map log_value_doc (filter (fp_is f) es))) (dedupN (map e_fp es)).
Fixpoint json_nodup (l : list json) : bool :=
  match l with [] => true | x :: r => negb (existsb (json_eq x) r) && json_nodup r end.

Record ocase := { oc_id : Z; oc_batches : list (list entry); oc_order : list N; oc_out : string }.

Definition opt_model_bytes (c : ocase) : string := render (enc_opt_streams (oc_order c) (oc_batches c)).
Definition opt_mismatch (c : ocase) : bool :=
  negb (String.eqb (opt_model_bytes c) (oc_out c)) ||
  negb (orders_valid flush_threshold [] 0 (oc_order c) (oc_batches c)).
(* one document of the streams shape listing every row once under its own labels *)
Definition opt_rows_violation (c : ocase) : bool :=
  if forallb (forallb no_fail) (oc_batches c) then
    match parse_bytes (oc_out c) with
    | Some d => match resp_result d with
                | Some l => negb (forallb stream_obj_ok l && rows_once l (rows_streams (oc_batches c)))
                | None => true
                end
    | None => true
    end
  else false.
(* exactly one object per stream *)
Definition opt_split_observed (c : ocase) : bool :=
  match parse_bytes (oc_out c) with
  | Some d => match resp_result d with Some l => negb (json_nodup (map stream_labels l)) | None => false end
  | None => false
  end.
(* what the model of the stage says for this input and this map order: some fingerprint heads two objects *)
Definition opt_split_predicted (c : ocase) : bool :=
  negb (nodupb (map (fun g => e_fp (fst g)) (group (rows_streams (optimize flush_threshold (oc_order c) (oc_batches c)))))).
(* no window is closed before the input ends: the guard of one_object_per_stream_optimized *)
Definition opt_single_window (c : ocase) : bool :=
  (Z.of_nat (List.length (List.concat (oc_batches c))) <? flush_threshold)%Z.

Definition opt_mismatches (cs : list ocase) : list Z := map oc_id (filter opt_mismatch cs).
Definition opt_rows_violations (cs : list ocase) : list Z := map oc_id (filter opt_rows_violation cs).
Definition opt_splits (cs : list ocase) : list Z := map oc_id (filter opt_split_observed cs).
Definition opt_splits_predicted (cs : list ocase) : list Z := map oc_id (filter opt_split_predicted cs).
Definition opt_single_windows (cs : list ocase) : list Z := map oc_id (filter opt_single_window cs).

(* ------------------------------------------------------------------------------------------ *)
(* compact transport: the rows are laid out from run lengths, the harness builds the same rows.
     id | #streams { fp } | #batches { #runs { stream | count | err } } | #order { fp } | out
   row number n (counted from 1 over the whole case) of stream s: Fingerprint fp_s, Labels {"s": decimal s}, TimestampNS n,
   Message "" ; a run with err = 1 is `count` io.EOF markers with fingerprint 0 *)
Definition opt_row (fps : list N) (s : nat) (n : Z) : entry :=
  {| e_fp := nth s fps 0%N; e_lbls := [("s", int_text (Z.of_nat s))]; e_ts := n; e_msg := EmptyString;
     e_tsf := EmptyString; e_val := EmptyString; e_err := ENone |}.
Definition eof_row : entry :=
  {| e_fp := 0; e_lbls := []; e_ts := 0; e_msg := EmptyString; e_tsf := EmptyString; e_val := EmptyString; e_err := EEOF |}.
Fixpoint opt_rows (fps : list N) (s : nat) (err : bool) (cnt : nat) (n : Z) : list entry :=
  match cnt with
  | O => []
  | S cnt => (if err then eof_row else opt_row fps s n) :: opt_rows fps s err cnt (n + 1)%Z
  end.
Fixpoint take_runs (fps : list N) (k : nat) (fs : list string) (n : Z) : option (list entry * list string * Z) :=
  match k with
  | O => Some ([], fs, n)
  | S k => match fs with
           | s :: c :: er :: r =>
             let cnt := dec_nat c in
             match take_runs fps k r (n + Z.of_nat cnt)%Z with
             | Some (l, r', n') => Some ((opt_rows fps (dec_nat s) (negb (Nat.eqb (dec_nat er) 0)) cnt n ++ l)%list, r', n')
             | None => None
             end
           | _ => None
           end
  end.
Fixpoint take_obatches (fps : list N) (k : nat) (fs : list string) (n : Z) : option (list (list entry) * list string) :=
  match k with
  | O => Some ([], fs)
  | S k => match fs with
           | c :: r => match take_runs fps (dec_nat c) r n with
                       | Some (b, r', n') => match take_obatches fps k r' n' with
                                             | Some (l, r'') => Some (b :: l, r'')
                                             | None => None
                                             end
                       | None => None
                       end
           | [] => None
           end
  end.
Definition decode_ocase (x : lbytes) : option ocase :=
  match split_bar (string_of_list_byte (unLB x)) (fun y => y) with
  | id :: ns :: r =>
    match take_items (dec_nat ns) r with
    | Some (fps, nb :: r1) =>
      match take_obatches (map (fun f => dec_N f 0) fps) (dec_nat nb) r1 1 with
      | Some (bs, no :: r2) =>
        match take_items (dec_nat no) r2 with
        | Some (ord, [o]) => Some {| oc_id := dec_Z id; oc_batches := bs; oc_order := map (fun f => dec_N f 0) ord; oc_out := unesc o |}
        | _ => None
        end
      | _ => None
      end
    | _ => None
    end
  | _ => None
  end.
(* long cases travel in pieces (one literal of several 10 KB overflows the stack of the notation interpreter) *)
Definition join_lb (ps : list lbytes) : lbytes := LB (List.concat (map unLB ps)).
Fixpoint decode_ocases (xs : list lbytes) : list ocase :=
  match xs with
  | [] => []
  | x :: r => match decode_ocase x with Some c => c :: decode_ocases r | None => decode_ocases r end
  end.
Definition oundecodable (xs : list lbytes) : Z :=
  Z.of_nat (List.length (filter (fun x => match decode_ocase x with Some _ => false | None => true end) xs)).
