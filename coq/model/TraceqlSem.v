(* Property C11: what a TraceQL script means over an attribute index, and what the SQL that the
   planners emit computes.

   Part 1  database: rows of tempo_traces_attrs_gin (one row per span attribute).
   Part 2  traceql_sem: the reference meaning of a script (independent of any SQL).
   Part 3  eval_sel: an evaluator for the ClickHouse subset the planners emit for the index part
           of a search (the CTE index_grouped: which traces, which spans).  TRUSTED: there is no
           ClickHouse binary in this environment; each clause says which documented behaviour it
           encodes.  It is deliberately small; anything outside the subset evaluates to None.

   Three library functions are section variables (the same function on both sides): the RE2 matcher
   behind ClickHouse match(), the Float64 parser behind toFloat64OrNull, and cityHash64.
   Float64 values are modelled as exact rationals.

   Executable definitions only. *)
From Coq Require Import List ZArith QArith String Ascii Bool.
From Qryn Require Import model.TqSql model.Traceql model.TraceqlPlan model.Like.
Import ListNotations.
Open Scope string_scope.

(* ClickHouse LIKE: the pattern grammar of model/Like.v (like_parse: % any run, _ any byte, \% \_ \\ literal), matched as C07's
   evaluator does (SqlEval.lmatch; the same definition, SqlEval.v is not imported here) *)
Fixpoint like_match (p : list litem) (s : string) {struct p} : bool :=
  match p with
  | [] => match s with EmptyString => true | _ => false end
  | LCh c :: p' => match s with String d s' => Ascii.eqb c d && like_match p' s' | EmptyString => false end
  | LOne :: p' => match s with String _ s' => like_match p' s' | EmptyString => false end
  | LAny :: p' =>
    (fix any (s : string) : bool :=
       like_match p' s || match s with String _ s' => any s' | EmptyString => false end) s
  end.
Definition like_sem (pat s : string) : bool := like_match (like_parse pat) s.

(* ================================================================ 1. database *)
Record irow := {
  r_date : string; r_key : string; r_val : string;
  r_trace : string; r_span : string; r_ts : Z; r_dur : Z }.
Definition db := list irow.

Section SEM.
  Variable re_match : string -> string -> bool.      (* pattern, subject: ClickHouse match() = RE2 partial match *)
  Variable parse_float : string -> option Q.         (* toFloat64OrNull: Some value / None = not a number *)
  Variable hash64 : string -> Z.                     (* cityHash64 *)
  (* false: a numeric literal of the query means its exact decimal value (the reference meaning).
     true: it means the value of the text sql.FloatVal prints for it, which is what reaches ClickHouse.
     Since 57651aa (FormatFloat instead of six decimals) the two agree: lits_exact below, checked on every case. *)
  Variable lit_round : bool.

  (* ================================================================ 2. reference meaning *)
  (* exact value of a decimal token *)
  Definition dec_Q (d : dec) : Q :=
    let m := (Z.of_N (d_int d) * 10 ^ Z.of_nat (d_flen d) + Z.of_N (d_frac d))%Z in
    Qmake (if d_neg d then - m else m) (Z.to_pos (10 ^ Z.of_nat (d_flen d))).

  (* value of the text of a FloatVal / of a bare number *)
  Definition num_of_text (s : string) : option Q := match parse_dec s with Some d => Some (dec_Q d) | None => None end.
  Definition lit_value (v : value) : option Q :=
    if lit_round then match num_text v with Some s => num_of_text s | None => None end
    else match parse_dec (v_f v) with Some d => Some (dec_Q d) | None => None end.

  Definition cmp_Q (c : cmp) (a b : Q) : bool :=
    match c with
    | CEq => Qeq_bool a b | CNeq => negb (Qeq_bool a b)
    | CLt => Qle_bool a b && negb (Qeq_bool a b) | CLe => Qle_bool a b
    | CGt => Qle_bool b a && negb (Qeq_bool a b) | CGe => Qle_bool b a
    | CRe | CNre => false
    end.
  Definition cmp_Z (c : cmp) (a b : Z) : bool :=
    match c with
    | CEq => Z.eqb a b | CNeq => negb (Z.eqb a b) | CLt => Z.ltb a b | CLe => Z.leb a b
    | CGt => Z.ltb b a | CGe => Z.leb b a | CRe | CNre => false
    end.

  (* attribute key a label refers to; None for the intrinsic `duration` (and for unsupported labels) *)
  Definition label_key (l : string) : option string :=
    match strip_scope l with
    | Some k => Some k
    | None => if String.eqb l "name" then Some "name" else None
    end.

  (* a term is true of an index row (= of one attribute of a span):
       .k = "s" / != / =~ / !~   : the attribute k exists and its value compares so
       .k <op> number            : the attribute k exists, is numeric and compares so
       duration <op> d           : the span's duration compares so *)
  Definition term_sem (t : attr_sel) (r : irow) : bool :=
    match label_key (a_label t) with
    | Some k =>
        String.eqb (r_key r) k &&
        match v_str (a_val t) with
        | Some _ =>
            match unquoted (a_val t) with
            | Some s =>
                match a_op t with
                | CEq => String.eqb (r_val r) s
                | CNeq => negb (String.eqb (r_val r) s)
                | CRe => re_match s (r_val r)
                | CNre => negb (re_match s (r_val r))
                | _ => false
                end
            | None => false
            end
        | None =>
            match lit_value (a_val t), parse_float (r_val r) with
            | Some th, Some x => cmp_Q (a_op t) x th
            | _, _ => false
            end
        end
    | None =>
        match dur_ns (a_val t) with
        | Some ns => String.eqb (a_label t) "duration" && cmp_Z (a_op t) (r_dur r) ns
        | None => false
        end
    end.

  (* the boolean expression of a selector, over the attribute rows of one span *)
  Fixpoint exp_sem (e : attr_exp) (rows : list irow) : bool :=
    match e with
    | AExp h ao tl =>
        let b := match h with
                 | HTerm t => existsb (term_sem t) rows
                 | HParen e' => exp_sem e' rows
                 end in
        match tl with
        | None => b
        | Some t' => match ao with AOAnd => b && exp_sem t' rows | _ => b || exp_sem t' rows end
        end
    end.

  (* the same over the analysed form (list of distinct terms + tree of term indices) *)
  Fixpoint cond_sem (terms : list attr_sel) (rows : list irow) (c : condition) : bool :=
    match c with
    | CTerm i => match nth_error terms i with Some t => existsb (term_sem t) rows | None => false end
    | CBin AOAnd l r => cond_sem terms rows l && cond_sem terms rows r
    | CBin _ l r => cond_sem terms rows l || cond_sem terms rows r
    end.

  (* spans = groups of index rows with the same (trace, span) ids, inside the time window *)
  Definition in_window (c : ctx) (r : irow) : bool := (from_ns c <=? r_ts r)%Z && (r_ts r <? to_ns c)%Z.
  Definition same_span (a b : irow) : bool := String.eqb (r_trace a) (r_trace b) && String.eqb (r_span a) (r_span b).

  (* first-occurrence representatives *)
  Fixpoint nodup_by {A} (eq : A -> A -> bool) (l : list A) (seen : list A) : list A :=
    match l with
    | [] => []
    | x :: r => if existsb (eq x) seen then nodup_by eq r seen else x :: nodup_by eq r (x :: seen)
    end.

  Record span := { sp_trace : string; sp_span : string; sp_ts : Z; sp_dur : Z; sp_rows : list irow }.
  Definition spans_of (c : ctx) (d : db) : list span :=
    let w := filter (in_window c) d in
    map (fun r => {| sp_trace := r_trace r; sp_span := r_span r; sp_ts := r_ts r; sp_dur := r_dur r;
                     sp_rows := filter (same_span r) w |})
        (nodup_by same_span w []).

  (* value of the aggregated attribute on a span: duration, or the (first) numeric value of the attribute *)
  Fixpoint first_some {A B} (f : A -> option B) (l : list A) : option B :=
    match l with [] => None | x :: r => match f x with Some y => Some y | None => first_some f r end end.
  Definition agg_value (attr : string) (s : span) : option Q :=
    if String.eqb attr "duration" then Some (inject_Z (sp_dur s))
    else let k := strip_agg attr in
         first_some (fun r => if String.eqb (r_key r) k then parse_float (r_val r) else None) (sp_rows s).

  Definition Qsum (l : list Q) : Q := fold_left Qplus l 0%Q.
  Definition Qmax_l (l : list Q) : option Q :=
    match l with [] => None | x :: r => Some (fold_left (fun a b => if Qle_bool a b then b else a) r x) end.
  Definition Qmin_l (l : list Q) : option Q :=
    match l with [] => None | x :: r => Some (fold_left (fun a b => if Qle_bool b a then b else a) r x) end.

  (* the comparison value of an aggregator: number, or duration in ns when the attribute is `duration` *)
  Definition agg_threshold (g : aggregator) : option Q :=
    let cv := g_num g ++ g_meas g in
    if String.eqb (g_attr g) "duration" then
      (* outside the modelled domain of time.ParseDuration (e.g. the bare "0" it accepts without a unit) the library value the
         harness supplies: the text of float64(nanoseconds), as AggregatorPlanner.cmpVal (agg_cmp_text) uses it *)
      match parse_duration_dec cv with
      | Some (Some z) => Some (inject_Z z)
      | Some None => None
      | None => match g_durf g with Some s => num_of_text s | None => None end
      end
    else if String.eqb (g_meas g) "" then
      (if lit_round then match agg_cmp_text g with Ok s => num_of_text s | _ => None end
       else match parse_dec (g_num g) with Some d => Some (dec_Q d) | None => None end)
    else None.

  (* does the set of matched spans of a trace pass the aggregate filter *)
  Definition agg_sem (g : aggregator) (matched : list span) : bool :=
    match agg_threshold g with
    | None => false
    | Some th =>
      match g_fn g with
      | AgCount => cmp_Q (g_cmp g) (inject_Z (Z.of_nat (List.length matched))) th
      | fn =>
          let vals := flat_map (fun s => match agg_value (g_attr g) s with Some v => [v] | None => [] end) matched in
          match vals with
          | [] => false
          | _ =>
            match fn with
            | AgSum => cmp_Q (g_cmp g) (Qsum vals) th
            | AgAvg => cmp_Q (g_cmp g) (Qsum vals / inject_Z (Z.of_nat (List.length vals)))%Q th
            | AgMax => match Qmax_l vals with Some m => cmp_Q (g_cmp g) m th | None => false end
            | _ => match Qmin_l vals with Some m => cmp_Q (g_cmp g) m th | None => false end
            end
          end
      end
    end.

  (* result of a search: per trace the matched spans; its recency key is the newest matched span *)
  Record tres := { t_trace : string; t_spans : list string; t_key : Z }.

  Definition Zmax_l (l : list Z) : Z := match l with [] => 0%Z | x :: r => fold_left Z.max r x end.

  Definition sel_sem (c : ctx) (d : db) (s : selector) : list tres :=
    match sel_attr s with
    | None => []                        (* `{}`: answered from the traces table, not from the index; not modelled *)
    | Some e =>
      let matched := filter (fun sp => exp_sem e (sp_rows sp)) (spans_of c d) in
      let traces := nodup_by String.eqb (map sp_trace matched) [] in
      flat_map (fun t =>
                  let ms := filter (fun sp => String.eqb (sp_trace sp) t) matched in
                  if match sel_agg s with Some g => agg_sem g ms | None => true end
                  then [{| t_trace := t; t_spans := map sp_span ms; t_key := Zmax_l (map sp_ts ms) |}]
                  else []) traces
    end.

  Definition find_tres (t : string) (l : list tres) : option tres := find (fun x => String.eqb (t_trace x) t) l.
  Definition union_strs (a b : list string) : list string := nodup_by String.eqb (a ++ b)%list [].

  (* && keeps the traces matched by both operands, || by either; the spans are those of both sides *)
  Definition and_sem (a b : list tres) : list tres :=
    flat_map (fun x => match find_tres (t_trace x) b with
                       | Some y => [{| t_trace := t_trace x; t_spans := union_strs (t_spans x) (t_spans y); t_key := Z.max (t_key x) (t_key y) |}]
                       | None => [] end) a.
  Definition or_sem (a b : list tres) : list tres :=
    (map (fun x => match find_tres (t_trace x) b with
                   | Some y => {| t_trace := t_trace x; t_spans := union_strs (t_spans x) (t_spans y); t_key := Z.max (t_key x) (t_key y) |}
                   | None => x end) a
     ++ filter (fun y => match find_tres (t_trace y) a with Some _ => false | None => true end) b)%list.

  (* a script is a chain  S1 op S2 op ... ; && binds tighter than || *)
  Fixpoint and_run (c : ctx) (d : db) (s : script) : list tres * option script :=   (* a maximal run of &&, and the rest after a || *)
    match s with
    | Script h ao tl =>
        let cur := sel_sem c d h in
        match ao, tl with
        | AOAnd, Some s' => let '(r, rest) := and_run c d s' in (and_sem cur r, rest)
        | AOOr, Some s' => (cur, Some s')
        | _, _ => (cur, None)
        end
    end.
  Fixpoint script_sem_fuel (fuel : nat) (c : ctx) (d : db) (s : script) : list tres :=
    match fuel with
    | O => []
    | S f => let '(r, rest) := and_run c d s in
             match rest with None => r | Some s' => or_sem r (script_sem_fuel f c d s') end
    end.
  Fixpoint script_len (s : script) : nat := match s with Script _ _ (Some s') => S (script_len s') | _ => 1 end.
  Definition traceql_sem (c : ctx) (d : db) (q : script) : list tres := script_sem_fuel (S (script_len q)) c d q.

  (* "at most limit most recent traces": r is a top-k selection of all *)
  Definition is_topk (k : Z) (all r : list tres) : bool :=
    forallb (fun x => existsb (fun y => String.eqb (t_trace x) (t_trace y) && Z.eqb (t_key x) (t_key y)) all) r
    && (if Z.eqb k 0 then Nat.eqb (List.length r) (List.length all)
        else Nat.eqb (List.length r) (Nat.min (Z.to_nat k) (List.length all)))
    && forallb (fun y => existsb (fun x => String.eqb (t_trace x) (t_trace y)) r
                         || forallb (fun x => (t_key y <=? t_key x)%Z) r) all.

  (* ================================================================ 3. evaluator (trusted) *)
  Inductive value :=
   | VNull | VInt (z : Z) | VStr (s : string) | VNum (q : Q) | VArr (l : list value) | VTup (l : list value).
  Definition row := list (string * value).
  Definition table := list row.

  (* a row of tempo_traces_attrs_gin as the evaluator sees it *)
  Definition row_of_irow (r : irow) : row :=
    [("date", VStr (r_date r)); ("key", VStr (r_key r)); ("val", VStr (r_val r)); ("trace_id", VStr (r_trace r));
     ("span_id", VStr (r_span r)); ("timestamp_ns", VInt (r_ts r)); ("duration", VInt (r_dur r))].

  Fixpoint lookup (k : string) (r : row) : option value :=
    match r with [] => None | (k', v) :: t => if String.eqb k k' then Some v else lookup k t end.

  (* equality of values as used by GROUP BY keys, INTERSECT, IN, DISTINCT *)
  Fixpoint veqb (a b : value) : bool :=
    match a, b with
    | VNull, VNull => true
    | VInt x, VInt y => Z.eqb x y
    | VStr x, VStr y => String.eqb x y
    | VNum x, VNum y => Qeq_bool x y
    | VInt x, VNum y | VNum y, VInt x => Qeq_bool (inject_Z x) y
    | VArr x, VArr y | VTup x, VTup y =>
        (fix go (l1 l2 : list value) : bool :=
           match l1, l2 with
           | [], [] => true
           | u :: l1', w :: l2' => veqb u w && go l1' l2'
           | _, _ => false
           end) x y
    | _, _ => false
    end.
  Definition is_null (v : value) : bool := match v with VNull => true | _ => false end.
  Definition vbool (b : bool) : value := VInt (if b then 1 else 0).

  (* byte-wise string order (ClickHouse compares String values as byte sequences) *)
  Fixpoint str_leb (a b : string) : bool :=
    match a, b with
    | EmptyString, _ => true
    | String _ _, EmptyString => false
    | String x a', String y b' => let nx := N_of_ascii x in let ny := N_of_ascii y in
                                  if (nx <? ny)%N then true else if (ny <? nx)%N then false else str_leb a' b'
    end.

  (* a <= b for ordered values of the same kind (Int/Float are compared as numbers) *)
  Definition vleb (a b : value) : option bool :=
    match a, b with
    | VInt x, VInt y => Some (Z.leb x y)
    | VNum x, VNum y => Some (Qle_bool x y)
    | VInt x, VNum y => Some (Qle_bool (inject_Z x) y)
    | VNum x, VInt y => Some (Qle_bool x (inject_Z y))
    | VStr x, VStr y => Some (str_leb x y)
    | _, _ => None
    end.

  (* comparison operators: NULL if an operand is NULL ("comparison with NULL is NULL") *)
  Definition vcmp (o : lop) (a b : value) : option value :=
    if is_null a || is_null b then Some VNull else
    match vleb a b, vleb b a with
    | Some le, Some ge =>
        Some (vbool match o with
                    | OEq => le && ge | ONeq => negb (le && ge) | OLt => le && negb ge | OLe => le
                    | OGt => ge && negb le | OGe => ge | _ => false end)
    | _, _ => None                      (* operands of different kinds: ClickHouse raises a type error *)
    end.

  (* three-valued and / or over UInt8 / NULL *)
  Definition truth (v : value) : option (option bool) :=     (* Some None = NULL *)
    match v with VNull => Some None | VInt z => Some (Some (negb (Z.eqb z 0))) | _ => None end.
  Fixpoint and3 (l : list (option bool)) : option bool :=
    match l with
    | [] => Some true
    | Some false :: _ => Some false
    | x :: r => match and3 r with Some false => Some false | y => match x, y with Some true, _ => y | _, _ => None end end
    end.
  Fixpoint or3 (l : list (option bool)) : option bool :=
    match l with
    | [] => Some false
    | Some true :: _ => Some true
    | x :: r => match or3 r with Some true => Some true | y => match x, y with Some false, _ => y | _, _ => None end end
    end.
  Definition of3 (b : option bool) : value := match b with Some x => vbool x | None => VNull end.

  Fixpoint all_some {A} (l : list (option A)) : option (list A) :=
    match l with
    | [] => Some []
    | Some x :: r => match all_some r with Some xs => Some (x :: xs) | None => None end
    | None :: _ => None
    end.

  Definition u64 (z : Z) : Z := Z.modulo z (2 ^ 64).

  Definition to_float (v : value) : option value :=
    match v with VInt z => Some (VNum (inject_Z z)) | VNum q => Some (VNum q) | VNull => Some VNull | _ => None end.

  (* names of the aggregate functions of the subset *)
  Definition is_agg_fn (f : fname) : bool :=
    match f with FAny | FMax | FMin | FCount | FAvgIf | FMaxIf | FMinIf | FSumIf | FGroupArray | FGroupUniqArray | FUniqExact => true | _ => false end.

  Definition non_null (l : list value) : list value := filter (fun v => negb (is_null v)) l.
  Fixpoint vnodup (l : list value) (seen : list value) : list value :=
    match l with [] => [] | x :: r => if existsb (veqb x) seen then vnodup r seen else x :: vnodup r (x :: seen) end.
  Definition vmax_l (l : list value) : option value :=
    match l with
    | [] => Some VNull
    | x :: r => fold_left (fun acc v => match acc with Some a => match vleb a v with Some true => Some v | Some false => Some a | None => None end | None => None end) r (Some x)
    end.
  Definition vmin_l (l : list value) : option value :=
    match l with
    | [] => Some VNull
    | x :: r => fold_left (fun acc v => match acc with Some a => match vleb v a with Some true => Some v | Some false => Some a | None => None end | None => None end) r (Some x)
    end.
  Definition as_Q (v : value) : option Q := match v with VInt z => Some (inject_Z z) | VNum q => Some q | _ => None end.

  (* bitShiftLeft(toUInt64(t_0),0)+bitShiftLeft(toUInt64(t_1),1)+... in UInt64 arithmetic *)
  Fixpoint bitset_sum (l : list value) (i : Z) (acc : Z) : option value :=
    match l with
    | [] => Some (VInt acc)
    | VInt b :: l' => bitset_sum l' (i + 1)%Z (u64 (acc + (if (i <? 64)%Z then u64 (Z.shiftl (u64 b) i) else 0)))
    | VNull :: _ => Some VNull
    | _ => None
    end.
  (* the same sum when the terms are NOT converted: bitShiftLeft keeps the type of its first argument, a comparison (or an
     and/or of comparisons) is UInt8, so bits shifted past position 7 are lost; UInt8 + UInt8 is promoted (no wrap-around) *)
  Fixpoint bitset_sum8 (l : list value) (i : Z) (acc : Z) : option value :=
    match l with
    | [] => Some (VInt acc)
    | VInt b :: l' => bitset_sum8 l' (i + 1)%Z (acc + (if (i <? 8)%Z then Z.modulo (Z.shiftl (Z.modulo b 256) i) 256 else 0))%Z
    | VNull :: _ => Some VNull
    | _ => None
    end.
  (* groupBitOr over the non-NULL values of a group *)
  Fixpoint bitor_fold (l : list value) (acc : Z) : option value :=
    match l with
    | [] => Some (VInt acc)
    | VInt z :: l' => bitor_fold l' (Z.lor acc (u64 z))
    | VNull :: l' => bitor_fold l' acc
    | _ => None
    end.

  (* CTE environment: alias -> rows *)
  Definition env := list (string * table).
  Fixpoint env_get (k : string) (e : env) : option table :=
    match e with [] => None | (k', t) :: r => if String.eqb k k' then Some t else env_get k r end.

  (* does the expression contain an aggregate function (fuel exhausted: assume yes) *)
  Fixpoint has_agg (fuel : nat) (e : expr) : bool :=
    match fuel with
    | O => true
    | S f =>
      match e with
      | Fn fn args => is_agg_fn fn || existsb (has_agg f) args
      | PFn fn _ _ => is_agg_fn fn
      | GroupBitOr _ _ | AttrValue _ => true
      | LOp _ cl => existsb (has_agg f) cl
      | Col x _ | Ord x _ | Distinct x | MatchRe x _ => has_agg f x
      | BitAnd a b | Bin _ a b | EqBare a b => has_agg f a || has_agg f b
      | InE l rs => has_agg f l || existsb (has_agg f) rs
      | Tuple l | BitSet l | BitSet8 l => existsb (has_agg f) l
      | _ => false
      end
    end.

  Fixpoint lookup_alias (x : string) (l : list (string * expr)) : option expr :=
    match l with [] => None | (a, d) :: r => if String.eqb x a then Some d else lookup_alias x r end.

  Section EXPR.
    Variable cte : env.
    (* SELECT aliases visible in HAVING / ORDER BY / other SELECT expressions of an aggregating query,
       and the names that are GROUP BY keys *)
    Variable aliases : list (string * expr).
    Variable keys : list string.

    (* agg = false: row context (WHERE, arguments of aggregate functions): identifiers are columns of r.
       agg = true: one group g (non-empty): identifiers are aliases (substituted, except inside their own
       definition: self) or GROUP BY keys (read from the first row); aggregate functions fold over g.
       ClickHouse: "aggregate functions skip NULL arguments". *)
    Fixpoint ev (fuel : nat) (agg : bool) (self : string) (g : list row) (r : row) (e : expr) : option value :=
      match fuel with
      | O => None
      | S f =>
        let rowv := fun (r' : row) (x : expr) => ev f false self [] r' x in
        let sub := fun (x : expr) => ev f agg self g r x in
        match e with
        | Id x =>
            if agg then
              match (if String.eqb x self then None else lookup_alias x aliases) with
              | Some d => ev f true x g r d
              | None => if existsb (String.eqb x) keys then lookup x r else None
              end
            else
              (* an identifier that is also a SELECT alias of this query is replaced by the aliased expression
                 (prefer_column_name_to_alias = 0), except inside that alias' own definition; this is why the
                 planners write traces_idx.duration, index_search.span_id, <p>a.max_timestamp_ns.  An aggregate
                 arriving this way inside WHERE or inside another aggregate is an error. *)
              match (if String.eqb x self then None else lookup_alias x aliases) with
              | Some (Id y) => if String.eqb y x then lookup x r else ev f false x g r (Id y)
              | Some d => if has_agg 20 d then None else ev f false x g r d
              | None => lookup x r
              end
        | Raw _ => None
        | NumLit s => match parse_dec s with Some d => if Nat.eqb (d_flen d) 0 then Some (VInt (Z.of_N (d_int d))) else Some (VNum (dec_Q d)) | None => None end
        | RawStr s | StrV s => Some (VStr s)
        | IntV z => Some (VInt z)
        | FloatV s => match num_of_text s with Some q => Some (VNum q) | None => None end
        | LOp fn cl =>
            match all_some (map sub cl) with
            | None => None
            | Some vs =>
              match fn with
              | OAnd => match all_some (map truth vs) with Some ts => Some (of3 (and3 ts)) | None => None end
              | OOr => match all_some (map truth vs) with Some ts => Some (of3 (or3 ts)) | None => None end
              | _ => match vs with [a; b] => vcmp fn a b | _ => None end
              end
            end
        | InE l rs =>
            match sub l with
            | None => None
            | Some lv =>
              match rs with
              | [WRef a] =>                         (* x IN (cte): membership among the rows of the CTE (column order) *)
                  match env_get a cte with
                  | Some t =>
                      Some (vbool (existsb (fun tr => match lv, tr with
                                                      | VTup xs, _ => veqb (VTup xs) (VTup (map snd tr))
                                                      | _, (_, v) :: _ => veqb lv v
                                                      | _, [] => false end) t))
                  | None => None
                  end
              | _ => match all_some (map sub rs) with Some vs => Some (vbool (existsb (veqb lv) vs)) | None => None end
              end
            end
        | WRef _ => None
        | Col x _ => sub x
        | Ord x _ => sub x
        | Distinct _ => None
        | Bin op a b =>
            match sub a, sub b with
            | Some (VInt x), Some (VInt y) =>
                match op with
                | BMod => if Z.eqb y 0 then None else Some (VInt (Z.modulo x y))
                | BAdd => Some (VInt (x + y)) | BSub => Some (VInt (x - y)) | BDiv => None
                end
            | _, _ => None
            end
        | EqBare a b => match sub a, sub b with Some x, Some y => vcmp OEq x y | _, _ => None end
        | Tuple l => match all_some (map sub l) with Some vs => Some (VTup vs) | None => None end
        | Lambda _ _ => None
        | BitSet terms =>
            (* bitShiftLeft(toUInt64(t_0),0)+bitShiftLeft(toUInt64(t_1),1)+... ; a shift by 64 or more gives 0;
               NULL anywhere makes the sum NULL *)
            match all_some (map sub terms) with
            | None => None
            | Some vs =>
              bitset_sum vs 0%Z 0%Z
            end
        | BitSet8 terms =>
            match all_some (map sub terms) with
            | None => None
            | Some vs => bitset_sum8 vs 0%Z 0%Z
            end
        | BitAnd a b =>
            match sub a, sub b with
            | Some (VInt x), Some (VInt y) => Some (VInt (Z.land (u64 x) (u64 y)))
            | Some VNull, Some _ | Some _, Some VNull => Some VNull
            | _, _ => None
            end
        | MatchRe fe re => match sub fe with Some (VStr s) => Some (vbool (re_match re s)) | Some VNull => Some VNull | _ => None end
        | GroupBitOr x _ =>
            if agg then
              match all_some (map (fun r' => rowv r' x) g) with
              | Some vs => bitor_fold vs 0%Z
              | None => None
              end
            else None
        | AttrValue attr =>               (* anyIf(toFloat64OrNull(val), key == attr) *)
            if agg then
              match all_some (map (fun r' => match lookup "key" r', lookup "val" r' with
                                             | Some (VStr k), Some (VStr v) =>
                                                 Some (if String.eqb k attr then match parse_float v with Some q => VNum q | None => VNull end else VNull)
                                             | _, _ => None end) g) with
              | Some vs => match non_null vs with v :: _ => Some v | [] => Some VNull end
              | None => None
              end
            else None
        | Intersect _ | Union _ => None
        | PFn fn ps args =>
            if agg then
              match fn, ps, args with
              | FGroupArray, [NumLit n], [x] =>
                  match all_some (map (fun r' => rowv r' x) g), parse_dec n with
                  | Some vs, Some d => Some (VArr (firstn (N.to_nat (d_int d)) (non_null vs)))
                  | _, _ => None
                  end
              | FGroupUniqArray, [NumLit n], [x] =>
                  match all_some (map (fun r' => rowv r' x) g), parse_dec n with
                  | Some vs, Some d => Some (VArr (firstn (N.to_nat (d_int d)) (vnodup (non_null vs) [])))
                  | _, _ => None
                  end
              | _, _, _ => None
              end
            else None
        | Fn fn args =>
            if is_agg_fn fn then
              if agg then
                match fn, args with
                | FAny, [x] => match all_some (map (fun r' => rowv r' x) g) with
                               | Some vs => match non_null vs with v :: _ => Some v | [] => Some VNull end
                               | None => None end
                | FMax, [x] => match all_some (map (fun r' => rowv r' x) g) with Some vs => vmax_l (non_null vs) | None => None end
                | FMin, [x] => match all_some (map (fun r' => rowv r' x) g) with Some vs => vmin_l (non_null vs) | None => None end
                | FCount, [Distinct x] | FUniqExact, [x] =>
                    match all_some (map (fun r' => rowv r' x) g) with
                    | Some vs => Some (VInt (Z.of_nat (List.length (vnodup (non_null vs) []))))
                    | None => None end
                | (FAvgIf | FMaxIf | FMinIf | FSumIf), [x; cnd] =>
                    (* the rows where cnd is true and x is not NULL; no such row: NULL *)
                    match all_some (map (fun r' => match rowv r' cnd, rowv r' x with
                                                   | Some cv, Some xv => match truth cv with Some t => Some (t, xv) | None => None end
                                                   | _, _ => None end) g) with
                    | None => None
                    | Some ps =>
                        let vs := non_null (map snd (filter (fun p => match fst p with Some true => true | _ => false end) ps)) in
                        match vs with
                        | [] => Some VNull
                        | _ =>
                          match fn with
                          | FMaxIf => vmax_l vs
                          | FMinIf => vmin_l vs
                          | _ => match all_some (map as_Q vs) with
                                 | Some qs => let s := fold_left Qplus qs 0%Q in
                                              Some (VNum (match fn with FSumIf => s | _ => (s / inject_Z (Z.of_nat (List.length qs)))%Q end))
                                 | None => None end
                          end
                        end
                    end
                | _, _ => None
                end
              else None
            else
              match fn, args with
              | FToFloat64, [x] => match sub x with Some v => to_float v | None => None end
              | FIsNotNull, [x] => match sub x with Some v => Some (vbool (negb (is_null v))) | None => None end
              | FToFloat64OrNull, [x] => match sub x with
                                         | Some (VStr s) => Some (match parse_float s with Some q => VNum q | None => VNull end)
                                         | _ => None end
              | FToFloat64OrZero, [x] => match sub x with
                                         | Some (VStr s) => Some (VNum (match parse_float s with Some q => q | None => 0%Q end))
                                         | _ => None end
              | FCityHash64, [x] => match sub x with Some (VStr s) => Some (VInt (hash64 s)) | _ => None end
              | FUnhex, [x] => sub x        (* trace ids are kept in their hex form in the modelled database *)
              (* functions the planners do not emit today; a statement that carries them (an object the dump reads from its printed
                 text) is still given ClickHouse's meaning: like(s, pattern) with % = any run, _ = any byte, backslash escapes
                 (model/Like.v like_sem, the definition C07's evaluator uses) *)
              | FOther name, [x; pt] =>
                  if String.eqb name "like" || String.eqb name "notLike" then
                    match sub x, sub pt with
                    | Some (VStr sv), Some (VStr pv) => Some (vbool (if String.eqb name "like" then like_sem pv sv else negb (like_sem pv sv)))
                    | Some VNull, Some _ | Some _, Some VNull => Some VNull
                    | _, _ => None
                    end
                  else None
              | _, _ => None
              end
        end
      end.
  End EXPR.

  (* ---------------------------------------------------------------- SELECT *)
  Definition ev_fuel : nat := 40.

  (* a source row answers both to column names and to alias-qualified names *)
  Definition qualify (a : string) (r : row) : row :=
    List.app r (map (fun kv => (String.append a (String.append "." (fst kv)), snd kv)) r).

  (* grouping in first-occurrence order: a row joins the first group whose first row has the same key *)
  Fixpoint ins_group {A} (eqk : A -> A -> bool) (r : A) (gs : list (list A)) : list (list A) :=
    match gs with
    | [] => [[r]]
    | g :: rest => match g with
                   | r0 :: _ => if eqk r0 r then (g ++ [r])%list :: rest else g :: ins_group eqk r rest
                   | [] => ins_group eqk r rest
                   end
    end.
  Definition group_rows {A} (eqk : A -> A -> bool) (rows : list A) : list (list A) :=
    fold_left (fun gs r => ins_group eqk r gs) rows [].

  (* aliases a query defines: SELECT e AS a, and groupBitOr(...) AS a written inside HAVING *)
  Fixpoint having_aliases (fuel : nat) (e : expr) : list (string * expr) :=
    match fuel with
    | O => []
    | S f =>
      match e with
      | LOp _ cl => flat_map (having_aliases f) cl
      | BitAnd a b => (having_aliases f a ++ having_aliases f b)%list
      | GroupBitOr x a => if String.eqb a "" then [] else [(a, GroupBitOr x "")]
      | _ => []
      end
    end.
  Definition col_name (e : expr) : option string :=
    match e with Col _ a => if String.eqb a "" then None else Some a | Id x => Some x | _ => None end.
  Definition col_aliases (cols : list expr) : list (string * expr) :=
    flat_map (fun c => match c with Col x a => if String.eqb a "" then [] else [(a, x)] | _ => [] end) cols.

  (* stable insertion sort of (sort keys, payload) by the ORDER BY list *)
  Fixpoint key_before (dirs : list bool) (a b : list value) : option bool :=   (* strictly before *)
    match dirs, a, b with
    | d :: ds, x :: xs, y :: ys =>
        match vleb x y, vleb y x with
        | Some le, Some ge => if le && ge then key_before ds xs ys else Some (if d then negb le else negb ge)
        | _, _ => None
        end
    | _, _, _ => Some false
    end.
  Fixpoint ins_sorted {A} (dirs : list bool) (x : list value * A) (l : list (list value * A)) : option (list (list value * A)) :=
    match l with
    | [] => Some [x]
    | y :: r => match key_before dirs (fst x) (fst y) with
                | Some true => Some (x :: l)
                | Some false => match ins_sorted dirs x r with Some r' => Some (y :: r') | None => None end
                | None => None
                end
    end.
  Definition sort_by {A} (dirs : list bool) (l : list (list value * A)) : option (list (list value * A)) :=
    fold_left (fun acc x => match acc with Some a => ins_sorted dirs x a | None => None end) l (Some []).

  Definition positional_eq (a b : row) : bool := veqb (VTup (map snd a)) (VTup (map snd b)).

  Variable tables : list (string * table).       (* the stored tables, by name *)

  (* The stages of one SELECT, each a plain function; [rec] evaluates a nested statement (WITH entries, operands
     of UNION ALL / INTERSECT). *)
  Section STAGES.
    Variable rec : env -> bool -> select -> option table.

    (* WITH list: printed (hence evaluated) only at the top of a statement; a later entry may use an earlier one *)
    Definition stage_with (cte : env) (top : bool) (withs : list (string * select)) : option env :=
      if top then
        fold_left (fun acc w => match acc with
                                | Some e => match rec e false (snd w) with Some t => Some ((fst w, t) :: e) | None => None end
                                | None => None end) withs (Some cte)
      else Some cte.

    (* FROM *)
    Definition stage_from (cte2 : env) (from : option expr) : option table :=
      let subs := fun (l : list select) => all_some (map (rec cte2 true) l) in
      match from with
      | Some (Col (Id t) a) => match env_get t tables with Some rows => Some (map (qualify a) rows) | None => None end
      | Some (Id t) => env_get t tables
      | Some (WRef a) => match env_get a cte2 with Some rows => Some (map (qualify a) rows) | None => None end
      | Some (Col (Intersect l) a) =>
          (* INTERSECT: the rows of the left operand that also occur in every other operand (by position) *)
          match subs l with
          | Some (t0 :: ts) => Some (map (qualify a) (filter (fun r => forallb (fun t => existsb (positional_eq r) t) ts) t0))
          | _ => None
          end
      | Some (Col (Union l) a) =>
          match subs l with Some ts => Some (map (qualify a) (List.concat ts)) | None => None end
      | _ => None
      end.

    (* ARRAY JOIN: one output row per array element; the element is visible under the alias *)
    Definition array_join (cte2 : env) (je : expr) (rows : table) : option table :=
      let '(arr, name) := match je with Col x a => (x, a) | x => (x, match x with Id n => n | _ => "" end) end in
      match all_some (map (fun r => match ev cte2 [] [] ev_fuel false "" [] r arr with
                                    | Some (VArr l) => Some (map (fun el => (name, el) :: r) l)
                                    | _ => None end) rows) with
      | Some rs => Some (List.concat rs)
      | None => None
      end.
    Definition stage_joins (cte2 : env) (joins : list (jkind * expr * option expr)) (src : option table) : option table :=
      fold_left (fun acc j => match acc, j with
                              | Some rows, (JArray, je, None) => array_join cte2 je rows
                              | _, _ => None
                              end) joins src.

    (* keep the elements whose condition is true (not false, not NULL) *)
    Definition keep_true {A} (cond : A -> option value) (l : list A) : option (list A) :=
      match all_some (map (fun x => match cond x with
                                    | Some v => match truth v with Some t => Some (x, t) | None => None end
                                    | None => None end) l) with
      | Some ps => Some (map fst (filter (fun p => match snd p with Some true => true | _ => false end) ps))
      | None => None
      end.

    (* WHERE *)
    Definition stage_where (cte2 : env) (cols : list expr) (wh : option expr) (rows0 : table) : option table :=
      match wh with
      | None => Some rows0
      | Some w => keep_true (fun r => ev cte2 (col_aliases cols) [] ev_fuel false "" [] r w) rows0
      end.

    (* no GROUP BY: one output row per input row *)
    Definition stage_project (cte2 : env) (cols : list expr) (names : list string) (rows1 : table) : option table :=
      all_some (map (fun r => match all_some (map (fun nc => ev cte2 (col_aliases cols) [] ev_fuel false (fst nc) [] r (snd nc)) (combine names cols)) with
                              | Some vs => Some (combine names vs) | None => None end) rows1).

    Definition eq_keys (keys : list string) (a b : row) : bool :=
      forallb (fun k => match lookup k a, lookup k b with Some x, Some y => veqb x y | _, _ => false end) keys.
    Definition stmt_aliases (cols : list expr) (hv : option expr) : list (string * expr) :=
      (col_aliases cols ++ match hv with Some h => having_aliases ev_fuel h | None => [] end)%list.
    (* an expression over one group *)
    Definition evg (cte2 : env) (aliases : list (string * expr)) (keys : list string) (self : string) (g : list row) (e : expr) : option value :=
      match g with r0 :: _ => ev cte2 aliases keys ev_fuel true self g r0 e | [] => None end.
    Definition out_row (cte2 : env) (aliases : list (string * expr)) (keys : list string) (names : list string) (cols : list expr) (g : list row) : option row :=
      match all_some (map (fun nc => evg cte2 aliases keys (fst nc) g (snd nc)) (combine names cols)) with
      | Some vs => Some (combine names vs) | None => None end.

    (* GROUP BY keys, HAVING, SELECT list per group, ORDER BY .. LIMIT *)
    Definition stage_group (cte2 : env) (cols : list expr) (names keys : list string) (hv : option expr)
               (ob : list expr) (lim : option expr) (rows1 : table) : option table :=
      if negb (forallb (fun r => forallb (fun k => match lookup k r with Some _ => true | None => false end) keys) rows1) then None else
      let groups := group_rows (eq_keys keys) rows1 in
      let aliases := stmt_aliases cols hv in
      let kept : option (list (list row)) :=
        match hv with
        | None => Some groups
        | Some h => keep_true (fun g => evg cte2 aliases keys "" g h) groups
        end in
      match kept with
      | None => None
      | Some gs =>
        match lim with
        | None => all_some (map (out_row cte2 aliases keys names cols) gs)     (* the order of a result without LIMIT does not matter *)
        | Some (IntV k) =>
            (* ORDER BY .. LIMIT k: the first k groups in the given order (ties: input order) *)
            match all_some (map (fun g => match all_some (map (fun o => evg cte2 aliases keys "" g o) ob), out_row cte2 aliases keys names cols g with
                                          | Some ks, Some r => Some (ks, r) | _, _ => None end) gs) with
            | Some krs =>
                match sort_by (map (fun o => match o with Ord _ d => d | _ => false end) ob) krs with
                | Some sorted => Some (firstn (Z.to_nat k) (map snd sorted))
                | None => None
                end
            | None => None
            end
        | Some _ => None
        end
      end.

    Definition eval_body (cte : env) (top : bool) (s : select) : option table :=
      match s with
      | Sel withs distinct cols from joins pw wh hv gb ob lim =>
        if distinct then None else
        match pw with
        | Some _ => None
        | None =>
          match stage_with cte top withs with
          | None => None
          | Some cte2 =>
            match stage_joins cte2 joins (stage_from cte2 from) with
            | None => None
            | Some rows0 =>
              match stage_where cte2 cols wh rows0 with
              | None => None
              | Some rows1 =>
                match all_some (map col_name cols) with
                | None => None
                | Some names =>
                  match gb with
                  | [] =>
                      (* the subset has no aggregate without GROUP BY, no ORDER BY .. LIMIT here *)
                      match hv, lim with
                      | None, None => stage_project cte2 cols names rows1
                      | _, _ => None
                      end
                  | _ =>
                      match all_some (map (fun k => match k with Id x => Some x | _ => None end) gb) with
                      | None => None
                      | Some keys => stage_group cte2 cols names keys hv ob lim rows1
                      end
                  end
                end
              end
            end
          end
        end
      end.
  End STAGES.

  Fixpoint eval_sel (fuel : nat) (cte : env) (top : bool) (s : select) : option table :=
    match fuel with
    | O => None
    | S f => eval_body (eval_sel f) cte top s
    end.
End SEM.

(* ---------- the literal that reaches ClickHouse is the literal of the query: the text FloatVal prints parses
   back to exactly the query's number.  A boolean, checked on every harness case. ---------- *)
Definition lit_exact (v : Traceql.value) : bool :=
  match lit_value true v, lit_value false v with
  | Some a, Some b => Qeq_bool a b
  | None, None => true
  | _, _ => false
  end.
Definition lits_exact (e : attr_exp) : bool := forallb (fun t => lit_exact (a_val t)) (exp_terms e).
Definition agg_lit_exact (g : aggregator) : bool :=
  match agg_threshold true g, agg_threshold false g with
  | Some a, Some b => Qeq_bool a b
  | None, None => true
  | _, _ => false
  end.

(* the number printed into HAVING parses back to the threshold the reference meaning compares with (for an attribute: by
   definition of agg_threshold; for `duration`: the integer text of the nanoseconds parses back to them).  A boolean guard of
   traceql_correct_agg, checked on every harness case inside the modelled domain (TraceqlCase.agg_lit_ok). *)
Definition agg_guard (ag : aggregator) : bool :=
  match agg_threshold true ag, agg_cmp_text ag with
  | Some th, Ok txt => match num_of_text txt with Some q => Qeq_bool q th | None => false end
  | _, _ => false
  end.
