(* C17 part 2, round 5: a concrete reading of the regular expressions behind the two oracles of the selection theorems.

   The theorems of props/C17.v take regular-expression matching as two arbitrary functions related only by the anchoring
   law  re_match v (anchor p) = re_full v p  (ClickHouse match() = RE2 SEARCH on the left, Prometheus' fully anchored
   match on the right).  This file gives the fragment of RE2 syntax the generators use an executable meaning
   (literals, `.`, `|`, groups, `* + ?`, the anchors `^` `$`), so that the law is a THEOREM for it
   (proofs/PromRegexProofs.v) and the shortcut "a value that already starts with ^ and ends with $ needs no wrapping"
   (seed C17-e) is refuted inside the model.  Definitions only.

   Meaning: `ends r s i` = every position j such that r matches the bytes s[i..j) of the subject s (the whole subject is
   in view: `^` asks i = 0, `$` asks i = length s; no multi-line flag, as in Go's regexp and ClickHouse's match()).
   `.` consumes one UTF-8 sequence (Go's regexp works on runes; label values are valid UTF-8; the generated values hold no
   newline, which `.` would refuse without the s flag).
   Tied to Go's regexp on every run: checks/promsel.py parses every generated pattern of the fragment, the model validates
   the parse (re_wf, re_print = text) and re_search / re_prom are compared with regexp.MatchString / labels.Matcher.Matches
   on the label values of the case's database. *)
From Coq Require Import List String Ascii Arith Bool NArith.
Import ListNotations.
Open Scope string_scope.

Inductive re : Type :=
| RChr (c : ascii)            (* a literal byte; printed with a backslash when it is a metacharacter *)
| RAny                        (* .  *)
| REps                        (* the empty expression (an empty branch, an empty group, the empty pattern) *)
| RBol                        (* ^  *)
| REol                        (* $  *)
| RAlt (a b : re)             (* a|b *)
| RCat (a b : re)             (* ab *)
| RStar (a : re) | RPlus (a : re) | ROpt (a : re)
| RGrp (a : re)               (* (?:a) *)
| RCap (a : re).              (* (a)   *)

(* ---- text (RE2 syntax) ---- *)
Definition is_meta (c : ascii) : bool :=
  existsb (Ascii.eqb c) (list_ascii_of_string "\.+*?()|[]{}^$").
Fixpoint re_print (r : re) : string :=
  match r with
  | RChr c => if is_meta c then String "\" (String c "") else String c ""
  | RAny => "."
  | REps => ""
  | RBol => "^"
  | REol => "$"
  | RAlt a b => re_print a ++ "|" ++ re_print b
  | RCat a b => re_print a ++ re_print b
  | RStar a => re_print a ++ "*"
  | RPlus a => re_print a ++ "+"
  | ROpt a => re_print a ++ "?"
  | RGrp a => "(?:" ++ re_print a ++ ")"
  | RCap a => "(" ++ re_print a ++ ")"
  end.

(* the shapes whose text reads back as themselves: `|` binds weakest and nests to the right, juxtaposition next (right
   nested), a repetition applies to one atom; the empty expression stands only for a whole branch or group body *)
Definition is_atom (r : re) : bool :=
  match r with RChr _ | RAny | RGrp _ | RCap _ => true | _ => false end.
Definition is_item (r : re) : bool :=
  match r with RChr _ | RAny | RGrp _ | RCap _ | RBol | REol | RStar _ | RPlus _ | ROpt _ => true | _ => false end.
Fixpoint wf_item (wf : re -> bool) (r : re) : bool :=
  match r with
  | RStar a | RPlus a | ROpt a => is_atom a && wf_item wf a
  | RGrp a | RCap a => wf a
  | RChr _ | RAny | RBol | REol => true
  | _ => false
  end.
Fixpoint wf_seq (wf : re -> bool) (r : re) : bool :=          (* a non-empty juxtaposition, right nested *)
  match r with
  | RCat a b => is_item a && wf_item wf a && wf_seq wf b
  | _ => is_item r && wf_item wf r
  end.
Definition wf_branch (wf : re -> bool) (r : re) : bool :=
  match r with REps => true | _ => wf_seq wf r end.
Fixpoint wf_alt (wf : re -> bool) (fuel : nat) (r : re) : bool :=
  match r with
  | RAlt a b => wf_branch wf a && match fuel with O => false | S f => wf_alt wf f b end
  | _ => wf_branch wf r
  end.
Fixpoint re_size (r : re) : nat :=
  match r with
  | RAlt a b | RCat a b => S (re_size a + re_size b)
  | RStar a | RPlus a | ROpt a | RGrp a | RCap a => S (re_size a)
  | _ => 1
  end.
Fixpoint re_wf_fuel (fuel : nat) (r : re) : bool :=
  match fuel with
  | O => false
  | S f => wf_alt (re_wf_fuel f) (re_size r) r
  end.
Definition re_wf (r : re) : bool := re_wf_fuel (S (re_size r)) r.

(* ---- meaning ---- *)
Definition is_cont (c : ascii) : bool :=                       (* a UTF-8 continuation byte 10xxxxxx *)
  let n := N_of_ascii c in (N.leb 128 n && N.ltb n 192)%N.
Fixpoint cont_len (l : list ascii) : nat :=
  match l with c :: rest => if is_cont c then S (cont_len rest) else O | [] => O end.

(* zero or more rounds of `step`, each round moving forward (a round that consumes nothing adds no new position) *)
Fixpoint star_ends (step : nat -> list nat) (fuel i : nat) : list nat :=
  match fuel with
  | O => [i]
  | S f => i :: flat_map (fun j => if Nat.ltb i j then star_ends step f j else []) (step i)
  end.

Fixpoint ends (r : re) (s : list ascii) (i : nat) : list nat :=
  match r with
  | RChr c => match nth_error s i with Some d => if Ascii.eqb c d then [S i] else [] | None => [] end
  | RAny => match skipn i s with _ :: rest => [S i + cont_len rest] | [] => [] end
  | REps => [i]
  | RBol => if Nat.eqb i 0 then [i] else []
  | REol => if Nat.eqb i (List.length s) then [i] else []
  | RAlt a b => ends a s i ++ ends b s i
  | RCat a b => flat_map (ends b s) (ends a s i)
  | RStar a => star_ends (ends a s) (S (List.length s)) i
  | RPlus a => flat_map (star_ends (ends a s) (S (List.length s))) (ends a s i)
  | ROpt a => i :: ends a s i
  | RGrp a | RCap a => ends a s i
  end.

Definition nonempty {A} (l : list A) : bool := match l with [] => false | _ => true end.
(* RE2 search, what ClickHouse match(val, pattern) and Go's regexp.MatchString answer: some substring matches *)
Definition re_search_l (r : re) (s : list ascii) : bool :=
  existsb (fun i => nonempty (ends r s i)) (seq 0 (S (List.length s))).
(* the whole subject matches *)
Definition re_whole_l (r : re) (s : list ascii) : bool := existsb (Nat.eqb (List.length s)) (ends r s 0).
Definition re_search (r : re) (v : string) : bool := re_search_l r (list_ascii_of_string v).
Definition re_whole (r : re) (v : string) : bool := re_whole_l r (list_ascii_of_string v).

(* Prometheus: labels.NewMatcher compiles "^(?:" + v + ")$" and asks for a match (FastRegexMatcher) *)
Definition wrap (r : re) : re := RCat RBol (RCat (RGrp r) REol).
Definition re_prom (r : re) (v : string) : bool := re_search (wrap r) v.

(* ---- the two oracles of the selection theorems, for a reader of pattern texts ---- *)
Section ORACLES.
  Variable rd : string -> option re.
  Definition re_match_of (v p : string) : bool := match rd p with Some r => re_search r v | None => false end.
  Definition re_full_of (v p : string) : bool := match rd p with Some r => re_whole r v | None => false end.
End ORACLES.

(* seed C17-e: LabelMatcher.GetVal handing a value over unwrapped when it begins with ^ and ends with $ *)
Definition ends_with (suffix s : string) : bool :=
  let n := String.length s in let k := String.length suffix in
  Nat.leb k n && String.eqb (substring (n - k) k s) suffix.
Definition self_anchored (p : string) : bool := String.prefix "^" p && ends_with "$" p.
Definition anchor_shortcut (p : string) : string := if self_anchored p then p else "^(?:" ++ p ++ ")$".

(* one line of the tie: the parse of a pattern text (validated here), and what the model answers on the values *)
Definition re_case_ok (r : re) (text : string) : bool := re_wf r && String.eqb (re_print r) text.
Definition re_case_answers (r : re) (vals : list string) : list (bool * bool) :=
  map (fun v => (re_search r v, re_prom r v)) vals.

(* builders for literal examples: a right-nested juxtaposition *)
Fixpoint re_seq (l : list re) : re :=
  match l with [] => REps | [x] => x | x :: rest => RCat x (re_seq rest) end.
Definition re_lits (s : string) : list re := map RChr (list_ascii_of_string s).
(* ^api|canary$ : the anchors belong to the first and to the last branch *)
Definition re_api_or_canary : re := RAlt (re_seq (RBol :: re_lits "api")) (re_seq (re_lits "canary" ++ [REol])).
(* ^api\$ : the final dollar sign is a literal *)
Definition re_api_dollar : re := re_seq (RBol :: re_lits "api$").
(* ^(?:api|canary)$ written by the caller: here the anchors do enclose everything *)
Definition re_enclosed : re := re_seq [RBol; RGrp (RAlt (re_seq (re_lits "api")) (re_seq (re_lits "canary"))); REol].
