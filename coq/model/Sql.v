(* Model of reader/utils/sql_select: the object tree from which qryn prints ClickHouse SQL.
   One constructor per SQLObject implementation of the package (RawObject, StringVal, IntVal,
   FloatVal, BoolVal, LogicalOp, CNot, CNotNull, In, WithRef, Col, OrderBy, CtxParam, Select,
   Join, With) plus generic forms (Fn, Sep, WithId, BitSetAnd, SubQ) into which the ~40
   planner-local SQLObject types are transcribed so that they print the same bytes.
   Executable definitions only. *)
From Coq Require Import List ZArith NArith String Ascii Bool.
From Qryn Require Import lib.Strs.
Import ListNotations.
Open Scope string_scope.

(* LogicalOp.fn *)
Inductive lop := OAnd | OOr | OEq | ONeq | OLt | OLe | OGt | OGe | OOther (s : string).
Definition lop_str (o : lop) : string :=
  match o with
  | OAnd => "and" | OOr => "or" | OEq => "==" | ONeq => "!=" | OLt => "<" | OLe => "<=" | OGt => ">" | OGe => ">="
  | OOther s => s
  end.
Definition lop_eqb (a b : lop) : bool := String.eqb (lop_str a) (lop_str b).

(* the Select struct, field by field; E = the type of SQL objects.
   s_unions <> [] models the UnionAll wrapper (clickhouse_planner/sql_misc.go). *)
Inductive select_ (E : Type) : Type := mkSel {
  s_distinct : bool;
  s_cols : list E;
  s_from : option E;
  s_where : option E;
  s_prewhere : option E;
  s_having : option E;
  s_groupby : list E;
  s_orderby : list E;
  s_limit : option E;
  s_offset : option E;
  s_withs : list (string * select_ E);          (* []*With: alias, query *)
  s_joins : list (string * E * option E);        (* tp, table, on *)
  s_settings : list (string * string);
  s_unions : list (select_ E)
}.
Arguments mkSel {E}.
Arguments s_distinct {E}. Arguments s_cols {E}. Arguments s_from {E}. Arguments s_where {E}.
Arguments s_prewhere {E}. Arguments s_having {E}. Arguments s_groupby {E}. Arguments s_orderby {E}.
Arguments s_limit {E}. Arguments s_offset {E}. Arguments s_withs {E}. Arguments s_joins {E}.
Arguments s_settings {E}. Arguments s_unions {E}.

Inductive expr :=
 | Raw (s : string)                         (* RawObject holding an SQL fragment *)
 | Id (s : string)                          (* RawObject holding an identifier path: column, alias.column, table *)
 | QRaw (s : string)                        (* 'name' spliced by fmt.Sprintf WITHOUT escaping (lexer-restricted identifiers) *)
 | Idx (e k : expr)                         (* e[k] : map / array subscript built by fmt.Sprintf *)
 | StrV (s : string)                        (* StringVal: printed quoted and escaped *)
 | IntV (z : Z)                             (* IntVal *)
 | FloatV (txt : string)                    (* FloatVal: txt = fmt.Sprintf("%f", v), supplied as an oracle value *)
 | BoolV (b : bool)
 | DateV (day : Z)                          (* StringVal of a time formatted "2006-01-02" (UTC day number) *)
 | LOp (fn : lop) (cl : list expr)          (* LogicalOp *)
 | Not (e : expr)                           (* CNot   "!(%s)" *)
 | NotNull (e : expr)                       (* CNotNull / notNull  "%s IS NOT NULL" *)
 | In (l : expr) (r : list expr)            (* In  "%s IN (%s)" joined by "," *)
 | WRef (alias : string) (q : select_ expr) (* WithRef to With{query,alias} *)
 | Col (e : expr) (alias : string)          (* Col *)
 | Ord (e : expr) (asc : bool)              (* OrderBy *)
 | CtxParam (name : string) (def : option string)
 | Fn (name : string) (args : list expr)    (* name(a1, a2, ...)  — planner-local function objects *)
 | Sep (sep : string) (parts : list expr)   (* parts joined by sep — planner-local objects with irregular text *)
 | BitSetAnd (cl : list expr)               (* SqlBitSetAnd: groupBitOr(bitShiftLeft(c0, 0) + bitShiftLeft(c1, 1) ...) *)
 | WithId (f : N -> expr)                   (* an object whose String method draws ctx.Id() once *)
 | SubQ (q : select_ expr).                 (* a Select used as an object *)

Definition select := select_ expr.

Definition empty_select : select :=
  mkSel false [] None None None None [] [] None None [] [] [] [].

(* ---------- record updates ---------- *)
Definition set_distinct (b : bool) (s : select) : select :=
  mkSel b (s_cols s) (s_from s) (s_where s) (s_prewhere s) (s_having s) (s_groupby s) (s_orderby s) (s_limit s) (s_offset s) (s_withs s) (s_joins s) (s_settings s) (s_unions s).
Definition set_cols (c : list expr) (s : select) : select :=
  mkSel (s_distinct s) c (s_from s) (s_where s) (s_prewhere s) (s_having s) (s_groupby s) (s_orderby s) (s_limit s) (s_offset s) (s_withs s) (s_joins s) (s_settings s) (s_unions s).
Definition set_from (f : expr) (s : select) : select :=
  mkSel (s_distinct s) (s_cols s) (Some f) (s_where s) (s_prewhere s) (s_having s) (s_groupby s) (s_orderby s) (s_limit s) (s_offset s) (s_withs s) (s_joins s) (s_settings s) (s_unions s).
Definition set_where (w : option expr) (s : select) : select :=
  mkSel (s_distinct s) (s_cols s) (s_from s) w (s_prewhere s) (s_having s) (s_groupby s) (s_orderby s) (s_limit s) (s_offset s) (s_withs s) (s_joins s) (s_settings s) (s_unions s).
Definition set_prewhere (w : option expr) (s : select) : select :=
  mkSel (s_distinct s) (s_cols s) (s_from s) (s_where s) w (s_having s) (s_groupby s) (s_orderby s) (s_limit s) (s_offset s) (s_withs s) (s_joins s) (s_settings s) (s_unions s).
Definition set_having (w : option expr) (s : select) : select :=
  mkSel (s_distinct s) (s_cols s) (s_from s) (s_where s) (s_prewhere s) w (s_groupby s) (s_orderby s) (s_limit s) (s_offset s) (s_withs s) (s_joins s) (s_settings s) (s_unions s).
Definition set_groupby (g : list expr) (s : select) : select :=
  mkSel (s_distinct s) (s_cols s) (s_from s) (s_where s) (s_prewhere s) (s_having s) g (s_orderby s) (s_limit s) (s_offset s) (s_withs s) (s_joins s) (s_settings s) (s_unions s).
Definition set_orderby (o : list expr) (s : select) : select :=
  mkSel (s_distinct s) (s_cols s) (s_from s) (s_where s) (s_prewhere s) (s_having s) (s_groupby s) o (s_limit s) (s_offset s) (s_withs s) (s_joins s) (s_settings s) (s_unions s).
Definition set_limit (l : option expr) (s : select) : select :=
  mkSel (s_distinct s) (s_cols s) (s_from s) (s_where s) (s_prewhere s) (s_having s) (s_groupby s) (s_orderby s) l (s_offset s) (s_withs s) (s_joins s) (s_settings s) (s_unions s).
Definition set_offset (l : option expr) (s : select) : select :=
  mkSel (s_distinct s) (s_cols s) (s_from s) (s_where s) (s_prewhere s) (s_having s) (s_groupby s) (s_orderby s) (s_limit s) l (s_withs s) (s_joins s) (s_settings s) (s_unions s).
Definition set_withs (w : list (string * select)) (s : select) : select :=
  mkSel (s_distinct s) (s_cols s) (s_from s) (s_where s) (s_prewhere s) (s_having s) (s_groupby s) (s_orderby s) (s_limit s) (s_offset s) w (s_joins s) (s_settings s) (s_unions s).
Definition set_joins (j : list (string * expr * option expr)) (s : select) : select :=
  mkSel (s_distinct s) (s_cols s) (s_from s) (s_where s) (s_prewhere s) (s_having s) (s_groupby s) (s_orderby s) (s_limit s) (s_offset s) (s_withs s) j (s_settings s) (s_unions s).
Definition set_unions (u : list select) (s : select) : select :=
  mkSel (s_distinct s) (s_cols s) (s_from s) (s_where s) (s_prewhere s) (s_having s) (s_groupby s) (s_orderby s) (s_limit s) (s_offset s) (s_withs s) (s_joins s) (s_settings s) u.

(* ---------- constructors of condition.go ---------- *)
Definition And (cl : list expr) := LOp OAnd cl.
Definition Or (cl : list expr) := LOp OOr cl.
Definition Eq a b := LOp OEq [a; b].
Definition Neq a b := LOp ONeq [a; b].
Definition Lt a b := LOp OLt [a; b].
Definition Le a b := LOp OLe [a; b].
Definition Gt a b := LOp OGt [a; b].
Definition Ge a b := LOp OGe [a; b].
Definition SimpleCol (name alias : string) := Col (Id name) alias.

(* ---------- the mutating builder methods of Select, functionally ---------- *)
(* AndWhere/AndHaving/AndPreWhere: nil -> And(clauses); an existing top-level "and" is appended to;
   anything else is wrapped (AndPreWhere forgets to store the wrapped value: the field keeps its old value) *)
Definition and_into (o : option expr) (cl : list expr) : option expr :=
  match o with
  | None => Some (And cl)
  | Some (LOp OAnd old) => Some (And (old ++ cl))
  | Some e => Some (And (e :: cl))
  end.
Definition or_into (o : option expr) (cl : list expr) : option expr :=
  match o with
  | None => Some (Or cl)
  | Some (LOp OOr old) => Some (Or (old ++ cl))
  | Some e => Some (Or (e :: cl))
  end.
Definition and_where (cl : list expr) (s : select) : select := set_where (and_into (s_where s) cl) s.
Definition or_where (cl : list expr) (s : select) : select := set_where (or_into (s_where s) cl) s.
Definition and_having (cl : list expr) (s : select) : select := set_having (and_into (s_having s) cl) s.
Definition and_prewhere (cl : list expr) (s : select) : select :=
  match s_prewhere s with
  | None => set_prewhere (Some (And cl)) s
  | Some (LOp OAnd old) => set_prewhere (Some (And (old ++ cl))) s
  | Some _ => s
  end.

(* AddWith: skip an alias already present; otherwise hoist the query's own WITHs first, then append *)
Fixpoint add_with (q : select) (a : string) (cur : list (string * select)) {struct q} : list (string * select) :=
  if existsb (fun x => String.eqb (fst x) a) cur then cur else
  (fix go (ws : list (string * select)) (cur : list (string * select)) : list (string * select) :=
     match ws with
     | [] => cur
     | (a', q') :: r => go r (add_with q' a' cur)
     end) (s_withs q) cur ++ [(a, q)].
Definition add_withs (ws : list (string * select)) (s : select) : select :=
  set_withs (fold_left (fun cur w => add_with (snd w) (fst w) cur) ws (s_withs s)) s.
Definition with_ (ws : list (string * select)) (s : select) : select := add_withs ws (set_withs [] s).
Definition drop_with (aliases : list string) (s : select) : select :=
  set_withs (filter (fun w => negb (existsb (String.eqb (fst w)) aliases)) (s_withs s)) s.
Definition add_join (j : string * expr * option expr) (s : select) : select := set_joins (s_joins s ++ [j]) s.

(* sql.Aliased: only Col implements it *)
Definition alias_of (e : expr) : option (expr * string) :=
  match e with Col x a => Some (x, a) | _ => None end.
(* patchCol (sql_misc.go) *)
Definition patch_col (cols : list expr) (name : string) (patch : expr -> expr) : list expr :=
  map (fun c => match alias_of c with
                | Some (x, a) => if String.eqb a name then Col (patch x) name else c
                | None => c end) cols.
Definition has_column (cols : list expr) (name : string) : bool :=
  existsb (fun c => match alias_of c with Some (_, a) => String.eqb a name | None => false end) cols.
Fixpoint get_col (cols : list expr) (name : string) : option expr :=
  match cols with
  | [] => None
  | c :: r => match alias_of c with
              | Some (x, a) => if String.eqb a name then Some x else get_col r name
              | None => get_col r name end
  end.
