(* SQL object model used by the TraceQL planners (property C11).
   A transcription of reader/utils/sql_select (Select, With, WithRef, Col, LogicalOp, In, Join,
   OrderBy, StringVal, IntVal, FloatVal, RawObject) and of the planner-local SQLObjects of
   reader/traceql/transpiler/clickhouse_transpiler (bitSet, bitAnd, groupBitOr, matchRe,
   sqlAttrValue, intersect, union), with a renderer that reproduces Select.String byte for byte.

   Raw fragments of the Go code ("any(duration)", "cityHash64(trace_id) % 3", ...) are not kept as
   strings: they are small expression trees (Id / Fn / PFn / Bin / Tuple / Lambda / NumLit /
   Distinct) whose printer emits the same text, so that the evaluator of model/TraceqlSem.v can
   give them a meaning.  [Raw] is the fallback for a fragment the translation does not know; the
   evaluator rejects it.

   Executable definitions only. *)
From Coq Require Import List ZArith String Ascii Bool.
Import ListNotations.
Open Scope string_scope.

(* ---------- decimal printing (fmt %d) ---------- *)
Definition digit (n : N) : string := String (ascii_of_N (48 + n)) EmptyString.
Fixpoint pos_dec (fuel : nat) (n : N) (acc : string) : string :=
  match fuel with
  | O => acc
  | S f => let q := N.div n 10 in let r := N.modulo n 10 in
           let acc' := digit r ++ acc in
           if N.eqb q 0 then acc' else pos_dec f q acc'
  end.
Definition string_of_N (n : N) : string := pos_dec (S (N.to_nat (N.log2 n))) n "".
Definition string_of_Z (z : Z) : string :=
  match z with Z0 => "0" | Zpos p => string_of_N (Npos p) | Zneg p => "-" ++ string_of_N (Npos p) end.

Fixpoint join (sep : string) (l : list string) : string :=
  match l with [] => "" | [x] => x | x :: r => x ++ sep ++ join sep r end.

(* ---------- StringVal.String: eight sequential strings.Replace; the replacements never create
   a character that a later replacement looks for except the backslash, which is handled first,
   so the composition is this per-byte map ---------- *)
Definition esc_char (c : ascii) : string :=
  if Ascii.eqb c "\" then "\\"
  else if Ascii.eqb c "000" then "\0"
  else if Ascii.eqb c "010" then "\n"
  else if Ascii.eqb c "013" then "\r"
  else if Ascii.eqb c "008" then "\b"
  else if Ascii.eqb c "009" then "\t"
  else if Ascii.eqb c "026" then "\x1a"
  else if Ascii.eqb c "'" then "\'"
  else String c EmptyString.
Fixpoint esc (s : string) : string :=
  match s with EmptyString => EmptyString | String c r => esc_char c ++ esc r end.
Definition quote (s : string) : string := "'" ++ esc s ++ "'".

(* ---------- AST ---------- *)
(* LogicalOp.fn *)
Inductive lop := OAnd | OOr | OEq | ONeq | OLt | OLe | OGt | OGe.
Definition lop_str (o : lop) : string :=
  match o with OAnd => "and" | OOr => "or" | OEq => "==" | ONeq => "!=" | OLt => "<" | OLe => "<=" | OGt => ">" | OGe => ">=" end.

(* functions occurring in raw fragments; FOther keeps the text of an unknown name *)
Inductive fname :=
 | FAny | FMax | FMin | FCount | FToFloat64 | FIsNotNull | FToFloat64OrNull | FToFloat64OrZero
 | FAvgIf | FMaxIf | FMinIf | FSumIf | FCityHash64 | FUnhex | FGroupArray | FGroupUniqArray
 | FArgMin | FLower | FHex | FArrayMap | FUniqExact
 | FOther (s : string).
Definition fname_str (f : fname) : string :=
  match f with
  | FAny => "any" | FMax => "max" | FMin => "min" | FCount => "count" | FToFloat64 => "toFloat64"
  | FIsNotNull => "isNotNull" | FToFloat64OrNull => "toFloat64OrNull" | FToFloat64OrZero => "toFloat64OrZero"
  | FAvgIf => "avgIf" | FMaxIf => "maxIf" | FMinIf => "minIf" | FSumIf => "sumIf"
  | FCityHash64 => "cityHash64" | FUnhex => "unhex" | FGroupArray => "groupArray" | FGroupUniqArray => "groupUniqArray"
  | FArgMin => "argMin" | FLower => "lower" | FHex => "hex" | FArrayMap => "arrayMap" | FUniqExact => "uniqExact"
  | FOther s => s
  end.
Inductive binop := BMod | BAdd | BSub | BDiv.
Definition binop_str (b : binop) : string := match b with BMod => "%" | BAdd => "+" | BSub => "-" | BDiv => "/" end.

(* Join.tp *)
Inductive jkind := JArray | JAnyLeft.
Definition jkind_str (k : jkind) : string := match k with JArray => "array" | JAnyLeft => "any left" end.

Inductive expr :=
 | Id (s : string)                       (* identifier inside a raw fragment, printed as is *)
 | Raw (s : string)                      (* untranslated raw fragment *)
 | NumLit (s : string)                   (* bare number inside a raw fragment *)
 | RawStr (s : string)                   (* 's' written by fmt.Sprintf inside a raw fragment: no escaping *)
 | StrV (s : string)                     (* sql.StringVal *)
 | IntV (z : Z)                          (* sql.IntVal *)
 | FloatV (s : string)                   (* sql.FloatVal: the text FormatFloat(v, 'f', -1, 64) *)
 | LOp (fn : lop) (cl : list expr)       (* sql.LogicalOp *)
 | InE (l : expr) (r : list expr)        (* sql.In *)
 | WRef (alias : string)                 (* sql.WithRef *)
 | Col (e : expr) (alias : string)       (* sql.Col *)
 | Ord (e : expr) (desc : bool)          (* sql.OrderBy *)
 | Fn (f : fname) (args : list expr)     (* f(a, b) *)
 | PFn (f : fname) (ps args : list expr) (* f(p)(a) *)
 | Distinct (e : expr)                   (* distinct e, inside count( ) *)
 | Bin (op : binop) (a b : expr)         (* a op b *)
 | EqBare (a b : expr)                   (* a == b without parentheses (inside sqlAttrValue) *)
 | Tuple (l : list expr)                 (* (a, b) *)
 | Lambda (x : string) (b : expr)        (* x -> b *)
 | BitSet (terms : list expr)            (* clickhouse_transpiler.bitSet *)
 | BitSet8 (terms : list expr)           (* the same sum printed WITHOUT the toUInt64 conversion: bitShiftLeft(t,i)+...  The planners
                                            do not build it (bitSet.String always converts); the check translates a bitSet whose
                                            text lacks the conversion to this, so that the evaluator gives it ClickHouse's
                                            meaning: the shift keeps the UInt8 type of a comparison *)
 | BitAnd (l r : expr)                   (* clickhouse_transpiler.bitAnd *)
 | GroupBitOr (e : expr) (alias : string)(* clickhouse_transpiler.groupBitOr *)
 | MatchRe (f : expr) (re : string)      (* clickhouse_transpiler.matchRe *)
 | AttrValue (attr : string)             (* clickhouse_transpiler.sqlAttrValue *)
 | Intersect (l : list select)           (* clickhouse_transpiler.intersect *)
 | Union (l : list select)               (* clickhouse_transpiler.union *)
with select :=
 | Sel (withs : list (string * select)) (distinct : bool) (cols : list expr) (from : option expr)
       (joins : list (jkind * expr * option expr))
       (prewhere wher having : option expr) (groupby orderby : list expr) (limit : option expr).

Definition s_withs (s : select) := match s with Sel w _ _ _ _ _ _ _ _ _ _ => w end.
Definition s_cols (s : select) := match s with Sel _ _ c _ _ _ _ _ _ _ _ => c end.
Definition s_from (s : select) := match s with Sel _ _ _ f _ _ _ _ _ _ _ => f end.
Definition s_joins (s : select) := match s with Sel _ _ _ _ j _ _ _ _ _ _ => j end.
Definition s_where (s : select) := match s with Sel _ _ _ _ _ _ w _ _ _ _ => w end.
Definition s_having (s : select) := match s with Sel _ _ _ _ _ _ _ h _ _ _ => h end.
Definition s_groupby (s : select) := match s with Sel _ _ _ _ _ _ _ _ g _ _ => g end.
Definition s_orderby (s : select) := match s with Sel _ _ _ _ _ _ _ _ _ o _ => o end.
Definition s_limit (s : select) := match s with Sel _ _ _ _ _ _ _ _ _ _ l => l end.

(* ---------- renderer ---------- *)
Fixpoint bitset_strs (l : list string) (i : N) : list string :=
  match l with
  | [] => []
  | c :: r => ("bitShiftLeft(toUInt64(" ++ c ++ ")," ++ string_of_N i ++ ")") :: bitset_strs r (i + 1)%N
  end.

Fixpoint bitset8_strs (l : list string) (i : N) : list string :=
  match l with
  | [] => []
  | c :: r => ("bitShiftLeft(" ++ c ++ "," ++ string_of_N i ++ ")") :: bitset8_strs r (i + 1)%N
  end.

Definition ropt (f : expr -> string) (kw : string) (o : option expr) : string :=
  match o with None => "" | Some e => kw ++ f e end.
Definition rlist (f : expr -> string) (kw : string) (l : list expr) : string :=
  match l with [] => "" | _ => kw ++ join ", " (map f l) end.

(* Select.String.  top = false is option STRING_OPT_SKIP_WITH (the body of a WITH entry);
   intersect/union drop that option again for their operands.  No caller in the TraceQL path
   passes STRING_OPT_INLINE_WITH (TraceQLRequestProcessor computes the option list and then does
   not use it), so WithRef always prints its alias. *)
Fixpoint rexpr (e : expr) : string :=
  match e with
  | Id s => s
  | Raw s => s
  | NumLit s => s
  | RawStr s => "'" ++ s ++ "'"
  | StrV s => quote s
  | IntV z => string_of_Z z
  | FloatV s => s
  | LOp fn cl => join (" " ++ lop_str fn ++ " ") (map (fun c => "(" ++ rexpr c ++ ")") cl)
  | InE l r => rexpr l ++ " IN (" ++ join "," (map rexpr r) ++ ")"
  | WRef a => a
  | Col e a => if String.eqb a "" then rexpr e else rexpr e ++ " as " ++ a
  | Ord e desc => rexpr e ++ (if desc then " desc" else " asc")
  | Fn f args => fname_str f ++ "(" ++ join ", " (map rexpr args) ++ ")"
  | PFn f ps args => fname_str f ++ "(" ++ join ", " (map rexpr ps) ++ ")(" ++ join ", " (map rexpr args) ++ ")"
  | Distinct e => "distinct " ++ rexpr e
  | Bin op a b => rexpr a ++ " " ++ binop_str op ++ " " ++ rexpr b
  | EqBare a b => rexpr a ++ " == " ++ rexpr b
  | Tuple l => "(" ++ join ", " (map rexpr l) ++ ")"
  | Lambda x b => x ++ " -> " ++ rexpr b
  | BitSet terms => join "+" (bitset_strs (map rexpr terms) 0%N)
  | BitSet8 terms => join "+" (bitset8_strs (map rexpr terms) 0%N)
  | BitAnd l r => "bitAnd(" ++ rexpr l ++ "," ++ rexpr r ++ ")"
  | GroupBitOr e a => let s := "groupBitOr(" ++ rexpr e ++ ")" in if String.eqb a "" then s else s ++ " as " ++ a
  | MatchRe f re => "match(" ++ rexpr f ++ "," ++ quote re ++ ")"
  | AttrValue attr => "anyIf(toFloat64OrNull(val), key == " ++ quote attr ++ ")"
  | Intersect l => "(" ++ join " INTERSECT " (map (rsel true) l) ++ ")"
  | Union l => "(" ++ join " UNION ALL " (map (rsel true) l) ++ ")"
  end
with rsel (top : bool) (s : select) : string :=
  match s with
  | Sel withs distinct cols from joins pw wh hv gb ob lim =>
    (if top then match withs with [] => "" | _ =>
        "WITH " ++ join "," (map (fun w => fst w ++ " as (" ++ rsel false (snd w) ++ ")") withs) end
     else "")
    ++ " SELECT " ++ (if distinct then " DISTINCT " else "") ++ join ", " (map rexpr cols)
    ++ match from with None => "" | Some f =>
         " FROM " ++ rexpr f ++
         String.concat "" (map (fun j => " " ++ jkind_str (fst (fst j)) ++ " JOIN " ++ rexpr (snd (fst j)) ++ " " ++
                                         match snd j with Some on => "ON " ++ rexpr on | None => "" end) joins)
       end
    ++ ropt rexpr " PREWHERE " pw ++ ropt rexpr " WHERE " wh ++ rlist rexpr " GROUP BY " gb
    ++ ropt rexpr " HAVING " hv ++ rlist rexpr " ORDER BY " ob ++ ropt rexpr " LIMIT " lim
  end.

Definition render (s : select) : string := rsel true s.

(* ---------- the mutating builder methods, functionally ---------- *)
Definition new_select : select := Sel [] false [] None [] None None None [] [] None.

(* AndWhere / AndHaving: a nil condition becomes And(clauses); an existing top-level "and" is
   extended in place; anything else is wrapped *)
Definition and_into (o : option expr) (cl : list expr) : option expr :=
  match o with
  | None => Some (LOp OAnd cl)
  | Some (LOp OAnd old) => Some (LOp OAnd (old ++ cl))
  | Some e => Some (LOp OAnd (e :: cl))
  end.
Definition and_where cl s := match s with Sel w d c f j pw wh hv gb ob l => Sel w d c f j pw (and_into wh cl) hv gb ob l end.
Definition and_having cl s := match s with Sel w d c f j pw wh hv gb ob l => Sel w d c f j pw wh (and_into hv cl) gb ob l end.
Definition set_cols c s := match s with Sel w d _ f j pw wh hv gb ob l => Sel w d c f j pw wh hv gb ob l end.
Definition set_distinct d s := match s with Sel w _ c f j pw wh hv gb ob l => Sel w d c f j pw wh hv gb ob l end.
Definition set_from f s := match s with Sel w d c _ j pw wh hv gb ob l => Sel w d c (Some f) j pw wh hv gb ob l end.
Definition set_joins j s := match s with Sel w d c f _ pw wh hv gb ob l => Sel w d c f j pw wh hv gb ob l end.
Definition set_groupby gb s := match s with Sel w d c f j pw wh hv _ ob l => Sel w d c f j pw wh hv gb ob l end.
Definition set_order ob s := match s with Sel w d c f j pw wh hv gb _ l => Sel w d c f j pw wh hv gb ob l end.
Definition set_limit l s := match s with Sel w d c f j pw wh hv gb ob _ => Sel w d c f j pw wh hv gb ob (Some l) end.

(* Select.With = reset + AddWith; AddWith skips an alias that is already present, otherwise
   hoists the nested query's WITH entries first (recursively, fuel = nesting depth allowed) *)
Fixpoint add_with (fuel : nat) (cur : list (string * select)) (w : string * select) : list (string * select) :=
  if existsb (fun x => String.eqb (fst x) (fst w)) cur then cur else
  match fuel with
  | O => cur ++ [w]
  | S f => fold_left (add_with f) (s_withs (snd w)) cur ++ [w]
  end.
Definition set_with (ws : list (string * select)) s :=
  match s with Sel _ d c f j pw wh hv gb ob l => Sel (fold_left (add_with 16) ws []) d c f j pw wh hv gb ob l end.

Definition simple_col (name alias : string) : expr := Col (Id name) alias.

(* ---------- syntactic well-formedness: what Select.String would turn into text that is not a
   statement (or refuse to print).  An and/or/comparison with no clause prints nothing between
   its parentheses ("... and ()"); a select list must not be empty (Select.String returns the
   error "no 'SELECT' part"); IN needs a right-hand side; a WITH reference needs an alias
   (WithRef.String: "alias is empty"); the aliases of one WITH list are pairwise distinct (AddWith
   drops the second query silently, a reference to it would then read the first). ---------- *)
Fixpoint distinct_strs (l : list string) : bool :=
  match l with [] => true | x :: r => negb (existsb (String.eqb x) r) && distinct_strs r end.

(* d = true: also require the aliases of every WITH list to be pairwise distinct *)
Fixpoint wfg_expr (d : bool) (e : expr) : bool :=
  match e with
  | Id s => negb (String.eqb s "")
  | Raw s => negb (String.eqb s "")
  | NumLit s => negb (String.eqb s "")
  | RawStr _ | StrV _ | IntV _ | FloatV _ => true
  | LOp fn cl =>
      match fn with
      | OAnd | OOr => negb (match cl with [] => true | _ => false end)
      | _ => Nat.eqb (List.length cl) 2
      end && forallb (wfg_expr d) cl
  | InE l r => wfg_expr d l && negb (match r with [] => true | _ => false end) && forallb (wfg_expr d) r
  | WRef a => negb (String.eqb a "")
  | Col e _ => wfg_expr d e
  | Ord e _ => wfg_expr d e
  | Fn _ args => forallb (wfg_expr d) args
  | PFn _ ps args => forallb (wfg_expr d) ps && forallb (wfg_expr d) args
  | Distinct e => wfg_expr d e
  | Bin _ a b => wfg_expr d a && wfg_expr d b
  | EqBare a b => wfg_expr d a && wfg_expr d b
  | Tuple l => negb (match l with [] => true | _ => false end) && forallb (wfg_expr d) l
  | Lambda x b => negb (String.eqb x "") && wfg_expr d b
  | BitSet terms => negb (match terms with [] => true | _ => false end) && forallb (wfg_expr d) terms
  | BitSet8 terms => negb (match terms with [] => true | _ => false end) && forallb (wfg_expr d) terms
  | BitAnd l r => wfg_expr d l && wfg_expr d r
  | GroupBitOr e _ => wfg_expr d e
  | MatchRe f _ => wfg_expr d f
  | AttrValue _ => true
  | Intersect l => negb (match l with [] => true | _ => false end) && forallb (wfg_sel d) l
  | Union l => negb (match l with [] => true | _ => false end) && forallb (wfg_sel d) l
  end
with wfg_sel (d : bool) (s : select) : bool :=
  match s with
  | Sel withs _ cols from joins pw wh hv gb ob lim =>
      (if d then distinct_strs (map fst withs) else true)
      && forallb (fun w => negb (String.eqb (fst w) "") && wfg_sel d (snd w)) withs
      && negb (match cols with [] => true | _ => false end) && forallb (wfg_expr d) cols
      && match from with Some f => wfg_expr d f | None => match joins with [] => true | _ => false end end
      && forallb (fun j => wfg_expr d (snd (fst j)) && match snd j with Some on => wfg_expr d on | None => true end) joins
      && match pw with Some e => wfg_expr d e | None => true end
      && match wh with Some e => wfg_expr d e | None => true end
      && match hv with Some e => wfg_expr d e | None => true end
      && forallb (wfg_expr d) gb && forallb (wfg_expr d) ob
      && match lim with Some e => wfg_expr d e | None => true end
  end.
(* the oracle run on every observed statement *)
Definition wf_sel (s : select) : bool := wfg_sel true s.
(* the clause part alone: every and/or/IN/tuple/bit-set/select list non-empty, comparisons binary, references named *)
Definition wfc_sel (s : select) : bool := wfg_sel false s.
Definition wfc_expr (e : expr) : bool := wfg_expr false e.
