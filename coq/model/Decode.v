(* Model of the log/metric ingest decoders of writer/utils/unmarshal (property C03).
   Executable definitions only; proofs are in proofs/DecodeProofs.v.

   Layers, as in the Go code:
     body (abstract content of a request, one type per wire protocol)
       --calls_<proto>-->  list call      one element per invocation of the onEntries callback
                                          (unmarshal.go, logsProtobuf.go, metricsProtobuf.go, influxUnmarshal.go,
                                           datadogJsonUnmarshal.go, datadogMetricsJsonUnmarshal.go, otlplogs.go)
       --run/on_entries--> result         the ParserResponse sequence (builder.go onEntries, shared.go flush/reset)
   The wire decoders themselves (jx, protobuf, the telegraf influx parser, the Datadog tag regexp) are not
   modelled: the correspondence harness serialises the abstract body to the real wire format.
   Oracles (Section variables): the fingerprint of a label list, the length of its encoded form, the
   fingerprint cache.  Numbers: timestamps Z (int64), fingerprints / float bit patterns / types N. *)
From Coq Require Import List ZArith NArith Bool Ascii String.
From Coq Require Uint63.
From Qryn Require Import gen.DecodeConsts.
From Qryn Require model.AnyValue.
Import ListNotations.
Open Scope Z_scope.

Definition labels := list (string * string).

(* ---------------------------------------------------------------- byte-string helpers *)

Fixpoint slen_acc (s : string) (acc : Z) : Z :=
  match s with EmptyString => acc | String _ r => slen_acc r (acc + 1) end.
Definition slen (s : string) : Z := slen_acc s 0.

Definition byte (a : ascii) : N := N_of_ascii a.
Definition inr (lo hi n : N) : bool := (N.leb lo n) && (N.leb n hi).

(* literals of generated case files *)
Definition hexval (a : ascii) : N :=
  let n := byte a in
  if inr 48 57 n then (n - 48)%N else if inr 97 102 n then (n - 87)%N else if inr 65 70 n then (n - 55)%N else 0%N.
Fixpoint hx (s : string) : string :=
  match s with
  | String a (String b r) => String (ascii_of_N (hexval a * 16 + hexval b)) (hx r)
  | _ => EmptyString
  end.
Definition rep (c : string) (n : N) : string := N.iter n (fun acc => c ++ acc)%string EmptyString.

(* decimal printing (fmt %d, strconv.FormatInt) *)
Fixpoint dec_digits (fuel : nat) (n : N) (acc : string) : string :=
  match fuel with
  | O => acc
  | S f => let acc' := String (ascii_of_N (48 + n mod 10)) acc in
           if (n / 10 =? 0)%N then acc' else dec_digits f (n / 10)%N acc'
  end.
Definition dec_N (n : N) : string := dec_digits (S (N.size_nat n)) n EmptyString.
Definition dec_Z (z : Z) : string := if z <? 0 then String "-" (dec_N (Z.to_N (- z))) else dec_N (Z.to_N z).

(* int64 wrap-around of Go arithmetic *)
Definition wrap64 (z : Z) : Z := (z + 9223372036854775808) mod 18446744073709551616 - 9223372036854775808.

(* ---------------------------------------------------------------- sanitizeLabels (unmarshal.go)
   sanitizeRe = (^[^a-zA-Z_]|[^a-zA-Z0-9_]) replaced by "_" rune by rune; Go's regexp reads UTF-8 and
   treats every byte that does not start a well-formed sequence as one rune (U+FFFD, width 1). *)
Definition is_alpha_ (n : N) : bool := inr 65 90 n || inr 97 122 n || (n =? 95)%N.
Definition is_digit (n : N) : bool := inr 48 57 n.
Definition cont (n : N) : bool := inr 128 191 n.

Definition nth_byte (s : string) (i : nat) : N := match String.get i s with Some a => byte a | None => 0%N end.

(* width in bytes of the rune whose first byte is b0 and whose following bytes are the start of rest
   (utf8.DecodeRuneInString: first-byte table with accept ranges) *)
Definition rune_width (b0 : N) (rest : string) : nat :=
  let b1 := nth_byte rest 0 in let b2 := nth_byte rest 1 in let b3 := nth_byte rest 2 in
  if (b0 <? 128)%N then 1%nat
  else if inr 194 223 b0 then (if cont b1 then 2 else 1)%nat
  else if (b0 =? 224)%N then (if inr 160 191 b1 && cont b2 then 3 else 1)%nat
  else if inr 225 236 b0 || inr 238 239 b0 then (if cont b1 && cont b2 then 3 else 1)%nat
  else if (b0 =? 237)%N then (if inr 128 159 b1 && cont b2 then 3 else 1)%nat
  else if (b0 =? 240)%N then (if inr 144 191 b1 && cont b2 && cont b3 then 4 else 1)%nat
  else if inr 241 243 b0 then (if cont b1 && cont b2 && cont b3 then 4 else 1)%nat
  else if (b0 =? 244)%N then (if inr 128 143 b1 && cont b2 && cont b3 then 4 else 1)%nat
  else 1%nat.

(* replace every rune outside [a-zA-Z0-9_] (and, when first_rule, a first rune outside [a-zA-Z_]) by "_" *)
Fixpoint sanitize_go (first_rule : bool) (first : bool) (skip : nat) (s : string) : string :=
  match s with
  | EmptyString => EmptyString
  | String a r =>
    match skip with
    | S k => sanitize_go first_rule first k r            (* continuation byte of a replaced rune *)
    | O =>
      let b := byte a in
      let keep := if first && first_rule then is_alpha_ b else is_alpha_ b || is_digit b in
      if keep then String a (sanitize_go first_rule false 0 r)
      else String "_" (sanitize_go first_rule false (pred (rune_width b r)) r)
    end
  end.
Definition sanitize_name (s : string) : string := sanitize_go true true 0 s.

(* strings.ToValidUTF8(s, U+FFFD): every RUN of bytes that are not part of a well-formed sequence becomes one U+FFFD *)
Fixpoint to_valid (inrun : bool) (skip : nat) (s : string) : string :=
  match s with
  | EmptyString => EmptyString
  | String a r =>
    match skip with
    | S k => String a (to_valid false k r)
    | O =>
      let b := byte a in
      if (b <? 128)%N then String a (to_valid false 0 r)
      else match rune_width b r with
           | S (S k) => String a (to_valid false (S k) r)
           | _ => if inrun then to_valid true 0 r
                  else String (ascii_of_N 239) (String (ascii_of_N 191) (String (ascii_of_N 189) (to_valid true 0 r)))
           end
    end
  end.

(* the value is cut at VALUE_MAX bytes and then made valid UTF-8 (fix e3b18d4: the cut may split a character) *)
Definition truncate_value (v : string) : string :=
  to_valid false 0 (if VALUE_MAX <? slen v then (substring 0 (Z.to_nat VALUE_MAX) v ++ VALUE_ELLIPSIS)%string else v).

Definition sanitize_labels (ls : labels) : labels :=
  map (fun kv => (sanitize_name (fst kv), truncate_value (snd kv))) ls.

(* ---------------------------------------------------------------- onEntries (builder.go) *)

(* one invocation of the callback: labels and the five parallel arrays *)
Record call := K { k_labels : labels; k_ts : list Z; k_msg : list string; k_val : list N; k_types : list N }.

(* one ParserResponse: the TimeSamplesData columns, its Size, and the number / Size of TimeSeriesData rows *)
Record chunk := CH { ch_ts : list Z; ch_fp : list N; ch_msg : list string; ch_val : list N; ch_ttl : list N;
                     ch_type : list N; ch_spl_size : Z; ch_nseries : N; ch_ts_size : Z }.
Definition empty_chunk : chunk := CH [] [] [] [] [] [] 0 0%N 0.

Inductive result := Done (cs : list chunk) | Panicked (cs : list chunk).

(* strconv.ParseInt(s, 10, 16) *)
Fixpoint parse_digits (s : string) (acc : Z) : option Z :=
  match s with
  | EmptyString => Some acc
  | String a r => let n := byte a in
                  if is_digit n then parse_digits r (acc * 10 + (Z.of_N n - 48)) else None
  end.
Definition parse_int16 (s : string) : option Z :=
  let '(neg, digits) :=
    match s with
    | String a r => if Ascii.eqb a "+" then (false, r) else if Ascii.eqb a "-" then (true, r) else (false, s)
    | EmptyString => (false, s)
    end in
  match digits with
  | EmptyString => None
  | _ => match parse_digits digits 0 with
         | None => None
         | Some v => let v' := if neg then - v else v in
                     if (-32768 <=? v') && (v' <=? 32767) then Some v' else None
         end
  end.

(* the __ttl_days__ label is removed from the label list; its last parsable value is the row's TTL *)
Fixpoint strip_ttl (ls : labels) (ttl : N) : labels * N :=
  match ls with
  | [] => ([], ttl)
  | (k, v) :: r =>
    if String.eqb k TTL_LABEL
    then strip_ttl r (match parse_int16 v with Some z => Z.to_N (z mod 65536) | None => ttl end)
    else let '(r', t) := strip_ttl r ttl in ((k, v) :: r', t)
  end.
Definition labels_ttl (ctx_ttl : N) (ls : labels) : labels * N :=
  if (ctx_ttl =? 0)%N then strip_ttl ls 0%N else (ls, ctx_ttl).

(* shared.go fastFillArray: res := make([]T, len); res[0] = val; for l := 1; l < len; l <<= 1 { copy(res[l:], res[:l]) }
   (with the guard for len = 0 added by the fix of defect 28) *)
Definition copy_prefix {A} (res : list A) (l : nat) : list A :=
  firstn l res ++ firstn (List.length res - l) (firstn l res) ++ skipn (l + l) res.
Fixpoint fill_loop {A} (fuel : nat) (res : list A) (l : nat) : list A :=
  match fuel with
  | O => res
  | S f => if Nat.ltb l (List.length res) then fill_loop f (copy_prefix res l) (l + l) else res
  end.
Definition fast_fill {A} (zero : A) (n : nat) (v : A) : list A :=
  match n with
  | O => []
  | S m => fill_loop n (v :: repeat zero m) 1
  end.

(* time.Unix(tsns/1000000000, 0).Truncate(24h): Go's / truncates toward zero, Truncate floors *)
Definition day_of (ts : Z) : Z := (Z.quot ts 1000000000) / 86400.
Fixpoint dedup (l : list Z) (seen : list Z) : list Z :=
  match l with
  | [] => []
  | x :: r => if existsb (Z.eqb x) seen then dedup r seen else x :: dedup r (x :: seen)
  end.
(* var tps [3]bool; for _, t := range types { tps[t] = true }: the types present, in index order *)
Definition present_types (types : list N) : list N := filter (fun t => existsb (N.eqb t) types) [0; 1; 2]%N.

(* var tps [3]bool; tps[t] = true   and   message[i] for i over the timestamps *)
Definition call_panics (k : call) : bool :=
  existsb (fun t => (2 <? t)%N) (k_types k) || Nat.ltb (List.length (k_msg k)) (List.length (k_ts k)).

Fixpoint sum_sizes (msgs : list string) (acc : Z) : Z :=
  match msgs with [] => acc | m :: r => sum_sizes r (acc + slen m + ENTRY_OVERHEAD) end.

Section ONENTRIES.
  Variable fp : labels -> N.                         (* fingerprintLabels *)
  Variable enc_len : labels -> Z.                    (* len(encodeLabels(labels)) *)
  Variable CS : Type.                                (* state of the fingerprint cache *)
  Variable cache_add : CS -> Z -> N -> N -> CS * bool.  (* maybeAddFp(day, fp, type): new state, "emit a time_series row" *)
  Variable threshold : Z.                            (* 1 MiB *)
  Variable ctx_ttl : N.                              (* X-Ttl-Days of the request, 0 = none *)

  (* for d := range dates { for t := range tps { if !tps[t] || !maybeAddFp(d, fp, t, cache) { continue }; append one row } } *)
  Definition add_series (lbls : labels) (f : N) (types : list N) (days : list Z) (c : chunk) (cs : CS) : chunk * CS :=
    fold_left (fun acc dt =>
                 let '(c, cs) := acc in
                 let '(cs', add) := cache_add cs (fst dt) f (snd dt) in
                 if add then
                   (CH (ch_ts c) (ch_fp c) (ch_msg c) (ch_val c) (ch_ttl c) (ch_type c) (ch_spl_size c)
                       (ch_nseries c + 1)%N (ch_ts_size c + (SERIES_OVERHEAD + enc_len lbls)), cs')
                 else (c, cs'))
              (flat_map (fun d => map (fun t => (d, t)) types) days) (c, cs).

  (* None = the goroutine panics (recovered by tamePanic: the request fails, the open chunk is lost) *)
  Definition on_entries (st : chunk * CS) (k : call) : option ((chunk * CS) * list chunk) :=
    let '(c, cs) := st in
    let '(lbls, ttl) := labels_ttl ctx_ttl (k_labels k) in
    let f := fp lbls in
    let n := List.length (k_ts k) in
    if call_panics k then None else
    let c1 := CH (ch_ts c ++ k_ts k) (ch_fp c ++ fast_fill 0%N n f) (ch_msg c ++ k_msg k) (ch_val c ++ k_val k)
                 (ch_ttl c ++ fast_fill 0%N n ttl) (ch_type c ++ k_types k)
                 (sum_sizes (firstn n (k_msg k)) (ch_spl_size c)) (ch_nseries c) (ch_ts_size c) in
    let '(c2, cs2) := add_series lbls f (present_types (k_types k)) (dedup (map day_of (k_ts k)) []) c1 cs in
    if threshold <? ch_spl_size c2 + ch_ts_size c2 then Some ((empty_chunk, cs2), [c2])
    else Some ((c2, cs2), []).

  Fixpoint run (st : chunk * CS) (ks : list call) : result :=
    match ks with
    | [] => Done [fst st]                            (* p.tsSpl.flush() after Decode returned *)
    | k :: r =>
      match on_entries st k with
      | None => Panicked []
      | Some (st', out) =>
        match run st' r with Done cs => Done (out ++ cs) | Panicked cs => Panicked (out ++ cs) end
      end
    end.

  (* the same loop, keeping apart what has already been sent on the channel: (responses sent so far,
     Some open state | None after a panic) *)
  Fixpoint steps (st : chunk * CS) (ks : list call) : list chunk * option (chunk * CS) :=
    match ks with
    | [] => ([], Some st)
    | k :: r =>
      match on_entries st k with
      | None => ([], None)
      | Some (st', out) => let '(o, s) := steps st' r in (out ++ o, s)
      end
    end.
End ONENTRIES.
Definition result_chunks (r : result) : list chunk := match r with Done cs => cs | Panicked cs => cs end.

(* ---------------------------------------------------------------- Loki push: unmarshal.go (JSON), logsProtobuf.go *)
Record lentry := LE { le_ts : Z; le_line : option string; le_val : option N }.
Record lstream := LS { ls_labels : labels; ls_entries : list lentry }.

Definition opt_str (o : option string) : string := match o with Some s => s | None => EmptyString end.
Definition opt_N (o : option N) : N := match o with Some n => n | None => 0%N end.
(* tp |= LOG when a line is present, tp |= METRIC when a number is present, 3 -> 0 *)
Definition le_type (e : lentry) : N :=
  let tp := N.lor (match le_line e with Some _ => TYPE_LOG | None => 0%N end)
                  (match le_val e with Some _ => TYPE_METRIC | None => 0%N end) in
  if (tp =? 3)%N then 0%N else tp.

(* unmarshal.go decodeStream: the members of a stream object are handled in the order they arrive; "stream" and
   "labels" append to the label buffer and re-sanitise it, "values" and "entries" append to the entry buffers,
   any other key is skipped *)
Inductive lmember := MLbl (l : labels) | MEnt (es : list lentry) | MOther.
Definition member_step (st : labels * list lentry) (m : lmember) : labels * list lentry :=
  match m with
  | MLbl l => (sanitize_labels (fst st ++ l), snd st)
  | MEnt es => (fst st, snd st ++ es)
  | MOther => st
  end.
Definition decode_stream (ms : list lmember) : labels * list lentry := fold_left member_step ms ([], []).
Definition members_of (s : lstream) : list lmember := [MLbl (ls_labels s); MEnt (ls_entries s)].

Definition loki_call (lbls : labels) (es : list lentry) : call :=
  K lbls (map le_ts es) (map (fun e => opt_str (le_line e)) es) (map (fun e => opt_N (le_val e)) es) (map le_type es).
Definition calls_loki_json (body : list (list lmember)) : list call :=
  map (fun ms => loki_call (fst (decode_stream ms)) (snd (decode_stream ms))) body.

Definition calls_loki_pb (body : list lstream) : list call :=
  map (fun s => let es := ls_entries s in let n := List.length es in
                K (sanitize_labels (ls_labels s)) (map le_ts es) (map (fun e => opt_str (le_line e)) es)
                  (repeat 0%N n) (fast_fill 0%N n TYPE_LOG)) body.

(* ---------------------------------------------------------------- Prometheus remote write: metricsProtobuf.go *)
Record pseries := PS { ps_labels : labels; ps_samples : list (Z * N) }.    (* (timestamp ms, value bits) *)

Section PROMRW.
  Variable flush_limit : N.                          (* const flushLimit = 1000 *)
  Definition prw_call (lbls : labels) (tsns : list Z) (vals : list N) : call :=
    let n := List.length tsns in
    K lbls tsns (repeat EmptyString n) vals (fast_fill 0%N n TYPE_METRIC).
  (* the loop over ts.GetSamples(); points runs across series *)
  Fixpoint prw_series (lbls : labels) (samples : list (Z * N)) (tsns : list Z) (vals : list N) (points : N)
    : list call * N :=
    match samples with
    | [] => (match tsns with [] => [] | _ => [prw_call lbls tsns vals] end, points)
    | (t, v) :: r =>
      let tsns' := tsns ++ [wrap64 (t * 1000000)] in
      let vals' := vals ++ [v] in
      let points' := (points + 1)%N in
      if (flush_limit <=? points')%N then
        let '(cs, p) := prw_series lbls r [] [] 0%N in (prw_call lbls tsns' vals' :: cs, p)
      else prw_series lbls r tsns' vals' points'
    end.
  Fixpoint prw_body (body : list pseries) (points : N) : list call :=
    match body with
    | [] => []
    | s :: r => let '(cs, p) := prw_series (sanitize_labels (ps_labels s)) (ps_samples s) [] [] points in
                cs ++ prw_body r p
    end.
  Definition calls_prw (body : list pseries) : list call := prw_body body 0%N.
End PROMRW.

(* ---------------------------------------------------------------- the clock *)
(* time.Now(): the decoder reads the clock once per entry; ck_nows are the readings (UnixNano) in the order they are taken,
   ck_lo / ck_hi the clock just before the parser was started and just after its channel was closed. An entry without a
   timestamp of its own (0) is stamped with the reading taken for it. *)
Record clock := CK { ck_lo : Z; ck_hi : Z; ck_nows : list Z }.
Fixpoint clocked {A} (nows : list Z) (l : list A) : list (Z * A) :=
  match l with
  | [] => []
  | x :: r => (hd 0 nows, x) :: clocked (tl nows) r
  end.
Definition clock_okb (ck : clock) : bool := forallb (fun t => (ck_lo ck <=? t) && (t <=? ck_hi ck)) (ck_nows ck).

(* ---------------------------------------------------------------- Influx line protocol: influxUnmarshal.go *)
Inductive fval := FNum (bits : N)      (* int64 or float64 field, as the bits of float64(v) *)
                | FUint (bits : N)     (* unsigned field *)
                | FStr (s : string) | FBool
                (* on "message" lines, where a field is rendered as text and not stored as a number: *)
                | FIntT (z : Z) | FUintT (n : N) | FBoolT (b : bool).
(* il_ts: the timestamp of the line in units of the precision; None: the line has none and the telegraf parser stamps it with
   timeFunc().Truncate(precision), timeFunc = time.Now *)
Record iline := IL { il_meas : string; il_tags : labels; il_fields : list (string * fval); il_ts : option Z }.

Definition is_message (f : string * fval) : bool := String.eqb (fst f) "message".

(* ---- getMessage: github.com/go-logfmt/logfmt EncodeKeyvals, as far as field values reach it
   keyRuneFilter: runes <= ' ', '=', the quote and utf8.RuneError (a byte that is not UTF-8, or U+FFFD itself) are dropped *)
Definition lf_special (b : N) : bool := (b <=? 32)%N || (b =? 61)%N || (b =? 34)%N.
Definition is_fffd (b0 : N) (rest : string) : bool := (b0 =? 239)%N && (nth_byte rest 0 =? 191)%N && (nth_byte rest 1 =? 189)%N.
(* skip > 0: continuation bytes of a rune already decided (kept or dropped) *)
Fixpoint lf_key (skip : nat) (keep : bool) (s : string) : string :=
  match s with
  | EmptyString => EmptyString
  | String a r =>
    match skip with
    | S k => if keep then String a (lf_key k keep r) else lf_key k keep r
    | O =>
      let b := byte a in
      if (b <? 128)%N then (if lf_special b then lf_key 0 true r else String a (lf_key 0 true r))
      else match rune_width b r with
           | S (S k) => if is_fffd b r then lf_key (S k) false r else String a (lf_key (S k) true r)
           | _ => lf_key 0 true r
           end
    end
  end.
(* strings.IndexFunc(value, needsQuotedValueRune) != -1 *)
Fixpoint lf_needs_quote (skip : nat) (s : string) : bool :=
  match s with
  | EmptyString => false
  | String a r =>
    match skip with
    | S k => lf_needs_quote k r
    | O =>
      let b := byte a in
      if (b <? 128)%N then lf_special b || lf_needs_quote 0 r
      else match rune_width b r with
           | S (S k) => is_fffd b r || lf_needs_quote (S k) r
           | _ => true
           end
    end
  end.
Definition lf_hex (d : N) : ascii := ascii_of_N (if (d <? 10)%N then 48 + d else 87 + d).
(* writeQuotedString: JSON-like, without the HTML escapes *)
Fixpoint lf_quoted_body (skip : nat) (keep : bool) (s : string) : string :=
  match s with
  | EmptyString => EmptyString
  | String a r =>
    match skip with
    | S k => if keep then String a (lf_quoted_body k keep r) else lf_quoted_body k keep r
    | O =>
      let b := byte a in
      let bs := ascii_of_N 92 in
      if (b <? 128)%N then
        if (32 <=? b)%N && negb (b =? 92)%N && negb (b =? 34)%N then String a (lf_quoted_body 0 true r)
        else if (b =? 92)%N || (b =? 34)%N then String bs (String a (lf_quoted_body 0 true r))
        else if (b =? 10)%N then String bs (String "n" (lf_quoted_body 0 true r))
        else if (b =? 13)%N then String bs (String "r" (lf_quoted_body 0 true r))
        else if (b =? 9)%N then String bs (String "t" (lf_quoted_body 0 true r))
        else String bs (String "u" (String "0" (String "0" (String (lf_hex (b / 16)) (String (lf_hex (b mod 16)) (lf_quoted_body 0 true r))))))
      else match rune_width b r with
           | S (S k) => if is_fffd b r then String bs (String "u" (String "f" (String "f" (String "f" (String "d" (lf_quoted_body (S k) false r))))))
                        else String a (lf_quoted_body (S k) true r)
           | _ => String bs (String "u" (String "f" (String "f" (String "f" (String "d" (lf_quoted_body 0 true r))))))
           end
    end
  end.
Definition lf_string (v : string) : string :=
  if String.eqb v "null" then String (ascii_of_N 34) ("null" ++ String (ascii_of_N 34) EmptyString)
  else if lf_needs_quote 0 v then String (ascii_of_N 34) (lf_quoted_body 0 true v ++ String (ascii_of_N 34) EmptyString)
  else v.
(* writeValue: string as above; int64 / uint64 / bool through fmt.Sprint (never quoted); None: a float (fmt.Sprint of a
   float64 is not modelled) *)
Definition lf_value (v : fval) : option string :=
  match v with
  | FStr s => Some (lf_string s)
  | FIntT z => Some (dec_Z z)
  | FUintT n => Some (dec_N n)
  | FBoolT true => Some "true"%string
  | FBoolT false => Some "false"%string
  | _ => None
  end.
Definition lf_pair (f : string * fval) : string := (lf_key 0 true (fst f) ++ String "=" (match lf_value (snd f) with Some t => t | None => EmptyString end))%string.
(* "message" first, then the other fields in the order Go's map iteration visits them (here: the order of the list) *)
Fixpoint lf_rest (fs : list (string * fval)) : string :=
  match fs with
  | [] => EmptyString
  | f :: r => if is_message f then lf_rest r else (String " " (lf_pair f) ++ lf_rest r)%string
  end.
Definition get_message (fs : list (string * fval)) (m : fval) : string :=
  match fs, m with
  | [_], FStr s => s                                                  (* if msg, ok := fields["message"].(string); ok { return msg } *)
  | _, _ => (lf_pair ("message"%string, m) ++ lf_rest fs)%string
  end.

(* lines the model covers: no "message" field; or "message" is a string and the only field; or a "message" line (a single
   non-string message included, since the fix of defect influx-single-non-string-message) all of whose
   fields are strings / integers / booleans (carried with their text) with keys that keep at least one rune *)
Definition lf_field_ok (f : string * fval) : bool :=
  match lf_value (snd f) with Some _ => negb (String.eqb (lf_key 0 true (fst f)) EmptyString) | None => false end.
Definition iline_modelled (l : iline) : bool :=
  match find is_message (il_fields l) with
  | None => forallb (fun f => match snd f with FIntT _ | FUintT _ | FBoolT _ => false | _ => true end) (il_fields l)
  | Some (_, m) =>
    match il_fields l, m with
    | [_], FStr _ => true
    | fs, _ => forallb lf_field_ok fs && Nat.eqb (List.length (filter is_message fs)) 1
    end
  end.

(* SetTimestamp: ns := v * int64(h.timePrecision); Metric(): h.timeFunc().Truncate(h.timePrecision) when the line had none *)
Definition influx_ts (precision now : Z) (l : iline) : Z :=
  match il_ts l with Some t => wrap64 (t * precision) | None => (now / precision) * precision end.
Definition influx_line_calls (precision now : Z) (l : iline) : list call :=
  let lbls := sanitize_labels (("measurement"%string, il_meas l) :: il_tags l) in
  let ts := influx_ts precision now l in
  match find is_message (il_fields l) with
  | Some (_, v) => [K lbls [ts] [get_message (il_fields l) v] [0%N] [TYPE_LOG]]
  | None =>
    flat_map (fun f => match snd f with
                       | FNum b | FUint b => [K (lbls ++ [("__name__"%string, sanitize_name (fst f))]) [ts] [EmptyString] [b] [TYPE_METRIC]]
                       | _ => []                     (* switch v.(type) { case int64, uint64, float64 ...; default: continue } *)
                       end) (il_fields l)
  end.
(* one clock reading per line (used by the lines without a timestamp) *)
Definition calls_influx (precision : Z) (ck : clock) (body : list iline) : list call :=
  flat_map (fun p => influx_line_calls precision (fst p) (snd p)) (clocked (ck_nows ck) body).

(* ---------------------------------------------------------------- Datadog logs: datadogJsonUnmarshal.go *)
Record ddlog := DL { dl_tags : labels; dl_source : option string; dl_service : option string; dl_host : option string;
                     dl_stype : option string; dl_msg : string; dl_ts : Z }.        (* timestamp in ms, non-zero *)

Definition nonempty_label (kv : string * string) : bool := negb (String.eqb (snd kv) EmptyString).
Definition ddlog_labels (e : ddlog) : labels :=
  dl_tags e ++ filter nonempty_label
    [("ddsource", opt_str (dl_source e)); ("service", opt_str (dl_service e)); ("hostname", opt_str (dl_host e));
     ("source_type", opt_str (dl_stype e)); ("type", "datadog")]%string.
(*  t := time.Now(); if d.TsMs != 0 { t = time.Unix(d.TsMs/1000, d.TsMs%1000*1000000) }; t.UnixNano() *)
Definition ddlog_ts (now : Z) (e : ddlog) : Z := if dl_ts e =? 0 then now else wrap64 (dl_ts e * 1000000).
Definition calls_ddlog (ck : clock) (body : list ddlog) : list call :=
  map (fun p => K (ddlog_labels (snd p)) [ddlog_ts (fst p) (snd p)] [dl_msg (snd p)] [0%N] [TYPE_LOG]) (clocked (ck_nows ck) body).

(* ---------------------------------------------------------------- Datadog logs sent by Cloudflare: datadogCFJsonUnmarshal.go
   one JSON object per line; the row's text is the line itself; labels: the non-empty ones of eight fixed fields;
   cf_ts: d.TsNs after the line was read (EventTimestampMs * 1000000 or When; 0 = none: the clock) *)
Record cfline := CF { cf_text : string; cf_script : string; cf_outcome : string; cf_event : string; cf_ts : Z;
                      cf_actres : option bool; cf_acttype : string; cf_actor : string; cf_restype : string }.
Definition cf_labels (ddsource : string) (l : cfline) : labels :=
  filter nonempty_label
    [("ddsource", ddsource); ("ScriptName", cf_script l); ("Outcome", cf_outcome l); ("EventType", cf_event l);
     ("ActionResult", match cf_actres l with Some true => "true" | Some false => "false" | None => "" end);
     ("ActionType", cf_acttype l); ("ActorType", cf_actor l); ("ResourceType", cf_restype l)]%string.
(* t := time.Now(); if d.TsNs != 0 { t = time.Unix(d.TsNs/1000000000, d.TsNs%1000000000) }; t.UnixNano() *)
Definition cf_time (now : Z) (l : cfline) : Z := if cf_ts l =? 0 then now else cf_ts l.
Definition calls_cf (ddsource : string) (ck : clock) (body : list cfline) : list call :=
  map (fun p => K (cf_labels ddsource (snd p)) [cf_time (fst p) (snd p)] [cf_text (snd p)] [0%N] [TYPE_LOG]) (clocked (ck_nows ck) body).

(* ---------------------------------------------------------------- Elasticsearch bulk: elasticUnmarshal.go elasticBulkDec
   one JSON object per line. A line whose first key among delete / update / index / create is delete or update empties
   e.labels (EsClear); index or create rebuilds them from the action object (EsSet: ("type","elastic"), ("_index",
   target) when the route has one, then the string members of the action object except type and, with a target, _index);
   an empty line does nothing (EsBlank); any other line (EsDoc) is handed on with the labels in force and the clock as
   timestamp unless there are none. *)
Inductive eskind := EsClear | EsSet (l : labels) | EsDoc | EsBlank.
Record esline := EL { el_text : string; el_kind : eskind }.
Fixpoint es_lines (lbls : labels) (nows : list Z) (body : list esline) : list call :=
  match body with
  | [] => []
  | l :: r =>
    match el_kind l with
    | EsClear => es_lines [] nows r
    | EsSet l' => es_lines l' nows r
    | EsBlank => es_lines lbls nows r
    | EsDoc => match lbls with
               | [] => es_lines lbls nows r
               | _ => K lbls [hd 0 nows] [el_text l] [0%N] [TYPE_LOG] :: es_lines lbls (tl nows) r
               end
    end
  end.
Definition calls_es (ck : clock) (body : list esline) : list call := es_lines [] (ck_nows ck) body.

(* ---------------------------------------------------------------- Datadog metrics: datadogMetricsJsonUnmarshal.go *)
(* dm_points: (timestamp in s, bits); dm_stamped: the values of the LEADING points of the points array that carry no timestamp:
   tsNs := time.Now().UnixNano() is read once when the array begins and stays until a point brings its own *)
Record ddseries := DS { dm_metric : option string; dm_resources : list labels; dm_points : list (Z * N); dm_stamped : list N }.

Fixpoint resource_labels (i : N) (rs : list labels) : labels :=
  match rs with
  | [] => []
  | r :: rest => map (fun kv => (("resource" ++ dec_N (i + 1) ++ "_" ++ fst kv)%string, snd kv)) r
                 ++ resource_labels (i + 1)%N rest
  end.
Definition ddseries_labels (s : ddseries) : labels :=
  (match dm_metric s with Some m => [("__name__"%string, m)] | None => [] end) ++ resource_labels 0%N (dm_resources s).
(* (nanoseconds, bits) of every point of the series; the clock readings are aligned with the ROWS (one per point, used by the
   stamped ones only): the points of one array share one reading in the code, here each stamped point has its own *)
Definition dm_all (nows : list Z) (s : ddseries) : list (Z * N) :=
  clocked nows (dm_stamped s) ++ map (fun p => (wrap64 (fst p * 1000000000), snd p)) (dm_points s).
Fixpoint ddmet_rows (nows : list Z) (body : list ddseries) : list (ddseries * list (Z * N)) :=
  match body with
  | [] => []
  | s :: r => (s, dm_all nows s) :: ddmet_rows (skipn (List.length (dm_stamped s) + List.length (dm_points s)) nows) r
  end.
Definition calls_ddmet (ck : clock) (body : list ddseries) : list call :=
  map (fun p => K (ddseries_labels (fst p)) (map fst (snd p)) (repeat EmptyString (List.length (snd p))) (map snd (snd p))
                  (fast_fill 0%N (List.length (snd p)) TYPE_METRIC)) (ddmet_rows (ck_nows ck) body).

(* ---------------------------------------------------------------- OTLP logs: otlplogs.go *)
(* attribute values and the body of a record are any-value trees: model/AnyValue.v (shared with property C04, which owns
   the label side): string / bool / int / double / bytes / array / key-value list / no value *)
Definition oval := AnyValue.oval.
Notation OStr := AnyValue.OStr.
Notation OBool := AnyValue.OBool.
Notation OInt := AnyValue.OInt.
Notation ODouble := AnyValue.ODouble.
Notation OBytes := AnyValue.OBytes.
Notation OArr := AnyValue.OArr.
Notation OKv := AnyValue.OKv.
Notation ONone := AnyValue.ONone.
Definition attrs := list (string * oval).
(* or_body: logRecord.Body (ONone: no body) *)
Record orecord := OR { or_attrs : attrs; or_sev : string; or_body : oval; or_ts : N }.
Record oscope := OS { os_has : bool; os_attrs : attrs; os_records : list orecord }.
Record oreslog := ORL { orl_has : bool; orl_attrs : attrs; orl_scopes : list oscope }.

(* SanitizeKey: [^a-zA-Z0-9_] -> "_", then "_" prefixed when empty or starting with a digit *)
Definition sanitize_key (k : string) : string :=
  let s := sanitize_go false false 0 k in
  match s with
  | EmptyString => "_"%string
  | String a _ => if is_digit (byte a) then String "_" s else s
  end.
(* SanitizeValue over the whole any-value tree: string as it is, bool, int, double (strconv.FormatFloat 'f' -1), bytes
   (base64), array and key-value list (json.Marshal of the rendered items / of the map of sanitised keys), no value -> "" *)
Definition render_oval (v : oval) : string := AnyValue.otlp_value v.

(* Go map assignment m[k] = v on an association list *)
Fixpoint map_set (m : labels) (k v : string) : labels :=
  match m with
  | [] => [(k, v)]
  | (k', v') :: r => if String.eqb k k' then (k, v) :: r else (k', v') :: map_set r k v
  end.
Definition add_attrs (m : labels) (a : attrs) : labels :=
  fold_left (fun m kv => map_set m (sanitize_key (fst kv)) (render_oval (snd kv))) a m.
Definition merge_map (m extra : labels) : labels := fold_left (fun m kv => map_set m (fst kv) (snd kv)) extra m.

Definition orecord_labels (res_map scope_map : labels) (r : orecord) : labels :=
  let m := add_attrs (merge_map (merge_map [] res_map) scope_map) (or_attrs r) in
  if String.eqb (or_sev r) EmptyString then m else map_set m "level" (or_sev r).
Definition calls_otlp (body : list oreslog) : list call :=
  flat_map (fun rl =>
    let res_map := add_attrs [] (if orl_has rl then orl_attrs rl else []) in
    flat_map (fun sl =>
      let scope_map := add_attrs [] (if os_has sl then os_attrs sl else []) in
      map (fun r => K (orecord_labels res_map scope_map r) [wrap64 (Z.of_N (or_ts r))] [render_oval (or_body r)] [0%N] [TYPE_LOG])
          (os_records sl)) (orl_scopes rl)) body.

(* ---------------------------------------------------------------- the seven parsers *)
Inductive body :=
| BLoki (l : list (list lmember)) | BLokiPb (l : list lstream) | BPrw (l : list pseries)
| BInflux (precision : Z) (ck : clock) (l : list iline) | BDDLog (ck : clock) (l : list ddlog) | BDDMet (ck : clock) (l : list ddseries)
| BOtlp (l : list oreslog)
| BCf (ddsource : string) (ck : clock) (l : list cfline) | BEs (ck : clock) (l : list esline).

Definition calls_of (flush_limit : N) (b : body) : list call :=
  match b with
  | BLoki l => calls_loki_json l | BLokiPb l => calls_loki_pb l | BPrw l => calls_prw flush_limit l
  | BInflux p ck l => calls_influx p ck l | BDDLog ck l => calls_ddlog ck l | BDDMet ck l => calls_ddmet ck l | BOtlp l => calls_otlp l
  | BCf src ck l => calls_cf src ck l | BEs ck l => calls_es ck l
  end.

Section DECODE.
  Variable fp : labels -> N.
  Variable enc_len : labels -> Z.
  Variable CS : Type.
  Variable cache_add : CS -> Z -> N -> N -> CS * bool.
  Variable cache0 : CS.
  Variable threshold : Z.
  Variable flush_limit : N.
  Variable ctx_ttl : N.
  Definition decode (b : body) : result :=
    run fp enc_len CS cache_add threshold ctx_ttl (empty_chunk, cache0) (calls_of flush_limit b).
End DECODE.

(* A long-lived process decodes one body after another. The only thing a request hands over to the next is the
   state of the series-announcement cache (after a panic the cache keeps what it was told before the panic; the
   model keeps the state at the start of the request, the theorems hold for every state). *)
Section HISTORY.
  Variable fp : labels -> N.
  Variable enc_len : labels -> Z.
  Variable CS : Type.
  Variable cache_add : CS -> Z -> N -> N -> CS * bool.
  Variable threshold : Z.
  Variable flush_limit : N.
  Definition decode_st (cache0 : CS) (ctx_ttl : N) (b : body) : result * CS :=
    match steps fp enc_len CS cache_add threshold ctx_ttl (empty_chunk, cache0) (calls_of flush_limit b) with
    | (o, Some st) => (Done (o ++ [fst st]), snd st)
    | (o, None) => (Panicked o, cache0)
    end.
  (* requests = (X-Ttl-Days, body) *)
  Fixpoint decode_history (cache0 : CS) (reqs : list (N * body)) : list result :=
    match reqs with
    | [] => []
    | (ttl, b) :: r => let '(res, c1) := decode_st cache0 ttl b in res :: decode_history c1 r
    end.
End HISTORY.

(* ---------------------------------------------------------------- specification: one row per submitted entry *)
Record row := R { r_fp : N; r_ts : Z; r_msg : string; r_val : N; r_ttl : N; r_type : N }.

(* an entry as submitted: the label list of its own stream (before the __ttl_days__ label is taken out),
   nanosecond timestamp, line, value bits, sample type *)
Record entry := E { e_labels : labels; e_ts : Z; e_msg : string; e_val : N; e_type : N }.

Definition row_of (fp : labels -> N) (ctx_ttl : N) (e : entry) : row :=
  let '(lbls, ttl) := labels_ttl ctx_ttl (e_labels e) in R (fp lbls) (e_ts e) (e_msg e) (e_val e) ttl (e_type e).
Definition rows_spec (fp : labels -> N) (ctx_ttl : N) (es : list entry) : list row := map (row_of fp ctx_ttl) es.

Definition loki_entries (lbls : labels) (es : list lentry) : list entry :=
  map (fun e => E lbls (le_ts e) (opt_str (le_line e)) (opt_N (le_val e)) (le_type e)) es.
(* a well-formed stream object: one label member (either syntax) and one entry member (either syntax), any
   number of other keys, in any order *)
Definition members_labels (ms : list lmember) : list labels := flat_map (fun m => match m with MLbl l => [l] | _ => [] end) ms.
Definition members_entries (ms : list lmember) : list (list lentry) := flat_map (fun m => match m with MEnt e => [e] | _ => [] end) ms.
Definition wf_members (ms : list lmember) (s : lstream) : Prop :=
  members_labels ms = [ls_labels s] /\ members_entries ms = [ls_entries s].
Definition entries_loki_streams (body : list lstream) : list entry :=
  flat_map (fun s => loki_entries (sanitize_labels (ls_labels s)) (ls_entries s)) body.
(* in general (repeated members) the stream is what the member sequence accumulates *)
Definition entries_loki_json (body : list (list lmember)) : list entry :=
  flat_map (fun ms => loki_entries (fst (decode_stream ms)) (snd (decode_stream ms))) body.
Definition entries_loki_pb (body : list lstream) : list entry :=
  flat_map (fun s => map (fun e => E (sanitize_labels (ls_labels s)) (le_ts e) (opt_str (le_line e)) 0%N TYPE_LOG)
                         (ls_entries s)) body.
Definition entries_prw (body : list pseries) : list entry :=
  flat_map (fun s => map (fun p => E (sanitize_labels (ps_labels s)) (wrap64 (fst p * 1000000)) EmptyString (snd p) TYPE_METRIC)
                         (ps_samples s)) body.
(* every numeric field (signed, unsigned, float) is an entry of the series measurement+tags+__name__;
   a "message" line is one log entry *)
Definition influx_line_entries (precision now : Z) (l : iline) : list entry :=
  let lbls := sanitize_labels (("measurement"%string, il_meas l) :: il_tags l) in
  let ts := influx_ts precision now l in
  match find is_message (il_fields l) with
  | Some (_, v) => [E lbls ts (get_message (il_fields l) v) 0%N TYPE_LOG]
  | None => flat_map (fun f => match snd f with
                               | FNum b | FUint b => [E (lbls ++ [("__name__"%string, sanitize_name (fst f))]) ts EmptyString b TYPE_METRIC]
                               | _ => []
                               end) (il_fields l)
  end.
Definition entries_influx (precision : Z) (ck : clock) (body : list iline) : list entry :=
  flat_map (fun p => influx_line_entries precision (fst p) (snd p)) (clocked (ck_nows ck) body).
(* an entry with a timestamp of its own keeps it; one without is stamped with the clock reading taken for it *)
Definition entries_ddlog (ck : clock) (body : list ddlog) : list entry :=
  map (fun p => E (ddlog_labels (snd p)) (ddlog_ts (fst p) (snd p)) (dl_msg (snd p)) 0%N TYPE_LOG) (clocked (ck_nows ck) body).
Definition entries_cf (ddsource : string) (ck : clock) (body : list cfline) : list entry :=
  map (fun p => E (cf_labels ddsource (snd p)) (cf_time (fst p) (snd p)) (cf_text (snd p)) 0%N TYPE_LOG) (clocked (ck_nows ck) body).
(* Elasticsearch bulk, stated by position: the labels in force at a line are those of the LAST action line before it
   (none at the start, none behind a delete / update); the entries are the document lines with labels in force, each
   with the whole line as its text *)
Definition es_action (l : esline) : bool := match el_kind l with EsClear | EsSet _ => true | _ => false end.
Fixpoint last_action (before : list esline) (acc : labels) : labels :=
  match before with
  | [] => acc
  | l :: r => last_action r (match el_kind l with EsClear => [] | EsSet l' => l' | _ => acc end)
  end.
Definition es_is_entry (before : list esline) (l : esline) : bool :=
  match el_kind l with EsDoc => negb (match last_action before [] with [] => true | _ => false end) | _ => false end.
Fixpoint es_entry_lines (before : list esline) (body : list esline) : list (labels * string) :=
  match body with
  | [] => []
  | l :: r => (if es_is_entry before l then [(last_action before [], el_text l)] else []) ++ es_entry_lines (before ++ [l]) r
  end.
Definition entries_es (ck : clock) (body : list esline) : list entry :=
  map (fun p => E (fst (snd p)) (fst p) (snd (snd p)) 0%N TYPE_LOG) (clocked (ck_nows ck) (es_entry_lines [] body)).
Definition entries_ddmet (ck : clock) (body : list ddseries) : list entry :=
  flat_map (fun p => map (fun q => E (ddseries_labels (fst p)) (fst q) EmptyString (snd q) TYPE_METRIC) (snd p)) (ddmet_rows (ck_nows ck) body).
Definition entries_otlp (body : list oreslog) : list entry :=
  flat_map (fun rl => flat_map (fun sl =>
    map (fun r => E (orecord_labels (add_attrs [] (if orl_has rl then orl_attrs rl else []))
                                    (add_attrs [] (if os_has sl then os_attrs sl else [])) r)
                    (wrap64 (Z.of_N (or_ts r))) (render_oval (or_body r)) 0%N TYPE_LOG) (os_records sl)) (orl_scopes rl)) body.

Definition entries_of (b : body) : list entry :=
  match b with
  | BLoki l => entries_loki_json l | BLokiPb l => entries_loki_pb l | BPrw l => entries_prw l
  | BInflux p ck l => entries_influx p ck l | BDDLog ck l => entries_ddlog ck l | BDDMet ck l => entries_ddmet ck l | BOtlp l => entries_otlp l
  | BCf src ck l => entries_cf src ck l | BEs ck l => entries_es ck l
  end.

(* rows of a chunk: the six columns zipped; a chunk is rectangular when the columns have one length *)
Fixpoint zip6 (a : list N) (b : list Z) (c : list string) (d e f : list N) : list row :=
  match a, b, c, d, e, f with
  | x1 :: a', x2 :: b', x3 :: c', x4 :: d', x5 :: e', x6 :: f' => R x1 x2 x3 x4 x5 x6 :: zip6 a' b' c' d' e' f'
  | _, _, _, _, _, _ => []
  end.
Definition chunk_rows (c : chunk) : list row := zip6 (ch_fp c) (ch_ts c) (ch_msg c) (ch_val c) (ch_ttl c) (ch_type c).
Definition chunk_rect (c : chunk) : Prop :=
  let n := List.length (ch_ts c) in
  List.length (ch_fp c) = n /\ List.length (ch_msg c) = n /\ List.length (ch_val c) = n /\
  List.length (ch_ttl c) = n /\ List.length (ch_type c) = n.
Definition chunk_rectb (c : chunk) : bool :=
  let n := List.length (ch_ts c) in
  Nat.eqb (List.length (ch_fp c)) n && Nat.eqb (List.length (ch_msg c)) n && Nat.eqb (List.length (ch_val c)) n &&
  Nat.eqb (List.length (ch_ttl c)) n && Nat.eqb (List.length (ch_type c)) n.
Definition rows_of (cs : list chunk) : list row := List.concat (map chunk_rows cs).

(* well-formed call: parallel arrays of one length, types within the [3]bool array *)
Definition call_wf (k : call) : Prop :=
  let n := List.length (k_ts k) in
  List.length (k_msg k) = n /\ List.length (k_val k) = n /\ List.length (k_types k) = n /\
  Forall (fun t => (t <= 2)%N) (k_types k).
Definition call_wfb (k : call) : bool :=
  let n := List.length (k_ts k) in
  Nat.eqb (List.length (k_msg k)) n && Nat.eqb (List.length (k_val k)) n && Nat.eqb (List.length (k_types k)) n &&
  forallb (fun t => (t <=? 2)%N) (k_types k).
Definition call_entries (k : call) : list entry :=
  map (fun x => E (k_labels k) (fst (fst (fst x))) (snd (fst (fst x))) (snd (fst x)) (snd x))
      (combine (combine (combine (k_ts k) (k_msg k)) (k_val k)) (k_types k)).

(* ---------------------------------------------------------------- generated case files *)
(* compact literals (elaborating a term costs ~10 us per node; a 64-bit numeral has 64 nodes, a character 9):
   numbers travel as primitive 63-bit integers, byte strings packed 7 bytes per integer *)
Notation int := PrimInt63.int (only parsing).
Definition zi (i : int) : Z := Uint63.to_Z i.
Definition ni (i : int) : N := Z.to_N (Uint63.to_Z i).
Definition two_compl (z : Z) : Z := if 9223372036854775808 <=? z then z - 18446744073709551616 else z.
Definition z64 (h l : int) : Z := two_compl (zi h * 4294967296 + zi l).
Definition n64 (h l : int) : N := Z.to_N (zi h * 4294967296 + zi l).
Definition zs1 (l : list int) : list Z := map zi l.
Definition ns1 (l : list int) : list N := map ni l.
Fixpoint zs2 (l : list int) : list Z := match l with h :: lo :: r => z64 h lo :: zs2 r | _ => [] end.
Fixpoint ns2 (l : list int) : list N := match l with h :: lo :: r => n64 h lo :: ns2 r | _ => [] end.
(* run-length encoded columns *)
Definition rl {A} (runs : list (A * int)) : list A := flat_map (fun r => repeat (fst r) (Z.to_nat (zi (snd r)))) runs.
(* sp: each integer carries up to 7 bytes (little endian) in bits 0..55 and their count in bits 56..58 *)
Fixpoint unpack (cnt : nat) (z : Z) (rest : string) : string :=
  match cnt with O => rest | S k => String (ascii_of_N (Z.to_N (z mod 256))) (unpack k (z / 256) rest) end.
Fixpoint sp (l : list int) : string :=
  match l with [] => EmptyString | i :: r => let z := zi i in unpack (Z.to_nat (z / 72057594037927936)) (z mod 72057594037927936) (sp r) end.
(* samples / points of a series: [ts_hi; ts_lo; bits_hi; bits_lo; ...] *)
Fixpoint smp (l : list int) : list (Z * N) :=
  match l with a :: b :: c :: d :: r => (z64 a b, n64 c d) :: smp r | _ => [] end.

(* arithmetic progressions (bodies of tens of thousands of samples at a fixed scrape interval) *)
Definition ap_z (start step : Z) (n : int) : list Z :=
  snd (N.iter (Z.to_N (zi n)) (fun p => (fst p - step, fst p :: snd p)) (start + step * (zi n - 1), [])).
Definition smp_ap (start step : Z) (v : N) (n : int) : list (Z * N) := map (fun t => (t, v)) (ap_z start step n).

Inductive errkind := ENone | EPanic | EError.
Record ftrow := FT { ft_labels : labels; ft_fp : N; ft_enclen : Z }.
Inductive cachekind := CMiss | CSet | CShared.
Record case := Case { c_id : Z; c_body : body; c_ctx_ttl : N; c_cache : cachekind; c_tab : list ftrow; c_obs : list chunk; c_err : errkind }.

Definition kv_eqb (a b : string * string) : bool := String.eqb (fst a) (fst b) && String.eqb (snd a) (snd b).
Fixpoint remove_first {A} (eqb : A -> A -> bool) (x : A) (l : list A) : option (list A) :=
  match l with
  | [] => None
  | y :: r => if eqb x y then Some r else match remove_first eqb x r with Some r' => Some (y :: r') | None => None end
  end.
Fixpoint perm_eqb {A} (eqb : A -> A -> bool) (a b : list A) : bool :=
  match a with
  | [] => match b with [] => true | _ => false end
  | x :: r => match remove_first eqb x b with Some b' => perm_eqb eqb r b' | None => false end
  end.

(* the fingerprint oracle of a case: the table read off the time_series rows of the implementation
   (label lists are compared as multisets: the Go decoders iterate over maps) *)
Definition NOT_FOUND : N := 18446744073709551616%N.      (* 2^64: equal to no uint64 *)
Definition tab_find (tab : list ftrow) (l : labels) : option ftrow := find (fun e => perm_eqb kv_eqb (ft_labels e) l) tab.
Definition tab_fp (tab : list ftrow) (l : labels) : N := match tab_find tab l with Some e => ft_fp e | None => NOT_FOUND end.
Definition tab_enclen (tab : list ftrow) (l : labels) : Z := match tab_find tab l with Some e => ft_enclen e | None => 0 end.
(* the table is a function of the label multiset *)
Definition tab_functional (tab : list ftrow) : bool :=
  forallb (fun e => (tab_fp tab (ft_labels e) =? ft_fp e)%N) tab.

Definition list_eqb {A} (eqb : A -> A -> bool) : list A -> list A -> bool :=
  fix go a b := match a, b with [] , [] => true | x :: r, y :: r' => eqb x y && go r r' | _, _ => false end.
Definition row_eqb (a b : row) : bool :=
  (r_fp a =? r_fp b)%N && (r_ts a =? r_ts b) && String.eqb (r_msg a) (r_msg b) && (r_val a =? r_val b)%N &&
  (r_ttl a =? r_ttl b)%N && (r_type a =? r_type b)%N.
Definition chunk_eqb (a b : chunk) : bool :=
  list_eqb Z.eqb (ch_ts a) (ch_ts b) && list_eqb N.eqb (ch_fp a) (ch_fp b) && list_eqb String.eqb (ch_msg a) (ch_msg b) &&
  list_eqb N.eqb (ch_val a) (ch_val b) && list_eqb N.eqb (ch_ttl a) (ch_ttl b) && list_eqb N.eqb (ch_type a) (ch_type b) &&
  (ch_spl_size a =? ch_spl_size b) && (ch_nseries a =? ch_nseries b)%N && (ch_ts_size a =? ch_ts_size b).

(* a cache step that never reports a hit and remembers nothing: every (day, fp, type) adds a row each time (used for the
   steps of a history with a shared cache, of which only the sample rows are compared) *)
Definition miss_cache (cs : unit) (d : Z) (f : N) (t : N) : unit * bool := (tt, true).

(* the (day, fingerprint, type) announced so far in the request: parserDoer.announced; the deployment's cache is empty at
   the start of a body in the harness (never-hit cache, or a set filled by ConfirmSeries only after the request) *)
Definition set_cache (cs : list (Z * N * N)) (d : Z) (f : N) (t : N) : list (Z * N * N) * bool :=
  if existsb (fun e => (fst (fst e) =? d) && (snd (fst e) =? f)%N && (snd e =? t)%N) cs then (cs, false) else ((d, f, t) :: cs, true).

Definition model_result (c : case) : result :=
  match c_cache c with
  (* since fix 1902c0b the parser only READS the deployment's cache (maybeAddFp = not Has) and keeps, per request, the set of
     (day, fingerprint, type) it has announced: with a cache that never reports a hit every series row is still sent once per request *)
  | CMiss => decode (tab_fp (c_tab c)) (tab_enclen (c_tab c)) (list (Z * N * N)) set_cache [] THRESHOLD FLUSH_LIMIT (c_ctx_ttl c) (c_body c)
  | CSet => decode (tab_fp (c_tab c)) (tab_enclen (c_tab c)) (list (Z * N * N)) set_cache [] THRESHOLD FLUSH_LIMIT (c_ctx_ttl c) (c_body c)
  (* a step of a history with one cache shared by all steps: its state is not part of the case, only the rows are compared *)
  | CShared => decode (tab_fp (c_tab c)) (tab_enclen (c_tab c)) unit miss_cache tt THRESHOLD FLUSH_LIMIT (c_ctx_ttl c) (c_body c)
  end.

(* Influx: the fields of one line are visited in Go map order, so the rows of one line are compared as a
   multiset; groups = number of rows the line contributes *)
Fixpoint grouped_perm_eqb (groups : list nat) (a b : list row) : bool :=
  match groups with
  | [] => match a, b with [], [] => true | _, _ => false end
  | n :: r => perm_eqb row_eqb (firstn n a) (firstn n b) && Nat.eqb (List.length (firstn n a)) n &&
              grouped_perm_eqb r (skipn n a) (skipn n b)
  end.
Definition is_influx (b : body) : bool := match b with BInflux _ _ _ => true | _ => false end.
Definition body_modelled (b : body) : bool := match b with BInflux _ _ l => forallb iline_modelled l | _ => true end.

Definition model_groups (b : body) : list nat :=
  match b with BInflux p _ l => map (fun ln => List.length (influx_line_calls p 0 ln)) l | _ => [] end.
Definition spec_groups (b : body) : list nat :=
  match b with BInflux p _ l => map (fun ln => List.length (influx_line_entries p 0 ln)) l | _ => [] end.

(* the clock of a body whose decoder reads it *)
Definition body_clock (b : body) : option clock :=
  match b with BInflux _ ck _ | BDDLog ck _ | BDDMet ck _ | BCf _ ck _ | BEs ck _ => Some ck | _ => None end.
Definition body_clock_ok (b : body) : bool := match body_clock b with Some ck => clock_okb ck | None => true end.

Definition rows_only (c : case) : bool := match c_cache c with CShared => true | _ => is_influx (c_body c) end.

(* model output <> observed output *)
Definition model_mismatch (c : case) : bool :=
  body_modelled (c_body c) &&
  negb (match model_result c, c_err c with
        | Done cs, ENone =>
          if is_influx (c_body c)
          then Nat.eqb (List.length cs) (List.length (c_obs c)) &&
               grouped_perm_eqb (model_groups (c_body c)) (rows_of cs) (rows_of (c_obs c))
          else if rows_only c then list_eqb row_eqb (rows_of cs) (rows_of (c_obs c))
          else list_eqb chunk_eqb cs (c_obs c)
        | Panicked cs, EPanic => list_eqb chunk_eqb cs (c_obs c)
        | _, _ => false
        end).

(* the property's oracle on the OBSERVED responses: no error, rectangular chunks, and the concatenated sample
   rows are exactly one row per submitted entry, in order, with the fingerprint of the entry's own label set *)
Definition spec_violation (c : case) : bool :=
  body_modelled (c_body c) &&
  negb (match c_err c with
        | ENone =>
          tab_functional (c_tab c) && forallb chunk_rectb (c_obs c) && body_clock_ok (c_body c) &&
          let want := rows_spec (tab_fp (c_tab c)) (c_ctx_ttl c) (entries_of (c_body c)) in
          if is_influx (c_body c) then grouped_perm_eqb (spec_groups (c_body c)) want (rows_of (c_obs c))
          else list_eqb row_eqb want (rows_of (c_obs c))
        | _ => false
        end).

Definition mismatches (cs : list case) : list Z := map c_id (filter model_mismatch cs).
Definition spec_violations (cs : list case) : list Z := map c_id (filter spec_violation cs).
Definition unmodelled (cs : list case) : list Z := map c_id (filter (fun c => negb (body_modelled (c_body c))) cs).
(* one evaluation of the case list (call by value), three verdict lists *)
Definition check_all (cs : list case) : list Z * list Z * list Z := (mismatches cs, spec_violations cs, unmodelled cs).

(* ---------------------------------------------------------------- a body whose reader fails part-way
   (a truncated or corrupted gzip / snappy stream behind Content-Encoding, a connection that breaks): the decoder gets
   through the first n invocations of the callback, then the reader's error ends Decode and the request fails with what
   was sent so far; only when nothing is left to decode may the error go unnoticed (the JSON decoders stop reading behind
   the closing bracket), and then the request is answered as the whole body is. *)
Inductive outcome := Answered (r : result) | ReadFailed (sent : list chunk).
Section CUT.
  Variable fp : labels -> N.
  Variable enc_len : labels -> Z.
  Variable CS : Type.
  Variable cache_add : CS -> Z -> N -> N -> CS * bool.
  Variable cache0 : CS.
  Variable threshold : Z.
  Variable flush_limit : N.
  Variable ctx_ttl : N.
  Definition decode_cut (n : nat) (noticed : bool) (b : body) : outcome :=
    let ks := calls_of flush_limit b in
    if Nat.ltb n (List.length ks) || noticed
    then ReadFailed (fst (steps fp enc_len CS cache_add threshold ctx_ttl (empty_chunk, cache0) (firstn n ks)))
    else Answered (decode fp enc_len CS cache_add cache0 threshold flush_limit ctx_ttl b).
End CUT.
(* the oracle on the observed responses of such a request: it failed, or its rows are those of the WHOLE body *)
Definition fr_violation (c : case) : bool := match c_err c with ENone => spec_violation c | _ => false end.
Definition fr_check_all (cs : list case) : list Z * list Z := ([], map c_id (filter fr_violation cs)).

