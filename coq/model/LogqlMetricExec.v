(* C08: EXECUTION of the metric statements on stored data.
   exec_rows: the SELECT tree the planner model produces for a metric script (LogqlPlan.plan_metric / process - the tree
   whose rendering the check ties byte for byte to the implementation's statement on the same case) is evaluated by
   SqlEvalAgg.eval_agg (C07's SqlEval select machinery + aggregate functions read from the statement's own text) over
   the tables of a database (C07's to_sqldb plus the 15-second roll-up table), and the rows are compared with
   metric_ref_db, the reference over the same stored data. The SQL-shape reading LogqlMetricSem.sem takes no part in
   this comparison: it is checked from the other side (sem = metric_ref is the theorem, exec = metric_ref the sampled
   obligation), so the reading of GROUP BY / alias shadowing / HAVING / ANY LEFT JOIN / any() is no longer only trusted.
   Concrete stand-ins for the oracles (the theorems hold for every oracle; here one instance is executed, the same on both
   sides): substring match for RE2, exact decimals for floats, a key=value;... document for JSON extraction, an injective
   byte encoding for cityHash64, symmetric polynomials for quantile / varPop / stddevPop.
   Executable definitions only. *)
From Coq Require Import List ZArith NArith QArith Qcanon String Ascii Bool.
From Qryn Require Import lib.Strs model.Sql model.Logql model.LogqlPlan model.SqlEval model.LogqlSem model.LogqlMetricSem
  model.LogqlMetricE2E model.SqlEvalAgg.
From Qryn Require model.SqlRender model.LogqlSemCheck.
Import ListNotations.
Open Scope string_scope.

(* ---------- oracle instances ---------- *)
Definition o_re_match (s pat : string) : bool := contains pat s.
Definition o_parse_float (s : string) : option Q := dec_q s.
(* the document "k1=v1;k2=v2": the value of the key path joined with "." ('' when absent) *)
Fixpoint split_on (sep : ascii) (s : string) (cur : string) : list string :=
  match s with
  | EmptyString => [rev_s cur ""]
  | String c r => if Ascii.eqb c sep then rev_s cur "" :: split_on sep r "" else split_on sep r (String c cur)
  end.
Fixpoint kv_find (k : string) (parts : list string) : string :=
  match parts with
  | [] => ""
  | p :: r => match split_on "=" p "" with
              | [k'; v] => if String.eqb k k' then v else kv_find k r
              | _ => kv_find k r
              end
  end.
Definition o_json_get (line : string) (path : list string) : string := kv_find (join "." path) (split_on ";" line "").
(* an injective encoding of a label map: base-257 digits, 0 separates *)
Fixpoint enc_str (s : string) (acc : Z) : Z :=
  match s with EmptyString => (acc * 257)%Z | String c r => enc_str r (acc * 257 + Z.of_N (N_of_ascii c) + 1)%Z end.
Definition o_hash (m : list (string * string)) : Z :=
  fold_left (fun acc kv => enc_str (snd kv) (enc_str (fst kv) acc)) m 1%Z.
Definition o_to_float (s : string) : Q := match dec_q s with Some q => q | None => 0%Q end.
Definition o_quantile (p : string) (l : list Q) : Q :=
  Qred (Qplus (o_to_float p) (fold_right (fun x a => Qplus (Qmult x x) a) 0%Q l)).
Definition o_varpop (l : list Q) : Q := Qred (fold_right (fun x a => Qplus (Qmult x x) a) 1%Q l).
Definition o_stddevpop (l : list Q) : Q := Qred (fold_right (fun x a => Qplus (Qmult (Qmult x x) x) a) 2%Q l).
Definition qc_of (f : list Q -> Q) (l : list Qc) : Qc := Q2Qc (f (map this l)).

(* the roll-up table metrics_15s as the materialized view fills it: per line one count state in the 15-second slot of its
   stream; countMerge over a set of states = their sum *)
Definition m15_cols (x : sample) : row :=
  [("fingerprint", VInt (x_fp x)); ("timestamp_ns", VInt (Z.quot (x_ts x) 15000000000 * 15000000000)); ("type", VInt (x_type x));
   ("count", VInt 1)].
Definition exec_db (c : pctx) (d : LogqlSem.database) : SqlEval.database :=
  fun name => if String.eqb name (t_m15 c) then Some (map m15_cols (d_samples d)) else to_sqldb c d name.

Section EXEC.
  Variable tie : forall A : Type, list A -> list A.

  Definition metric_select (s : script) (c : pctx) : option select :=
    match plan_metric s true with
    | Some p => match process p c pst0 with Some (q, _, _) => Some q | None => None end
    | None => None
    end.
  Definition eval_stmt (c : pctx) (d : LogqlSem.database) (q : select) : option table :=
    eval_agg o_re_match o_parse_float o_json_get o_hash tie (exec_db c d) o_hash o_to_float o_quantile o_varpop o_stddevpop q.
  Definition exec_rows (s : script) (c : pctx) (d : LogqlSem.database) : option table :=
    match metric_select s c with Some q => eval_stmt c d q | None => None end.
  Definition ref_rows (s : script) (c : pctx) (d : LogqlSem.database) : option (list vrow) :=
    metric_ref_db o_re_match o_parse_float o_json_get o_hash (fun t => Q2Qc (o_to_float t))
      (fun p l => Q2Qc (o_quantile p (map this l))) (qc_of o_varpop) (qc_of o_stddevpop) s c d.

  (* the DEFINITION (a vector aggregation without grouping clause yields one series {}) over the same stored data *)
  Definition ref_rows_def (s : script) (c : pctx) (d : LogqlSem.database) : option (list vrow) :=
    metric_ref_def (fun t => Q2Qc (o_to_float t)) (fun p l => Q2Qc (o_quantile p (map this l))) (qc_of o_varpop) (qc_of o_stddevpop) s c
      (map entry_of_out (log_lines o_re_match o_parse_float o_json_get o_hash s c d)).

  (* an output row of the statement: labels, timestamp_ns, value *)
  Definition out_of_row (r : row) : option (lmap * Z * Q) :=
    match SqlEval.lookup "labels" r, SqlEval.lookup "timestamp_ns" r, SqlEval.lookup "value" r with
    | Some (VMap m), Some (VInt t), Some v => match num_of v with Some q => Some (m, t, q) | None => None end
    | _, _, _ => None
    end.
  Definition same_out (a : lmap * Z * Q) (b : vrow) : bool :=
    lmap_eqb (fst (fst a)) (v_labels b) && Z.eqb (snd (fst a)) (v_ts b) && Qeq_bool (snd a) (this (v_val b)).
  Fixpoint remove_first (a : lmap * Z * Q) (l : list vrow) : option (list vrow) :=
    match l with
    | [] => None
    | b :: r => if same_out a b then Some r else match remove_first a r with Some r' => Some (b :: r') | None => None end
    end.
  Fixpoint same_multiset (a : list (lmap * Z * Q)) (b : list vrow) : bool :=
    match a with
    | [] => match b with [] => true | _ => false end
    | x :: r => match remove_first x b with Some b' => same_multiset r b' | None => false end
    end.

  (* 0 = the executed statement answers the reference; 1 = it answers something else; 2 = the statement is outside the
     evaluated subset (or not planned) although the reference is defined; 3 = no reference (script kinds metric_ref does
     not define: top/bottom-k is a relation) ; 4 = neither side defined *)
  Definition exec_verdict (s : script) (c : pctx) (d : LogqlSem.database) : Z :=
    match s with
    | STopK _ | SLog _ | SMacros => 3%Z
    | _ =>
      match exec_rows s c d, ref_rows s c d with
      | Some t, Some v =>
        match map_opt out_of_row t with
        | Some rows => if same_multiset rows v then 0%Z else 1%Z
        | None => 1%Z
        end
      | Some _, None => 1%Z
      | None, Some _ => 2%Z
      | None, None => 4%Z
      end
    end.
  (* against the definition: 0 = the statement answers it, 1 = it does not, 2 = not comparable *)
  Definition exec_verdict_def (s : script) (c : pctx) (d : LogqlSem.database) : Z :=
    match exec_rows s c d, ref_rows_def s c d with
    | Some t, Some v => match map_opt out_of_row t with
                        | Some rows => if same_multiset rows v then 0%Z else 1%Z
                        | None => 1%Z end
    | _, _ => 2%Z
    end.
End EXEC.

Definition tie_id : forall A : Type, list A -> list A := fun _ l => l.
Definition tie_rev : forall A : Type, list A -> list A := fun _ l => rev l.

(* ---------- the IMPLEMENTATION's own statement ----------
   `tree` is what harness/sqlparse (+ the shape normaliser of harness/cmd/logqlsql/impltree.go) recovers from the text the real
   planners printed: a select whose WITH references are UNBOUND (`WRef alias empty_select`) and whose WITH list is the list of
   the text. impl_prep (C07's LogqlSemCheck.prep) binds every reference BY ALIAS to the member of that alias of the WITH list
   in scope - what ClickHouse does with the text; a Sql.v tree built by the planners carries the query inside the WRef, which
   hides a capture: two members of one alias, of which Select.AddWith keeps the first - and folds the fragments of the log part
   back into the forms SqlEval reads. Parser, normaliser and prep are untrusted: impl_text renders the prepared tree and the
   check requires the bytes of the implementation's statement. *)
Definition impl_prep (s : script) (c : pctx) (tree : select) : select :=
  LogqlSemCheck.prep (LogqlSemCheck.days_near c) (LogqlSemCheck.frag_cands (log_part s)) tree.
Definition impl_text (s : script) (c : pctx) (tree : select) : option string :=
  SqlRender.render (impl_prep s c tree) (c_cluster c).

(* the tree the planner MODEL builds carries, inside every WRef, the query its alias is bound to in the WITH list of the
   statement (add_with hoists nested members, the first member of an alias wins): the statement text and the tree mean the same
   (C07's LogqlSemCheck.wrefs_bound: text of the carried query = text of the bound member, for every reachable reference).
   Cluster mode prints the carried query inline: nothing to bind. *)
Definition model_wrefs_bound (s : script) (c : pctx) : bool :=
  match metric_select s c with
  | Some q => c_cluster c || LogqlSemCheck.wrefs_bound q
  | None => true
  end.

Definition verdict_rows (t : option table) (want : option (list vrow)) : Z :=
  match t, want with
  | Some t, Some v => match map_opt out_of_row t with
                      | Some rows => if same_multiset rows v then 0%Z else 1%Z
                      | None => 1%Z end
  | Some _, None => 1%Z
  | None, Some _ => 2%Z
  | None, None => 4%Z
  end.
Definition is_topk (s : script) : bool := match s with STopK _ => true | _ => false end.
Definition no_reference (s : script) : bool := match s with STopK _ | SLog _ | SMacros => true | _ => false end.

(* ---------- topk / bottomk: the reference is a relation (any top-k set), decided here ----------
   For a step not longer than the range (no re-bucketing after the selection) topk_correct says: out = the rows of a kept set K that
   pass the threshold, where per timestamp K holds min(k, n) of the n rows of the inner vector and no dropped row beats a kept one.
   Decision per timestamp t, I = the inner rows at t, O = the statement's rows at t:
     O is a sub-multiset of I and every row of O passes the threshold;  m = min(k, |I|) - |O| >= 0 further rows were kept and failed
     the threshold: the m best rows X among those of I - O that fail it (the best choice: it leaves the weakest rows dropped);
     no row of I - O - X beats a row of O + X. *)
Definition topk_inner (t : Logql.topk) : script :=
  match tk_arg t with TKLra l => SLra l | TKAgg a => SAgg a | TKQuantile q => SQuantile q end.
Definition orow := (lmap * Z * Q)%type.
Definition orow_of (v : vrow) : orow := (v_labels v, v_ts v, this (v_val v)).
Definition orow_eqb (a b : orow) : bool :=
  lmap_eqb (fst (fst a)) (fst (fst b)) && Z.eqb (snd (fst a)) (snd (fst b)) && Qeq_bool (snd a) (snd b).
Fixpoint remove_orow (a : orow) (l : list orow) : option (list orow) :=
  match l with
  | [] => None
  | b :: r => if orow_eqb a b then Some r else match remove_orow a r with Some r' => Some (b :: r') | None => None end
  end.
Fixpoint msub_orow (sub all : list orow) : option (list orow) :=     (* all - sub, when sub is a sub-multiset *)
  match sub with
  | [] => Some all
  | x :: r => match remove_orow x all with Some all' => msub_orow r all' | None => None end
  end.
Fixpoint insert_q (better : Q -> Q -> bool) (x : orow) (l : list orow) : list orow :=
  match l with [] => [x] | y :: r => if better (snd x) (snd y) then x :: l else y :: insert_q better x r end.
Definition cmp_passes (c : option comparison) (x : orow) : bool :=
  match c with
  | None => true
  | Some cm => cmp_holds (cmp_fn cm) (Q2Qc (snd x)) (dec_value (cmp_val cm))
  end.
Definition topk_ts_ok (k : Z) (top : bool) (cm : option comparison) (inner out : list orow) (t : Z) : bool :=
  let at_t := filter (fun x : orow => Z.eqb (snd (fst x)) t) in
  let I := at_t inner in let O := at_t out in
  let better (a b : Q) := if top then Qle_bool b a else Qle_bool a b in       (* a is at least as good as b *)
  match msub_orow O I with
  | None => false
  | Some D =>
    forallb (cmp_passes cm) O &&
    let m := (Z.min (Z.max k 0) (Z.of_nat (List.length I)) - Z.of_nat (List.length O))%Z in
    Z.leb 0 m &&
    let F := fold_right (insert_q better) [] (filter (fun x => negb (cmp_passes cm x)) D) in
    Z.leb m (Z.of_nat (List.length F)) &&
    let X := firstn (Z.to_nat m) F in
    let dropped := (filter (cmp_passes cm) D ++ skipn (Z.to_nat m) F)%list in
    forallb (fun d => forallb (fun x => better (snd x) (snd d)) (O ++ X)%list) dropped
  end.
Definition topk_ok (k : Z) (top : bool) (cm : option comparison) (inner out : list orow) : bool :=
  forallb (topk_ts_ok k top cm inner out) (map (fun x : orow => snd (fst x)) (inner ++ out)%list).
(* ---------- a step LONGER than the range: the selection is re-bucketed after it (StepFixPlanner) ----------
   topk_correct: out = ref_step step d (ref_cmp cmp K) for a kept set K (per timestamp min(k, n) rows of the inner vector, no dropped
   row beats a kept one). The re-bucketing mixes the timestamps of one step window, so the decision per timestamp above does not
   apply; here every kept set is enumerated - per timestamp the (kept, dropped) splits of the inner rows that are top-(bottom-)k sets
   (more than one only where values tie at the border), all combinations over the timestamps, capped - and the statement's rows must
   be the re-bucketed, threshold-filtered rows of one of them. *)
Fixpoint splits_n {A : Type} (n : nat) (l : list A) {struct l} : list (list A * list A) :=
  match l with
  | [] => match n with O => [([], [])] | S _ => [] end
  | x :: r =>
    match n with
    | O => [([], l)]
    | S n' => (map (fun p => (x :: fst p, snd p)) (splits_n n' r) ++ map (fun p => (fst p, x :: snd p)) (splits_n n r))%list
    end
  end.
Definition topk_sets (k : Z) (top : bool) (I : list vrow) : list (list vrow) :=
  let m := Z.to_nat (Z.min (Z.max k 0) (Z.of_nat (List.length I))) in
  let better (a b : vrow) := if top then Qle_bool (this (v_val b)) (this (v_val a)) else Qle_bool (this (v_val a)) (this (v_val b)) in
  map fst (filter (fun p : list vrow * list vrow => forallb (fun d => forallb (fun x => better x d) (fst p)) (snd p)) (splits_n m I)).
Fixpoint combos {A : Type} (ls : list (list (list A))) : list (list A) :=
  match ls with [] => [[]] | c :: r => flat_map (fun x => map (fun y => (x ++ y)%list) (combos r)) c end.
Fixpoint dedup_z (l : list Z) : list Z :=
  match l with [] => [] | x :: r => x :: filter (fun y => negb (Z.eqb x y)) (dedup_z r) end.
Definition topk_cap : Z := 4096.
(* Some true = the rows are the re-bucketed selection of some kept set; Some false = of none; None = more than topk_cap kept sets *)
Definition topk_step_ok (t : Logql.topk) (c : pctx) (inner : list vrow) (out : list (lmap * Z * Q)) : option bool :=
  let cands := map (fun x => topk_sets (tk_len t) (tk_top t) (filter (fun r => Z.eqb (v_ts r) x) inner)) (dedup_z (map v_ts inner)) in
  if Z.ltb topk_cap (fold_right (fun (cs : list (list vrow)) a => (Z.of_nat (List.length cs) * a)%Z) 1%Z cands) then None else
  Some (existsb (fun K => same_multiset out (ref_step (c_step_ns c) (get_duration (STopK t)) (ref_cmp (tk_cmp t) K))) (combos cands)).

(* 0 = the statement's rows are a threshold-filtered top-/bottom-k selection of the inner vector's reference (re-bucketed to the step
   when that is longer than the range); 1 = they are not; 2 = the statement does not evaluate; 3 = not judged (a longer step and more
   than topk_cap kept sets to try) *)
(* metric_ref re-buckets its vector to a longer step; the inner vector of a selection is the one BEFORE that: the reference of the inner
   script under a step that re-buckets nothing *)
Definition ctx_step1 (c : pctx) : pctx :=
  {| c_from_ns := c_from_ns c; c_to_ns := c_to_ns c; c_limit := c_limit c; c_asc := c_asc c; c_cluster := c_cluster c; c_type := c_type c;
     c_finalize := c_finalize c; c_step_ns := 1%Z; t_gin := t_gin c; t_samples := t_samples c; t_ts := t_ts c; t_ts_dist := t_ts_dist c;
     t_m15 := t_m15 c |}.
Definition topk_inner_rows (t : Logql.topk) (c : pctx) (d : LogqlSem.database) : option (list vrow) :=
  ref_rows (topk_inner t) (if Z.ltb (get_duration (STopK t)) (c_step_ns c) then ctx_step1 c else c) d.
Definition topk_verdict (t : Logql.topk) (c : pctx) (d : LogqlSem.database) (rows : option table) : Z :=
  match rows, topk_inner_rows t c d with
  | Some tb, Some inner =>
    match map_opt out_of_row tb with
    | Some out =>
      if Z.ltb (get_duration (STopK t)) (c_step_ns c) then
        match topk_step_ok t c inner out with Some true => 0%Z | Some false => 1%Z | None => 3%Z end
      else if topk_ok (tk_len t) (tk_top t) (tk_cmp t) (map orow_of inner) out then 0%Z else 1%Z
    | None => 1%Z
    end
  | Some _, None => 1%Z
  | None, Some _ => 2%Z
  | None, None => 4%Z
  end.

(* what the check prints for a case: the rendering of the prepared tree, the verdicts of the implementation's statement under
   both tie orders against metric_ref_db and against the definition, and the two answers for a replay *)
Record impl_obs := { io_text : option string; io_v1 : Z; io_v2 : Z; io_vdef : Z; io_wdef : option (list vrow);
                     io_got : option (list (option (lmap * Z * Q))); io_want : option (list vrow) }.
(* s0 = the script as written, s = the script the planners got (the reader's entry point gives a vector aggregation without
   clause the grouping `by ()`: LogqlPlan.norm_script; the check compares norm_script s0 with s): the statement is judged
   against metric_ref_db of s - the reference of the theorems - and, for an aggregation written without clause, against the
   DEFINITION over s0 as well (one series with the empty label set) *)
Definition impl_case (s0 s : script) (c : pctx) (d : LogqlSem.database) (tree : select) : impl_obs :=
  let q := impl_prep s c tree in
  let want := ref_rows s c d in
  let r1 := eval_stmt tie_id c d q in
  {| io_text := SqlRender.render q (c_cluster c);
     io_v1 := (match s with STopK t => topk_verdict t c d r1 | _ => if no_reference s then 3%Z else verdict_rows r1 want end);
     io_v2 := (match s with STopK t => topk_verdict t c d (eval_stmt tie_rev c d q)
               | _ => if no_reference s then 3%Z else verdict_rows (eval_stmt tie_rev c d q) want end);
     io_vdef := (if agg_grouped s0 || no_reference s0 then 2%Z else
                 match r1, ref_rows_def s0 c d with Some _, Some _ => verdict_rows r1 (ref_rows_def s0 c d) | _, _ => 2%Z end);
     io_wdef := (if agg_grouped s0 then None else ref_rows_def s0 c d);
     io_got := option_map (map out_of_row) r1;
     io_want := (match s with STopK t => topk_inner_rows t c d | _ => want end) |}.
(* what the check prints for a case: verdicts under both tie orders, and the two answers for a replay *)
Record exec_obs := { eo_v1 : Z; eo_v2 : Z; eo_vdef : Z; eo_wdef : option (list vrow); eo_got : option (list (option (lmap * Z * Q))); eo_want : option (list vrow) }.
Definition exec_case (s : script) (c : pctx) (d : LogqlSem.database) : exec_obs :=
  {| eo_v1 := exec_verdict tie_id s c d; eo_v2 := exec_verdict tie_rev s c d;
     eo_vdef := (if agg_grouped s then 2%Z else exec_verdict_def tie_id s c d);
     eo_wdef := (if agg_grouped s then None else ref_rows_def s c d);
     eo_got := option_map (map out_of_row) (exec_rows tie_id s c d); eo_want := ref_rows s c d |}.

