(* C10 — the renderer of reader/utils/sql_select (model/SqlRender.v, byte-exact) factored through a
   SEGMENTED text: the same traversal, but every value printed by StringVal.String stays a separate
   piece instead of being flattened into bytes.

     rexpr e o st = (flat (fst (pexpr e o st)), snd (pexpr e o st))        (SqlPiecesProofs.pexpr_flat)

   A piece is either text of the statement (keywords, identifiers, numbers, punctuation: everything
   the planners write themselves), a VALUE (the argument of a StrV node: printed quoted and
   escaped) or a raw-quoted identifier (QRaw: 'name' spliced without escaping; safe only for bytes
   that the escaper would copy unchanged).  [pok] is the value-independent condition under which the
   ClickHouse lexer reads every value piece as exactly one string literal; [etoks] is the token list of
   the statement under that condition.  Executable definitions only. *)
From Coq Require Import List ZArith NArith String Ascii Bool.
From Qryn Require Import lib.Strs lib.CivilDate model.Sql model.SqlRender model.ChLex model.SqlSites.
Import ListNotations.
Open Scope string_scope.
Open Scope list_scope.   (* ++ is list append below; string appends are marked %string *)

Inductive rpiece : Type :=
| RTxt (t : string)     (* text written by the planner / renderer *)
| RLit (s : string)     (* a value: rendered as SqlRender.quote s *)
| RQid (s : string).    (* a raw-quoted identifier: rendered as 's' *)
Definition rtext := list rpiece.

Definition flat1 (p : rpiece) : string :=
  match p with RTxt t => t | RLit s => SqlRender.quote s | RQid s => ("'" ++ s ++ "'")%string end.
Fixpoint flat (p : rtext) : string :=
  match p with [] => "" | x :: r => (flat1 x ++ flat r)%string end.

Fixpoint pjoin (sep : string) (l : list rtext) : rtext :=
  match l with [] => [] | [x] => x | x :: r => x ++ RTxt sep :: pjoin sep r end.

(* the segmented text flattens to the empty string (a value piece never does: it has its quotes) *)
Definition rempty1 (x : rpiece) : bool := match x with RTxt t => String.eqb t "" | _ => false end.
Definition rempty (p : rtext) : bool := forallb rempty1 p.

Section PRENDER.
  Context {E : Type} (pexpr : E -> opts -> rst -> rtext * rst).

  Fixpoint plist (l : list E) (o : opts) (st : rst) : list rtext * rst :=
    match l with
    | [] => ([], st)
    | e :: r => let '(s, st1) := pexpr e o st in let '(ss, st2) := plist r o st1 in (s :: ss, st2)
    end.
  Definition popt (kw : string) (x : option E) (o : opts) (st : rst) : rtext * rst :=
    match x with None => ([], st) | Some e => let '(s, st1) := pexpr e o st in (RTxt kw :: s, st1) end.
  Definition popt_nonempty (kw : string) (x : option E) (o : opts) (st : rst) : rtext * rst :=
    match x with None => ([], st)
    | Some e => let '(s, st1) := pexpr e o st in ((if rempty s then [] else RTxt kw :: s), st1) end.
  Definition plist_kw (kw sep : string) (l : list E) (o : opts) (st : rst) : rtext * rst :=
    match l with [] => ([], st) | _ => let '(ss, st1) := plist l o st in (RTxt kw :: pjoin sep ss, st1) end.

  Fixpoint pjoins (js : list (string * E * option E)) (o : opts) (st : rst) : rtext * rst :=
    match js with
    | [] => ([], st)
    | (tp, tbl, on) :: r =>
      let '(t, st1) := pexpr tbl o st in
      let '(ons, st2) :=
        if String.eqb (to_lower tp) "array" then ([], st1)
        else match on with
             | Some c => let '(s, st') := pexpr c o st1 in (RTxt "ON " :: s, st')
             | None => ([RTxt "ON "], fail st1)
             end in
      let '(rest, st3) := pjoins r o st2 in
      (RTxt " " :: RTxt tp :: RTxt " JOIN " :: t ++ RTxt " " :: ons ++ rest, st3)
    end.

  Fixpoint psel (s : select_ E) (o : opts) (st : rst) {struct s} : rtext * rst :=
    let fix pwiths (ws : list (string * select_ E)) (st : rst) : list rtext * rst :=
        match ws with
        | [] => ([], st)
        | (a, q) :: r => let '(s1, st1) := psel q (add_skip o) st in
                         let '(ss, st2) := pwiths r st1 in ((RTxt a :: RTxt " as (" :: s1 ++ [RTxt ")"]) :: ss, st2)
        end in
    let fix punions (us : list (select_ E)) (st : rst) : list rtext * rst :=
        match us with
        | [] => ([], st)
        | q :: r => let '(s1, st1) := psel q o st in let '(ss, st2) := punions r st1 in (s1 :: ss, st2)
        end in
    let skip := skip_with o || inline_with o in
    let '(w, st1) := match s_withs s with
                     | [] => ([], st)
                     | ws => if skip then ([], st) else let '(ss, st') := pwiths ws st in (RTxt "WITH " :: pjoin "," ss, st') end in
    let '(cols, st2) := match s_cols s with
                        | [] => ([], fail st1)
                        | cs => let '(ss, st') := plist cs o st1 in (pjoin ", " ss, st') end in
    let '(fromj, st3) := match s_from s with
                         | None => ([], st2)
                         | Some f => let '(fs, st') := pexpr f o st2 in
                                     let '(js, st'') := pjoins (s_joins s) o st' in (RTxt " FROM " :: fs ++ js, st'') end in
    let '(pw, st4) := popt " PREWHERE " (s_prewhere s) o st3 in
    let '(wh, st5) := popt " WHERE " (s_where s) o st4 in
    let '(gb, st6) := plist_kw " GROUP BY " ", " (s_groupby s) o st5 in
    let '(hv, st7) := popt " HAVING " (s_having s) o st6 in
    let '(ob, st8) := plist_kw " ORDER BY " ", " (s_orderby s) o st7 in
    let '(lm, st9) := popt_nonempty " LIMIT " (s_limit s) o st8 in
    let '(off, st10) := popt_nonempty " OFFSET " (s_offset s) o st9 in
    let sett := match s_settings s with
                | [] => ""
                | kv => (" SETTINGS " ++ String.concat "" (map (fun p => fst p ++ "=" ++ snd p ++ " ") kv))%string end in
    let '(us, st11) := punions (s_unions s) st10 in
    (pjoin " UNION ALL " ((w ++ RTxt " SELECT " :: RTxt (if s_distinct s then " DISTINCT " else "") :: cols ++ fromj
       ++ pw ++ wh ++ gb ++ hv ++ ob ++ lm ++ off ++ [RTxt sett]) :: us), st11).
End PRENDER.

Fixpoint pbitset_parts (ss : list rtext) (i : N) : list rtext :=
  match ss with
  | [] => []
  | s :: r => (RTxt "bitShiftLeft(toUInt64(" :: s ++ [RTxt "), "; RTxt (string_of_N i); RTxt ")"]) :: pbitset_parts r (i + 1)%N
  end.

Definition paren (s : rtext) : rtext := RTxt "(" :: s ++ [RTxt ")"].

Fixpoint pexpr (e : expr) (o : opts) (st : rst) {struct e} : rtext * rst :=
  match e with
  | Raw s => ([RTxt s], st)
  | Id s => ([RTxt s], st)
  | QRaw s => ([RQid s], st)
  | Idx x k => let '(s1, st1) := pexpr x o st in let '(s2, st2) := pexpr k o st1 in (s1 ++ RTxt "[" :: s2 ++ [RTxt "]"], st2)
  | StrV s => ([RLit s], st)
  | IntV z => ([RTxt (string_of_Z z)], st)
  | FloatV t => ([RTxt t], st)
  | BoolV b => ([RTxt (if b then "true" else "false")], st)
  | DateV d => ([RTxt (SqlRender.quote (date_string d))], st)   (* computed by the planner from the time window: text *)
  | LOp fn cl => let '(ss, st1) := plist pexpr cl o st in
                 (pjoin (" " ++ lop_str fn ++ " ")%string (map paren ss), st1)
  | Not x => let '(s, st1) := pexpr x o st in (RTxt "!(" :: s ++ [RTxt ")"], st1)
  | NotNull x => let '(s, st1) := pexpr x o st in (s ++ [RTxt " IS NOT NULL"], st1)
  | In l r => let '(rs, st1) := plist pexpr r o st in
              let '(ls, st2) := pexpr l o st1 in (ls ++ RTxt " IN (" :: pjoin "," rs ++ [RTxt ")"], st2)
  | WRef a q =>
      if String.eqb a "" then ([], fail st)
      else if inline_with o then
        let '(s, st1) := psel pexpr q (del_noalias o) st in
        (RTxt "(" :: s ++ RTxt ")" :: (if no_alias o then [] else [RTxt " as "; RTxt a]), st1)
      else ([RTxt a], st)
  | Col x a => let '(s, st1) := pexpr x (add_noalias o) st in
               ((if String.eqb a "" then s else s ++ [RTxt " as "; RTxt a]), st1)
  | Ord x asc => let '(s, st1) := pexpr x o st in (s ++ [RTxt " "; RTxt (if asc then "asc" else "desc")], st1)
  | CtxParam _ def => match def with Some d => ([RTxt d], st) | None => ([], fail st) end
  | Fn name args => let '(ss, st1) := plist pexpr args o st in (RTxt name :: RTxt "(" :: pjoin ", " ss ++ [RTxt ")"], st1)
  | Sep sep parts => let '(ss, st1) := plist pexpr parts o st in (pjoin sep ss, st1)
  | BitSetAnd cl => let '(ss, st1) := plist pexpr cl o st in
                    (RTxt "groupBitOr(" :: pjoin " + " (pbitset_parts ss 0%N) ++ [RTxt ")"], st1)
  | WithId f => let id := (r_id st + 1)%N in pexpr (f id) o {| r_id := id; r_err := r_err st |}
  | SubQ q => psel pexpr q o st
  end.

(* top level, as SqlRender.render: None = a String method returned an error *)
Definition pieces (s : select) (cluster : bool) : option rtext :=
  let '(p, st) := psel pexpr s (if cluster then inline_opts else no_opts) rst0 in
  if r_err st then None else Some p.

(* ---------- reading the segmented text with the ClickHouse lexer machine (model/ChLex.v) ---------- *)

Definition follows_literal (q : st) : bool := match q with QStrQ _ => true | _ => false end.
Definition starts_quote (t : string) : bool := match t with String c _ => Ascii.eqb c "'" | EmptyString => false end.

(* Value-independent condition (it inspects the texts, the POSITIONS of the values, and the bytes of raw-quoted
   identifiers; never the content of a value): every value piece is reached in a state where a quote opens a
   literal, and no text that follows a value begins with a quote ('' inside a literal is an escaped quote).
   The state after a value piece is QStrQ: "behind the closing quote". *)
Fixpoint pok (q : st) (p : rtext) : bool :=
  match p with
  | [] => true
  | RTxt t :: r => negb (follows_literal q && starts_quote t) && pok (after q t) r
  | RLit s :: r => opens_literal q && pok (QStrQ s) r
  | RQid s :: r => opens_literal q && all_chars plain_char s && pok (QStrQ s) r
  end.

(* the tokens of the statement: those of the texts (the machine restarts between tokens after each value) and
   ONE string literal token per value piece, decoding to the value *)
Fixpoint etoks (q : st) (p : rtext) : list tok :=
  match p with
  | [] => flush q
  | RTxt t :: r => outs q t ++ etoks (after q t) r
  | RLit s :: r | RQid s :: r => snd (step q "'") ++ TStr s :: etoks QN r
  end.

(* the values of a segmented text, in order; its shape = everything but the content of the values *)
Definition rvalues (p : rtext) : list string :=
  flat_map (fun x => match x with RLit s => [s] | _ => [] end) p.
Definition rqids (p : rtext) : list string :=
  flat_map (fun x => match x with RQid s => [s] | _ => [] end) p.
Definition erase1 (x : rpiece) : rpiece :=
  match x with RTxt t => RTxt t | RLit _ => RLit "" | RQid _ => RQid "" end.
Definition shape (p : rtext) : rtext := map erase1 p.

(* ---------- replacing the content of every value of a tree ---------- *)
(* [subst f e]: e with every StrV s replaced by StrV (f s).  With f = "replace the harmless marker by v" this is
   the tree the planner builds for the request string v from the tree it builds for the marker, wherever the
   planner treats the string as data (SqlPiecesProofs.pexpr_subst). *)
Section MAPSEL.
  Context {E : Type} (fe : E -> E).
  Definition map_opt (x : option E) : option E := match x with None => None | Some e => Some (fe e) end.
  Fixpoint map_sel (s : select_ E) : select_ E :=
    mkSel (s_distinct s) (map fe (s_cols s)) (map_opt (s_from s)) (map_opt (s_where s)) (map_opt (s_prewhere s))
          (map_opt (s_having s)) (map fe (s_groupby s)) (map fe (s_orderby s)) (map_opt (s_limit s)) (map_opt (s_offset s))
          ((fix go (ws : list (string * select_ E)) : list (string * select_ E) :=
              match ws with [] => [] | (a, q) :: r => (a, map_sel q) :: go r end) (s_withs s))
          (map (fun j => (fst (fst j), fe (snd (fst j)), map_opt (snd j))) (s_joins s))
          (s_settings s)
          ((fix go (us : list (select_ E)) : list (select_ E) :=
              match us with [] => [] | q :: r => map_sel q :: go r end) (s_unions s)).
End MAPSEL.

Fixpoint subst (f : string -> string) (e : expr) {struct e} : expr :=
  match e with
  | Raw s => Raw s
  | Id s => Id s
  | QRaw s => QRaw s
  | Idx x k => Idx (subst f x) (subst f k)
  | StrV s => StrV (f s)
  | IntV z => IntV z
  | FloatV t => FloatV t
  | BoolV b => BoolV b
  | DateV d => DateV d
  | LOp fn cl => LOp fn (map (subst f) cl)
  | Not x => Not (subst f x)
  | NotNull x => NotNull (subst f x)
  | In l r => In (subst f l) (map (subst f) r)
  | WRef a q => WRef a (map_sel (subst f) q)
  | Col x a => Col (subst f x) a
  | Ord x asc => Ord (subst f x) asc
  | CtxParam n d => CtxParam n d
  | Fn name args => Fn name (map (subst f) args)
  | Sep sep parts => Sep sep (map (subst f) parts)
  | BitSetAnd cl => BitSetAnd (map (subst f) cl)
  | WithId g => WithId (fun n => subst f (g n))
  | SubQ q => SubQ (map_sel (subst f) q)
  end.
Definition subst_sel (f : string -> string) (q : select) : select := map_sel (subst f) q.

(* the same replacement on a segmented text *)
Definition map_lit (f : string -> string) (x : rpiece) : rpiece :=
  match x with RLit s => RLit (f s) | y => y end.
Definition pm (f : string -> string) (p : rtext) : rtext := map (map_lit f) p.

(* the string literals of the statement: those inside the texts and, at each value piece, the value *)
Fixpoint elits (q : st) (p : rtext) : list string :=
  match p with
  | [] => lits (flush q)
  | RTxt t :: r => lits (outs q t) ++ elits (after q t) r
  | RLit s :: r | RQid s :: r => lits (snd (step q "'")) ++ s :: elits QN r
  end.
