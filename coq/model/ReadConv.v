(* C12 -- float -> int64 conversion of request parameters.

   Go: "if the value cannot be represented by the type the result is implementation-dependent" -- int64(f) for a NaN,
   an infinity or |f| >= 2^63 is 0x8000000000000000 on amd64 and saturates (NaN -> 0) on arm64.  The model does not pick:
   an undefined conversion yields ANY integer (a parameter of the functions below); the theorems hold for every choice
   and the correspondence harness passes the value its own platform produced.

   Sites (reader/controller):
     getRequiredNs        start / end of /loki/api/v1/query_range: strconv.ParseInt first (exact); else int64(f)
     parseDuration        step of every endpoint: time.Duration(d * 1e9), guarded by `ts > MaxInt64 || ts < MinInt64`
                          -- a NaN passes both comparisons, and float64(MaxInt64) is 2^63 itself
     int64(step * 1000)   after getRequiredDuration: |step| <= 9.3e9 s there, always in range
     ParseTimeSecOrRFC    start / end / time of the Prometheus endpoints: int64(t) for a text of digits and dots
     int64(req.Step)      Pyroscope SelectSeries: model/ReadProf.v (only printed into the statement)
   Tempo, label, series endpoints and the Loki instant `time` read integers with ParseInt: no conversion.

   This file: the Loki range controller at NANOSECOND granularity (model/ReadPath.v keeps whole seconds, which the
   generated requests of stream 1 always send): range_prelude_ns is prelude_of's range branch over the converted values,
   plan_ns is `plan` over nanoseconds with Go's truncating division. *)
From Coq Require Import List ZArith Bool.
From Qryn Require Import model.Pipeline model.ReadPath.
Import ListNotations.
Open Scope Z_scope.

Inductive fnum :=
| FExact (v : Z)     (* the conversion is defined: v = the float truncated toward zero, -2^63 <= v < 2^63; or an integer literal *)
| FUndef.            (* NaN, +Inf, -Inf, |f| >= 2^63 *)

Inductive fparam := FpAbsent | FpBad | FpNum (f : fnum).

Definition conv (any : Z) (f : fnum) : Z := match f with FExact v => v | FUndef => any end.

(* Go's _from/d*d *)
Definition trunc_ns (t d : Z) : Z := if d <=? 0 then t else Z.quot t d * d.

Definition plan_ns (sh : shape) (q : request) (from_ns to_ns stepms lim : Z) : prelude :=
  if q_dur_s q <=? 0 then (match sh with ShRate | ShAggJson => PResp O5xx | _ =>
        PRun sh (mkP (mkFp 0 0 1 1) lim 0 0 (q_instant q)) end)
  else
  let dur := q_dur_s q * 1000000000 in
  let fx := mkFp from_ns to_ns (stepms * 1000000) dur in
  let afrom := trunc_ns from_ns dur in
  let ato := trunc_ns to_ns dur + dur in
  let slen := Z.quot (ato - afrom) dur in
  let points := Z.quot (f_to fx - f_from fx) (f_step fx) in
  match sh with
  | ShAggJson => if int64_limit <=? f_to fx - f_from fx then PResp O5xx
                 else if max_points <? points then PResp O5xx
                 else if max_windows <? slen then PResp O5xx
                 else if q_query_err q then PResp O5xx
                 else PRun sh (mkP fx lim afrom slen (q_instant q))
  | ShRate => if int64_limit <=? f_to fx - f_from fx then PResp O5xx
              else if max_points <? points then PResp O5xx
              else if q_query_err q then PResp O5xx else PRun sh (mkP fx lim afrom slen (q_instant q))
  | _ => if q_query_err q then PResp O5xx else PRun sh (mkP fx lim afrom slen (q_instant q))
  end.

(* QueryRange: start / end through getRequiredNs; any_s / any_e = what an undefined conversion yields.
   The step of q is the duration parseDuration produced, in ms (PBad: refused; an undefined conversion there: any_step) *)
Definition range_prelude_ns (q : request) (s e : fparam) (step : fparam) (any_s any_e any_step : Z) : prelude :=
  if negb (q_has_query q) then PResp O4xx else
  match s, e with
  | FpNum fs, FpNum fe =>
    let start := conv any_s fs in
    let end_ := conv any_e fe in
    match (match step with FpAbsent => Some 1000 | FpBad => None | FpNum f => Some (conv any_step f) end) with
    | None => PResp O4xx
    | Some ms =>
      if limit_of 0 (q_limit q) <? 0 then PResp O4xx else
      if ms <=? 0 then PResp O4xx else
      if end_ <? start then PResp O4xx else
      match q_shape q with
      | None => PResp O5xx
      | Some sh => if q_boot_fail q then PResp O5xx else plan_ns sh q start end_ ms (limit_of 0 (q_limit q))
      end
    end
  | _, _ => PResp O4xx
  end.

Definition range_outcome_ns (q : request) (s e step : fparam) (any_s any_e any_step : Z) : oclass :=
  match range_prelude_ns q s e step any_s any_e any_step with
  | PResp c => c
  | PRun sh c => class_of_run (fst (run run_fuel false (cells (init_config (cursor_rows q) (stages_of sh c)))))
  end.

(* ------------------------------------------------------------------ correspondence cases *)
Record ccase := mkCC { cc_id : Z; cc_req : request; cc_start : fparam; cc_end : fparam; cc_step : fparam;
                       cc_any_s : Z; cc_any_e : Z; cc_any_step : Z; cc_obs : Z }.
Definition cpredicted (c : ccase) : Z :=
  code_of (range_outcome_ns (cc_req c) (cc_start c) (cc_end c) (cc_step c) (cc_any_s c) (cc_any_e c) (cc_any_step c)).
Definition cmismatches (cs : list ccase) : list Z := map cc_id (filter (fun c => negb (Z.eqb (cpredicted c) (cc_obs c))) cs).
Definition cspec_violations (cs : list ccase) : list Z := map cc_id (filter (fun c => negb (spec_ok (cc_obs c))) cs).
