(* Property C05 -- no request body can crash or wedge the ingest side.
   Executable model (definitions only; proofs in proofs/IngestRobustProofs.v) of the LOGIC that decides
   whether a request to the writer is answered, crashes the process or never returns:

     1. the goroutine inventory of writer/ (record type of the generated list gen/GenGoroutinesWriter.v,
        the allow-list of goroutines that run without a deferred recover and why that is safe);
     2. controller/builder.go ErrorHandler as an interpreter over a branch list (the generated
        gen_error_handler must equal error_handler_model);
     3. the hand-written loops: unmarshal.ns, unmarshal.fastFillArray, impl.fastFill (dead code);
     4. what happens after the wire decoders: onSpan / onEntries / onProfile batching, the five
        doPush -> InsertServiceV2.Request -> ProcessRequest calls (where ColFixedStr.Append and the
        MLabels[i] index can panic in a goroutine without recover), doParse's status;
     5. the per-route request pipeline (Content-Encoding, Content-Type dispatch, query parameters,
        snappy limit) over an abstract request whose wire-level validity is an input bit
        (third-party decoders are exercised by the harness, not modelled).

   Numbers that come from data (lengths of ids, sizes, timestamps) are N/Z; nat is used for string
   positions and fuel only.  uint64 timestamps are modelled by N: ns never overflows (ns_below_2_64). *)
From Coq Require Import List String Ascii ZArith NArith Bool.
Import ListNotations.
Open Scope string_scope.

(* ------------------------------------------------------------------------------------------ *)
(** * 1. Goroutine inventory *)

Record goroutine := {
  g_file : string;      (* path below writer/ *)
  g_func : string;      (* enclosing function (Type.method) or package-level variable *)
  g_ord : Z;            (* ordinal of the go statement inside it *)
  g_target : string;    (* "func-literal" or the name of the function started *)
  g_recovers : bool     (* the spawned body begins with a deferred recover (tamePanic) *)
}.

(* why a goroutine may run without recover *)
Inductive cover :=
| CoverPush         (* body = retry(svc.Request(req)); theorem push_goroutine_panic_free *)
| CoverDrain        (* body = `for range res {}`: no operation that can panic *)
| CoverSendClose    (* body = send one value on the channel made two lines above, close it once *)
| CoverInsertLoop   (* Run loops of the insert services: theorem insert_loop_panic_free (columns never nil/empty) *)
| CoverWaitGroup    (* body = defer wg.Done(); x.Run(): a wrapper around CoverInsertLoop bodies *)
| CoverBackground.  (* timers, metrics, log shipping, cache reset, watchdog: never touch request data (trusted) *)

Definition allow_list : list (string * string * Z * string * cover) := [
  ("controller/builder.go", "doPush", 0%Z, "func-literal", CoverPush);
  ("controller/builder.go", "doParse", 0%Z, "func-literal", CoverDrain);
  ("utils/unmarshal/builder.go", "parserDoer.Do", 0%Z, "func-literal", CoverSendClose);
  ("plugin/qryn_writer_db.go", "QrynWriterPlugin.CreateStaticServiceRegistry", 0%Z, "Run", CoverInsertLoop);
  ("plugin/qryn_writer_db.go", "QrynWriterPlugin.CreateStaticServiceRegistry", 1%Z, "Run", CoverInsertLoop);
  ("plugin/qryn_writer_db.go", "QrynWriterPlugin.CreateStaticServiceRegistry", 2%Z, "Run", CoverInsertLoop);
  ("plugin/qryn_writer_db.go", "QrynWriterPlugin.CreateStaticServiceRegistry", 3%Z, "Run", CoverInsertLoop);
  ("plugin/qryn_writer_db.go", "QrynWriterPlugin.CreateStaticServiceRegistry", 4%Z, "Run", CoverInsertLoop);
  ("plugin/qryn_writer_db.go", "QrynWriterPlugin.CreateStaticServiceRegistry", 5%Z, "Run", CoverInsertLoop);
  ("service/genericInsertService.go", "InsertServiceV2RoundRobin.Run", 0%Z, "func-literal", CoverWaitGroup);
  ("service/genericInsertService.go", "InsertServiceV2Multimodal.Run", 0%Z, "func-literal", CoverWaitGroup);
  ("service/genericInsertService.go", "InsertServiceV2Multimodal.Run", 1%Z, "func-literal", CoverWaitGroup);
  ("main_dev.go", "Init", 0%Z, "StartPushStat", CoverBackground);
  ("metric/metric.go", "Metric.Run", 0%Z, "func-literal", CoverBackground);
  ("metric/metric.go", "Metric.Run", 1%Z, "func-literal", CoverBackground);
  ("plugin/utils.go", "QrynWriterPlugin.logCHSetup", 0%Z, "func-literal", CoverBackground);
  ("utils/logger/logger.go", "qrynFormatter.Run", 0%Z, "func-literal", CoverBackground);
  ("utils/logger/logger.go", "qrynFormatter.Run", 1%Z, "func-literal", CoverBackground);
  ("utils/numbercache/cache.go", "NewCache", 0%Z, "func-literal", CoverBackground);
  ("watchdog/watchdog.go", "Init", 0%Z, "func-literal", CoverBackground)
].

(* the goroutines that run third-party decoders on request bytes: they MUST recover *)
Definition must_recover : list (string * string * Z) := [
  ("utils/unmarshal/builder.go", "parserDoer.doParseProfile", 0%Z);
  ("utils/unmarshal/builder.go", "parserDoer.doParseLogs", 0%Z);
  ("utils/unmarshal/builder.go", "parserDoer.doParseSpans", 0%Z)
].

Definition g_allowed (g : goroutine) : bool :=
  existsb (fun '(f, fn, o, t, _) =>
    String.eqb f (g_file g) && String.eqb fn (g_func g) && Z.eqb o (g_ord g) && String.eqb t (g_target g)) allow_list.

Definition goroutine_ok (g : goroutine) : bool := g_recovers g || g_allowed g.

Definition recovering_present (gs : list goroutine) (k : string * string * Z) : bool :=
  let '(f, fn, o) := k in
  existsb (fun g => String.eqb f (g_file g) && String.eqb fn (g_func g) && Z.eqb o (g_ord g) && g_recovers g) gs.

(* every goroutine either recovers or is allow-listed, and the decoder goroutines are there and recover *)
Definition inventory_ok (gs : list goroutine) : bool :=
  forallb goroutine_ok gs && forallb (recovering_present gs) must_recover.

Definition unaccounted (gs : list goroutine) : list goroutine := filter (fun g => negb (goroutine_ok g)) gs.

(* ------------------------------------------------------------------------------------------ *)
(** * 2. Errors and ErrorHandler *)

Inductive err_kind := KUnmarshal | KQryn | KPlain.
(* an error value as ErrorHandler sees it: the kind of the first typed error in its chain
   (errors.As), that error's code, and the text of err.Error() *)
Record error := { e_kind : err_kind; e_code : Z; e_msg : string }.

Inductive code_expr := CodeOfError | ConstCode (c : Z) | UnknownCode.
Inductive eh_action := Write (c : code_expr) | NoWrite.
Inductive eh_branch :=
| BrIs (k : err_kind) (a : eh_action)       (* if e, ok := Unwrap[T](err); ok { a; return } *)
| BrPrefix (p : string) (a : eh_action)     (* if strings.HasPrefix(err.Error(), p) { a; return } *)
| BrContains (p : string) (a : eh_action)   (* if strings.Contains(err.Error(), p) { a; return } *)
| BrDefault (a : eh_action)                 (* unconditional write at the end *)
| BrUnknown.                                (* a statement the translator does not understand *)

Definition err_kind_eqb (a b : err_kind) : bool :=
  match a, b with KUnmarshal, KUnmarshal | KQryn, KQryn | KPlain, KPlain => true | _, _ => false end.

(* Unwrap[*UnMarshalError] matches UnMarshalError only; Unwrap[IQrynError] matches both typed kinds *)
Definition unwrap_matches (target have : err_kind) : bool :=
  match target, have with
  | KUnmarshal, KUnmarshal => true
  | KQryn, KUnmarshal => true
  | KQryn, KQryn => true
  | _, _ => false
  end.

Definition act (a : eh_action) (e : error) : option Z :=
  match a with
  | NoWrite => None
  | Write CodeOfError => Some (e_code e)
  | Write (ConstCode c) => Some c
  | Write UnknownCode => None
  end.

(* strings.Contains *)
Fixpoint contains (p s : string) : bool :=
  prefix p s || match s with EmptyString => false | String _ r => contains p r end.

(* the status written for an error; None = nothing is written (net/http then answers 200 with an empty body) *)
Fixpoint eh_eval (bs : list eh_branch) (e : error) : option Z :=
  match bs with
  | [] => None
  | BrIs k a :: r => if unwrap_matches k (e_kind e) then act a e else eh_eval r e
  | BrPrefix p a :: r => if prefix p (e_msg e) then act a e else eh_eval r e
  | BrContains p a :: r => if contains p (e_msg e) then act a e else eh_eval r e
  | BrDefault a :: _ => act a e
  | BrUnknown :: _ => None
  end.

Definition reset_prefix : string := "connection reset by peer".

Definition error_handler_model : list eh_branch := [
  BrIs KUnmarshal (Write CodeOfError);
  BrIs KQryn (Write CodeOfError);
  BrPrefix reset_prefix NoWrite;
  BrDefault (Write (ConstCode 500))
].

Definition status_of_error (e : error) : option Z := eh_eval error_handler_model e.

Definition code_expr_eqb (a b : code_expr) : bool :=
  match a, b with
  | CodeOfError, CodeOfError => true
  | ConstCode x, ConstCode y => Z.eqb x y
  | UnknownCode, UnknownCode => true
  | _, _ => false
  end.
Definition eh_action_eqb (a b : eh_action) : bool :=
  match a, b with
  | Write x, Write y => code_expr_eqb x y
  | NoWrite, NoWrite => true
  | _, _ => false
  end.
Definition eh_branch_eqb (a b : eh_branch) : bool :=
  match a, b with
  | BrIs k x, BrIs k' y => err_kind_eqb k k' && eh_action_eqb x y
  | BrPrefix p x, BrPrefix q y => String.eqb p q && eh_action_eqb x y
  | BrContains p x, BrContains q y => String.eqb p q && eh_action_eqb x y
  | BrDefault x, BrDefault y => eh_action_eqb x y
  | BrUnknown, BrUnknown => true
  | _, _ => false
  end.
Fixpoint eh_eqb (a b : list eh_branch) : bool :=
  match a, b with
  | [], [] => true
  | x :: r, y :: r' => eh_branch_eqb x y && eh_eqb r r'
  | _, _ => false
  end.

Definition code_is_error_status (c : Z) : bool := (400 <=? c)%Z && (c <=? 599)%Z.

(* the errors the repository constructs *)
Definition e400 (m : string) : error := {| e_kind := KQryn; e_code := 400; e_msg := m |}.
Definition e_unmarshal (m : string) : error := {| e_kind := KUnmarshal; e_code := 400; e_msg := m |}.
Definition e_plain (m : string) : error := {| e_kind := KPlain; e_code := 0; e_msg := m |}.
(* tamePanic: fmt.Errorf("panic: %v", err) *)
Definition e_panic : error := e_plain "panic: recovered in the parser goroutine".

(* Untyped errors whose TEXT embeds client-controlled strings (fmt.Errorf("<head>%w|%s", ...)): the text is the
   literal head chosen by the repository followed by something the client influences.
     strconv.ParseUint's error is `strconv.ParseUint: parsing <strconv.Quote(s)>: invalid syntax`; Quote is modelled
     as plain double quotes (exact for printable ASCII without quote/backslash, which is what the generator sends). *)
Definition quoted (s : string) : string := """" ++ s ++ """".
Definition e_from (from : string) : error :=
  e_plain ("failed to parse start time: strconv.ParseUint: parsing " ++ quoted from ++ ": invalid syntax").
Definition e_until (until : string) : error :=
  e_plain ("failed to parse end time: strconv.ParseUint: parsing " ++ quoted until ++ ": invalid syntax").
(* parseLabelsLokiFormat: fmt.Errorf("unknown input: %s", labels[s.Offset:]) *)
Definition e_labels (rest : string) : error := e_plain ("unknown input: " ++ rest).

(* two texts part ways at a position both have: then neither `p` is a prefix of `h ++ anything` ... *)
Fixpoint diverge (p h : string) : bool :=
  match p, h with
  | String a p', String b h' => if Ascii.eqb a b then diverge p' h' else true
  | _, _ => false
  end.
(* an untyped-error construction site (generated list) cannot produce a text that begins with phrase p *)
Definition site_head (s : string * string * string * string * string) : string := let '(_, _, _, h, _) := s in h.
Definition site_cannot_start_with (p : string) (s : string * string * string * string * string) : bool :=
  diverge p (site_head s).
(* the literals that ErrorHandler prefix-matches error texts with *)
Fixpoint prefix_literals (bs : list eh_branch) : list string :=
  match bs with
  | [] => []
  | BrPrefix p _ :: r => p :: prefix_literals r
  | _ :: r => prefix_literals r
  end.
Fixpoint contains_literals (bs : list eh_branch) : list string :=
  match bs with
  | [] => []
  | BrContains p _ :: r => p :: contains_literals r
  | _ :: r => contains_literals r
  end.
Definition sites_safe (bs : list eh_branch) (sites : list (string * string * string * string * string)) : bool :=
  forallb (fun p => forallb (site_cannot_start_with p) sites) (prefix_literals bs)
  && match contains_literals bs with [] => true | _ => false end.

(* ------------------------------------------------------------------------------------------ *)
(** * 3. Hand-written loops *)

Open Scope N_scope.

(* unmarshal.ns AFTER the fix:  for timestamp > 0 && timestamp < 1e18 { timestamp *= 10 } ; None = still running *)
Fixpoint ns_fuel (fuel : nat) (t : N) : option N :=
  match fuel with
  | O => None
  | S f => if (0 <? t) && (t <? 10 ^ 18) then ns_fuel f (t * 10) else Some t
  end.
(* the loop as it was (defect 8): for timestamp < 1e18 { timestamp *= 10 } *)
Fixpoint ns_orig_fuel (fuel : nat) (t : N) : option N :=
  match fuel with
  | O => None
  | S f => if t <? 10 ^ 18 then ns_orig_fuel f (t * 10) else Some t
  end.
Definition ns_fuel_enough : nat := 19.

(* unmarshal.fastFillArray(len, val):  res := make([]T, len); if len == 0 { return res } (since 6469d55); res[0] = val;
   _len := 1; for _len < len { copy(res[_len:], res[:_len]); _len <<= 1 } *)
Fixpoint ffa_loop (fuel : nat) (cur len : N) : option N :=
  match fuel with
  | O => None
  | S f => if cur <? len then ffa_loop f (cur * 2) len else Some cur
  end.
Inductive loop_res := LDone | LPanic | LRunning.
Definition fast_fill_array (fuel : nat) (len : N) : loop_res :=
  if len =? 0 then LDone                       (* the guard of 6469d55: the empty slice is returned *)
  else match ffa_loop fuel 1 len with Some _ => LDone | None => LRunning end.
(* the function before 6469d55 (defect 28, fixed under C03): res[0] on an empty slice *)
Definition fast_fill_array_orig (fuel : nat) (len : N) : loop_res :=
  if len =? 0 then LPanic
  else match ffa_loop fuel 1 len with Some _ => LDone | None => LRunning end.
Definition ffa_fuel (len : N) : nat := S (N.to_nat (N.log2_up len)).

(* impl.fastFill(val, len) in service/impl/tempoInsertService.go (no call site):
   res[0] = val; for c := 1; c < len; c >>= 1 { copy(res[c:], res[:c]) }      -- c >>= 1 makes c = 0 *)
Fixpoint ff_loop (fuel : nat) (c len : N) : option N :=
  match fuel with
  | O => None
  | S f => if c <? len then ff_loop f (c / 2) len else Some c
  end.

(* ------------------------------------------------------------------------------------------ *)
(** * 4. After the decoders: batching handlers, doPush/Request/ProcessRequest, doParse *)

Definition MiB : N := 1048576.

(* requests handed to the insert services: only what can make ProcessRequest panic is kept *)
Record ts_cols := { tc_dates : N; tc_labels : N; tc_fps : N; tc_types : N }.
Inductive areq :=
| QTs (b : ts_cols)               (* *model.TimeSeriesData: lengths of MDate, MLabels, MFingerprint, MType *)
| QSpl (rows : N)                 (* *model.TimeSamplesData *)
| QSpans (ids : list (N * N))     (* *model.TempoSamples: (len trace_id, len span_id) per row *)
| QTags (ids : list (N * N))      (* *model.TempoTag *)
| QProf (rows : N).               (* *model.ProfileData *)

Inductive svc := STs | SSpl | STags | SSpans | SProf.

Inductive rres := ROk | RErr | RPanic.

(* ColFixedStr.Append panics unless len(v) == Size (16 for trace_id, 8 for span_id) *)
Definition id_ok (p : N * N) : bool := (fst p =? 16) && (snd p =? 8).
Definition fixed_append_panics (ids : list (N * N)) : bool := negb (forallb id_ok ids).

(* svc.columns = nil after `return 0, nil, err` (type assertion failed) *)
Record world := { w_ts_nil : bool; w_spl_nil : bool; w_tags_nil : bool; w_spans_nil : bool; w_prof_nil : bool }.
Definition world0 : world := {| w_ts_nil := false; w_spl_nil := false; w_tags_nil := false; w_spans_nil := false; w_prof_nil := false |}.
Definition cols_nil (w : world) (s : svc) : bool :=
  match s with STs => w_ts_nil w | SSpl => w_spl_nil w | STags => w_tags_nil w | SSpans => w_spans_nil w | SProf => w_prof_nil w end.
Definition set_nil (w : world) (s : svc) : world :=
  match s with
  | STs => {| w_ts_nil := true; w_spl_nil := w_spl_nil w; w_tags_nil := w_tags_nil w; w_spans_nil := w_spans_nil w; w_prof_nil := w_prof_nil w |}
  | SSpl => {| w_ts_nil := w_ts_nil w; w_spl_nil := true; w_tags_nil := w_tags_nil w; w_spans_nil := w_spans_nil w; w_prof_nil := w_prof_nil w |}
  | STags => {| w_ts_nil := w_ts_nil w; w_spl_nil := w_spl_nil w; w_tags_nil := true; w_spans_nil := w_spans_nil w; w_prof_nil := w_prof_nil w |}
  | SSpans => {| w_ts_nil := w_ts_nil w; w_spl_nil := w_spl_nil w; w_tags_nil := w_tags_nil w; w_spans_nil := true; w_prof_nil := w_prof_nil w |}
  | SProf => {| w_ts_nil := w_ts_nil w; w_spl_nil := w_spl_nil w; w_tags_nil := w_tags_nil w; w_spans_nil := w_spans_nil w; w_prof_nil := true |}
  end.
Definition world_ok (w : world) : bool :=
  negb (w_ts_nil w || w_spl_nil w || w_tags_nil w || w_spans_nil w || w_prof_nil w).

(* InsertServiceV2.Request -> processRequest of the five services (service/impl/*.go) *)
Definition a_request (w : world) (s : svc) (q : areq) : rres * world :=
  match s, q with
  | STs, QTs b =>
      if cols_nil w s then (RPanic, w)                        (* deserialize(nil): res[0] *)
      else if tc_labels b <? tc_dates b then (RPanic, w)      (* timeSeriesData.MLabels[i], i ranging over MDate *)
      else (ROk, w)
  | SSpl, QSpl _ => if cols_nil w s then (RPanic, w) else (ROk, w)
  | STags, QTags ids => if cols_nil w s then (RPanic, w) else if fixed_append_panics ids then (RPanic, w) else (ROk, w)
  | SSpans, QSpans ids => if cols_nil w s then (RPanic, w) else if fixed_append_panics ids then (RPanic, w) else (ROk, w)
  | SProf, QProf _ => if cols_nil w s then (RPanic, w) else (ROk, w)
  | _, _ => (RErr, set_nil w s)                                 (* `!ok`: return 0, nil, fmt.Errorf("invalid request ...") *)
  end.

(* one value on the parser's channel *)
Record presp := {
  p_err : option error;
  p_ts : option areq; p_spl : option areq; p_tags : option areq; p_spans : option areq; p_prof : option areq
}.
Definition resp_err (e : error) : presp := {| p_err := Some e; p_ts := None; p_spl := None; p_tags := None; p_spans := None; p_prof := None |}.
Definition resp_spans (spans attrs : list (N * N)) : presp :=
  {| p_err := None; p_ts := None; p_spl := None; p_tags := Some (QTags attrs); p_spans := Some (QSpans spans); p_prof := None |}.
Definition resp_logs (ts : ts_cols) (rows : N) : presp :=
  {| p_err := None; p_ts := Some (QTs ts); p_spl := Some (QSpl rows); p_tags := None; p_spans := None; p_prof := None |}.
Definition resp_prof (rows : N) : presp :=
  {| p_err := None; p_ts := None; p_spl := None; p_tags := None; p_spans := None; p_prof := Some (QProf rows) |}.

(* which services the route's middleware put in the request context
   (withTSAndSampleService: ts, samples, profile; withTracesService: span attrs, spans) *)
Record ctx := { has_ts : bool; has_spl : bool; has_tags : bool; has_spans : bool; has_prof : bool }.
Definition ctx_logs : ctx := {| has_ts := true; has_spl := true; has_tags := false; has_spans := false; has_prof := true |}.
Definition ctx_traces : ctx := {| has_ts := false; has_spl := false; has_tags := true; has_spans := true; has_prof := false |}.

(* doPush: req == nil || svc == nil -> fulfilled; else a goroutine WITHOUT recover runs svc.Request *)
Definition do_push (w : world) (present : bool) (s : svc) (q : option areq) : rres * world :=
  match q with
  | None => (ROk, w)
  | Some r => if present then a_request w s r else (ROk, w)
  end.

Definition worst (a b : rres) : rres :=
  match a, b with
  | RPanic, _ | _, RPanic => RPanic
  | RErr, _ | _, RErr => RErr
  | ROk, ROk => ROk
  end.

Definition push_resp (c : ctx) (w : world) (p : presp) : rres * world :=
  let '(r1, w1) := do_push w (has_ts c) STs (p_ts p) in
  let '(r2, w2) := do_push w1 (has_spl c) SSpl (p_spl p) in
  let '(r3, w3) := do_push w2 (has_tags c) STags (p_tags p) in
  let '(r4, w4) := do_push w3 (has_spans c) SSpans (p_spans p) in
  let '(r5, w5) := do_push w4 (has_prof c) SProf (p_prof p) in
  (worst r1 (worst r2 (worst r3 (worst r4 r5))), w5).

(* what doParse does with the channel: *)
Inductive parse_result :=
| PStatus (e : error)      (* first response carrying an error: returned to ErrorHandler at once *)
| PPushErr                 (* some promise resolved with an error (plain error -> 500) *)
| PDone                    (* every promise fulfilled: the PostRequest list writes the route's success status *)
| PCrash.                  (* a panic in a doPush goroutine: the process exits *)

Fixpoint do_parse (c : ctx) (w : world) (failed : bool) (rs : list presp) : parse_result * world :=
  match rs with
  | [] => (if failed then PPushErr else PDone, w)
  | p :: rest =>
      match p_err p with
      | Some e => (PStatus e, w)
      | None =>
          let '(r, w') := push_resp c w p in
          match r with
          | RPanic => (PCrash, w')
          | RErr => do_parse c w' true rest
          | ROk => do_parse c w' failed rest
          end
      end
  end.

(* ---- spans: parserDoer.onSpan (with the width check of fix 267315b) and doParseSpans ---- *)
Record span_in := {
  si_tid : N; si_sid : N;   (* len(traceId), len(spanId) as handed over by the decoder (0 for nil) *)
  si_keys : nat;            (* number of attribute keys (one attrs row each) *)
  si_bytes : N;             (* 49 + len(parentId) + len(name) + len(serviceName) + len(payload) *)
  si_abytes : N             (* sum over keys of 40 + len(k) + len(v) *)
}.
Record span_st := { ss_spans : list (N * N); ss_attrs : list (N * N); ss_size : N }.
Definition span_st0 : span_st := {| ss_spans := []; ss_attrs := []; ss_size := 0 |}.

Definition e_bad_ids : error := e400 "span rejected: trace id must be 16 bytes and span id 8 bytes".

Definition on_span (st : span_st) (r : span_in) : (span_st * list presp) + error :=
  if negb ((si_tid r =? 16) && (si_sid r =? 8)) then inr e_bad_ids
  else
    let id := (si_tid r, si_sid r) in
    let st1 := {| ss_spans := ss_spans st ++ [id]; ss_attrs := ss_attrs st ++ repeat id (si_keys r);
                  ss_size := ss_size st + si_bytes r + si_abytes r |} in
    if MiB <? ss_size st1 then inl (span_st0, [resp_spans (ss_spans st1) (ss_attrs st1)])
    else inl (st1, []).

(* the same handler without the check (the code before the fix): kept to state what the fix removed *)
Definition on_span_orig (st : span_st) (r : span_in) : (span_st * list presp) + error :=
  let id := (si_tid r, si_sid r) in
  let st1 := {| ss_spans := ss_spans st ++ [id]; ss_attrs := ss_attrs st ++ repeat id (si_keys r);
                ss_size := ss_size st + si_bytes r + si_abytes r |} in
  if MiB <? ss_size st1 then inl (span_st0, [resp_spans (ss_spans st1) (ss_attrs st1)])
  else inl (st1, []).

(* what a decoder does, span by span *)
Inductive span_event :=
| EvSpan (r : span_in)     (* calls onSpan *)
| EvPanic                  (* panics before onSpan (nil Resource, attribute without value ...): tamePanic *)
| EvErr (e : error).       (* returns an error *)

Section PARSE_SPANS.
  Variable handler : span_st -> span_in -> (span_st * list presp) + error.
  Fixpoint parse_spans_with (st : span_st) (evs : list span_event) : list presp :=
    match evs with
    | [] => [resp_spans (ss_spans st) (ss_attrs st)]       (* Decode returned nil: last response, close *)
    | EvPanic :: _ => [resp_err e_panic]
    | EvErr e :: _ => [resp_err e]
    | EvSpan r :: rest =>
        match handler st r with
        | inr e => [resp_err e]
        | inl (st', out) => out ++ parse_spans_with st' rest
        end
    end.
End PARSE_SPANS.
Definition parse_spans := parse_spans_with on_span.
Definition parse_spans_orig := parse_spans_with on_span_orig.

(* ---- logs/metrics: parserDoer.onEntries and doParseLogs ---- *)
Record entries_in := {
  ei_rows : N;       (* len(timestampsNS) = rows appended to the samples request *)
  ei_series : N;     (* (new day, present type) pairs: rows appended to ALL four time-series columns *)
  ei_bytes : N       (* size added *)
}.
Record logs_st := { ls_ts : ts_cols; ls_rows : N; ls_size : N }.
Definition ts0 : ts_cols := {| tc_dates := 0; tc_labels := 0; tc_fps := 0; tc_types := 0 |}.
Definition logs_st0 : logs_st := {| ls_ts := ts0; ls_rows := 0; ls_size := 0 |}.
Definition ts_add (t : ts_cols) (k : N) : ts_cols :=
  {| tc_dates := tc_dates t + k; tc_labels := tc_labels t + k; tc_fps := tc_fps t + k; tc_types := tc_types t + k |}.

Definition on_entries (st : logs_st) (r : entries_in) : logs_st * list presp :=
  let st1 := {| ls_ts := ts_add (ls_ts st) (ei_series r); ls_rows := ls_rows st + ei_rows r; ls_size := ls_size st + ei_bytes r |} in
  if MiB <? ls_size st1 then (logs_st0, [resp_logs (ls_ts st1) (ls_rows st1)]) else (st1, []).

Inductive logs_event := LvEntries (r : entries_in) | LvPanic | LvErr (e : error).

Fixpoint parse_logs (st : logs_st) (evs : list logs_event) : list presp :=
  match evs with
  | [] => [resp_logs (ls_ts st) (ls_rows st)]              (* tsSpl.flush() *)
  | LvPanic :: _ => [resp_err e_panic]
  | LvErr e :: _ => [resp_err e]
  | LvEntries r :: rest => let '(st', out) := on_entries st r in out ++ parse_logs st' rest
  end.

(* ---- profiles: parserDoer.onProfile (after a011b65) and doParseProfile ---- *)
Inductive prof_event := PvProfile (bytes : N) | PvPanic | PvErr (e : error).
Fixpoint parse_prof (rows : N) (evs : list prof_event) : list presp :=
  match evs with
  | [] => if 0 <? rows then [resp_prof rows] else []
  | PvPanic :: _ => [resp_err e_panic]
  | PvErr e :: _ => [resp_err e]
  | PvProfile b :: rest => if MiB <? b then resp_prof (rows + 1) :: parse_prof 0 rest else parse_prof (rows + 1) rest
  end.

Close Scope N_scope.

(* ------------------------------------------------------------------------------------------ *)
(** * 5. Requests, routes and the predicted outcome class *)

Inductive cls := C2xx | C4xx | C5xx | Crash | Hang.
Inductive expect :=
| Exact (c : cls)
| AnyError        (* 4xx or 5xx: which one is decided inside a third-party decoder *)
| AnyResponse.    (* byte-level fuzz cases: any response *)

Definition status_cls (s : option Z) : cls :=
  match s with
  | None => C2xx    (* nothing written: net/http answers 200 *)
  | Some c => if (c <? 300)%Z then C2xx else if (c <? 500)%Z then C4xx else C5xx
  end.

Definition cls_of_parse (r : parse_result) : cls :=
  match r with
  | PStatus e => status_cls (status_of_error e)
  | PPushErr => C5xx
  | PDone => C2xx
  | PCrash => Crash
  end.

(* ---- strings ---- *)
Definition is_digit (a : ascii) : bool := let n := N_of_ascii a in (48 <=? n)%N && (n <=? 57)%N.
Definition is_hex (a : ascii) : bool :=
  let n := N_of_ascii a in
  ((48 <=? n) && (n <=? 57) || (97 <=? n) && (n <=? 102) || (65 <=? n) && (n <=? 70))%N.
Definition chars (s : string) : list ascii := list_ascii_of_string s.

(* strconv.ParseUint(s, 10, 64) *)
Definition parse_uint64 (s : string) : option N :=
  let cs := chars s in
  match cs with
  | [] => None
  | _ => if forallb is_digit cs
         then let v := fold_left (fun acc a => (acc * 10 + (N_of_ascii a - 48))%N) cs 0%N in
              if (v <? 2 ^ 64)%N then Some v else None
         else None
  end.

(* strings.FieldsFunc(s, r == '=' || r == ','): number of fields *)
Definition is_sep (a : ascii) : bool := let n := N_of_ascii a in (n =? 61)%N || (n =? 44)%N.
Fixpoint fields_count (cs : list ascii) (in_word : bool) : nat :=
  match cs with
  | [] => O
  | a :: r => if is_sep a then fields_count r false
              else if in_word then fields_count r true else S (fields_count r true)
  end.

Inductive name_res := NameOk | NamePanic | NameErr.
(* i := strings.Index(name, "{"); if i >= 0 { promqllike := name[i+1 : length-1]; ... } *)
Definition name_labels (name : string) : name_res :=
  match index 0 "{" name with
  | None => NameOk
  | Some i =>
      let len := String.length name in
      if Nat.ltb (len - 1) (i + 1) then NamePanic            (* slice bounds out of range [i+1:len-1] *)
      else
        let inner := substring (i + 1) (len - 1 - (i + 1)) name in
        if Nat.eqb (String.length inner) 0 then NameOk
        else let sz := fields_count (chars inner) false in
             if Nat.eqb sz 0 || Nat.odd sz then NameErr else NameOk
  end.

(* ---- Content-Encoding (WithOverallContextMiddleware) ---- *)
Inductive ce_res := CeContinue | CeStatus (c : cls).
Definition content_encoding (ce : string) (gz_ok : bool) : ce_res :=
  if String.eqb ce "" then CeContinue
  else if String.eqb ce "gzip" then (if gz_ok then CeContinue else CeStatus C5xx)   (* gzip.NewReader error: plain *)
  else if String.eqb ce "snappy" then CeContinue
  else CeStatus C4xx.                                                              (* New400Error("... encoding not supported") *)

(* ---- /ingest ---- *)
Inductive ingest_parser := IPMultipart | IPBinary.
Definition ingest_select (ct : string) : option ingest_parser :=
  if prefix "multipart/form-data" ct then Some IPMultipart
  else if prefix "binary/octet-stream" ct then Some IPBinary
  else None.

Definition e_param : error := e_plain "failed to compile labels".

(* pProfProtoDec.Decode / binaryStreamPProfProtoDec.Decode up to the body, as events for parse_prof;
   Hang = the ns loop does not return *)
Inductive decode_res := DEvents (evs : list prof_event) | DHang.
Definition ingest_decode (p : ingest_parser) (from until name : string) (wire_ok : bool) : decode_res :=
  match parse_uint64 from with
  | None => DEvents [PvErr (e_from from)]
  | Some start =>
      (* both decoders return the strconv error of `until` (the multipart one dropped it before the fix of
         pProfProtoDec.Decode: end stayed 0 and the request was answered 200 -- ingest_until_dropped_orig below) *)
      let endo := parse_uint64 until in
      match endo with
      | None => DEvents [PvErr (e_until until)]
      | Some en =>
          match name_labels name with
          | NamePanic => DEvents [PvPanic]
          | NameErr => DEvents [PvErr e_param]
          | NameOk =>
              match ns_fuel ns_fuel_enough start, ns_fuel ns_fuel_enough en with
              | Some _, Some _ => if wire_ok then DEvents [PvProfile 1000] else DEvents [PvErr (e_plain "failed to parse pprof")]
              | _, _ => DHang
              end
          end
      end
  end.

(* the multipart decoder as it was: `if err != nil { fmt.Errorf("failed to parse end time: %w", err) }` (no return) *)
Definition ingest_until_dropped_orig (p : ingest_parser) (until : string) : option N :=
  match parse_uint64 until with
  | Some e => Some e
  | None => match p with IPMultipart => Some 0%N | IPBinary => None end
  end.

Definition ingest_outcome (ct from until name : string) (wire_ok : bool) : cls :=
  (* withParserContext: errors.New("please provide ... value") *)
  if String.eqb from "" || String.eqb name "" || String.eqb until "" then C5xx
  else match ingest_select ct with
       | None => C4xx                                     (* New400Error("Content-Type not supported") *)
       | Some p =>
           match ingest_decode p from until name wire_ok with
           | DHang => Hang
           | DEvents evs => cls_of_parse (fst (do_parse ctx_logs world0 false (parse_prof 0 evs)))
           end
       end.

(* ---- Zipkin ---- *)
Inductive zfield := ZAbsent | ZStr (s : string) | ZNotStr.
Inductive ztime := TAbsent | TNum | TStrNum | TStrBad | TOther.
Record zspan := { z_tid : zfield; z_sid : zfield; z_pid : zfield; z_ts : ztime; z_dur : ztime }.

(* decodeHexStr(hexStr, leng): "" -> 400; shorter: left-padded with '0'; longer: cut; hex.Decode *)
Inductive hex_res := HexNone | HexBytes (n : N) | HexErr.
Definition decode_hex (f : zfield) (leng : nat) : hex_res :=
  match f with
  | ZAbsent => HexNone
  | ZNotStr => HexErr
  | ZStr s => if Nat.eqb (String.length s) 0 then HexErr
              else if forallb is_hex (firstn leng (chars s)) then HexBytes (N.of_nat (Nat.div leng 2)) else HexErr
  end.
Definition time_ok (t : ztime) : bool := match t with TStrBad | TOther => false | _ => true end.

Definition e_json : error := e_unmarshal "json parse error".

(* decodeSpan: returns the widths of the ids seen (0 = nil) or an error. Both decoders reset their state
   before every span (array decoder: always; ND decoder: since 15d1fa4), so nothing is inherited. *)
Definition decode_zspan (s : zspan) : (N * N) + error :=
  match decode_hex (z_tid s) 32, decode_hex (z_sid s) 16, decode_hex (z_pid s) 16 with
  | HexErr, _, _ | _, HexErr, _ | _, _, HexErr => inr e_json
  | t, i, _ =>
      if time_ok (z_ts s) && time_ok (z_dur s)
      then inl (match t with HexBytes n => n | _ => 0%N end, match i with HexBytes n => n | _ => 0%N end)
      else inr e_json
  end.

Definition zspan_in (ids : N * N) : span_in :=
  {| si_tid := fst ids; si_sid := snd ids; si_keys := 4; si_bytes := 400; si_abytes := 240 |}.

(* nd: newline-delimited decoder (one object per line) or array decoder: same per-span logic *)
Fixpoint zipkin_events (nd : bool) (spans : list zspan) : list span_event :=
  match spans with
  | [] => []
  | s :: rest =>
      match decode_zspan s with
      | inr e => [EvErr e]
      | inl ids => EvSpan (zspan_in ids) :: zipkin_events nd rest
      end
  end.

Definition zipkin_outcome (nd : bool) (spans : list zspan) : cls :=
  cls_of_parse (fst (do_parse ctx_traces world0 false (parse_spans span_st0 (zipkin_events nd spans)))).

(* ---- OTLP traces ---- *)
Record ospan := { o_tid : N; o_sid : N; o_nilattr : bool }.
Record ores := { r_has_resource : bool; r_spans : list ospan }.

Definition ospan_event (has_resource : bool) (s : ospan) : span_event :=
  (* [has_resource] no longer matters: res.GetResource().GetAttributes() reads an absent resource message as a resource without
     attributes (repaired in /repo by builder C06, defect otlp-group-without-resource; until then res.Resource.Attributes = nil pointer) *)
  if o_nilattr s then EvPanic                   (* kv.Value.Value: nil pointer *)
  else EvSpan {| si_tid := o_tid s; si_sid := o_sid s; si_keys := 4; si_bytes := 300; si_abytes := 240 |}.

Definition otlp_events (rs : list ores) : list span_event :=
  flat_map (fun r => map (ospan_event (r_has_resource r)) (r_spans r)) rs.

Definition otlp_outcome (rs : list ores) : cls :=
  cls_of_parse (fst (do_parse ctx_traces world0 false (parse_spans span_st0 (otlp_events rs)))).

(* ---- snappy block bodies (withUnsnappyRequest) ---- *)
Inductive snappy_d := SnOk | SnTooLong | SnCorrupt.
Definition snappy_limit : Z := 10485760.
(* which bytes reach the protobuf decoder: the decoded ones, or the compressed ones as they came *)
Definition unsnappy_decodes (s : snappy_d) : bool := match s with SnOk => true | _ => false end.
Definition proto_logs_outcome (accepted : bool) : cls :=
  if accepted then cls_of_parse (fst (do_parse ctx_logs world0 false (parse_logs logs_st0
                      [LvEntries {| ei_rows := 2; ei_series := 1; ei_bytes := 100 |}])))
  else cls_of_parse (PStatus (e_plain "proto: cannot parse invalid wire-format data")).
(* lbl_tail: Loki protobuf push only. The stream's label string is `{job="a" <lbl_tail>}`; a non-empty tail (not
   starting with a comma) makes parseLabelsLokiFormat fail with the untyped `unknown input: <lbl_tail>}` *)
Definition snappy_outcome (s : snappy_d) (inner_ok fallback_parses : bool) (lbl_tail : string) : cls :=
  if (if unsnappy_decodes s then inner_ok else fallback_parses)
  then (if String.eqb lbl_tail "" then proto_logs_outcome true
        else cls_of_parse (PStatus (e_labels (lbl_tail ++ "}"))))
  else proto_logs_outcome false.

(* ---- influx ---- *)
Definition precision_ok (p : string) : bool :=
  String.eqb p "" || String.eqb p "ns" || String.eqb p "us" || String.eqb p "ms" || String.eqb p "s".

(* ---- the abstract request ---- *)
Inductive body_d :=
| BIngest (from until name : string)
| BZipkin (nd : bool) (spans : list zspan)
| BOtlp (rs : list ores)
| BSnappy (s : snappy_d) (fallback_parses : bool) (lbl_tail : string)
| BInflux (precision : string)
| BLokiJson (bad_ts : bool)
| BBytes.      (* byte-level fuzz case: nothing is predicted *)

Record request := {
  q_ce : string; q_gz_ok : bool;   (* Content-Encoding header; for gzip: the header parses *)
  q_ct : string;                   (* Content-Type header *)
  q_wire_ok : bool;                (* the route's third-party wire decoder accepts the body *)
  q_body : body_d
}.

Definition route_outcome (q : request) : expect :=
  match q_body q with
  | BBytes => AnyResponse
  | BIngest from until name => Exact (ingest_outcome (q_ct q) from until name (q_wire_ok q))
  | BZipkin nd spans => if q_wire_ok q then Exact (zipkin_outcome nd spans) else AnyError
  | BOtlp rs => if q_wire_ok q then Exact (otlp_outcome rs)
                else Exact (cls_of_parse (PStatus (e_plain "proto: cannot parse invalid wire-format data")))
  | BSnappy s fb tail => Exact (snappy_outcome s (q_wire_ok q) fb tail)
  | BInflux p => if precision_ok p then (if q_wire_ok q then Exact (proto_logs_outcome true) else AnyError)
                 else Exact C4xx
  | BLokiJson bad_ts => if bad_ts then Exact (cls_of_parse (PStatus e_json))
                        else if q_wire_ok q then Exact (proto_logs_outcome true) else AnyError
  end.

(* /ingest checks its query parameters (withParserContext) only after the Content-Encoding middleware *)
Definition predict (q : request) : expect :=
  match q_body q with
  | BBytes => AnyResponse
  | _ => match content_encoding (q_ce q) (q_gz_ok q) with
         | CeStatus c => Exact c
         | CeContinue => route_outcome q
         end
  end.

(* ---- which abstract requests are malformed (independent of the pipeline: a description of the INPUT) ---- *)
Definition is_error_cls (c : cls) : bool := match c with C4xx | C5xx => true | _ => false end.
Definition expect_is_error (e : expect) : bool :=
  match e with Exact c => is_error_cls c | AnyError => true | AnyResponse => false end.

(* a Zipkin span is malformed when a field cannot be decoded or an id is missing *)
Definition zspan_malformed (s : zspan) : bool :=
  match decode_zspan s with inr _ => true | inl ids => negb (id_ok ids) end.
(* an OTLP span is malformed when an attribute has no value or an id has the wrong width (an absent resource message is legal
   protobuf and legal OTLP -- "if this field is not set then no resource info is known" -- and is accepted since the repair) *)
Definition ospan_malformed (has_resource : bool) (s : ospan) : bool :=
  o_nilattr s || negb (id_ok (o_tid s, o_sid s)).
Definition name_ok (name : string) : bool := match name_labels name with NameOk => true | _ => false end.
Definition ingest_malformed (ct from until name : string) (wire_ok : bool) : bool :=
  String.eqb from "" || String.eqb name "" || String.eqb until ""
  || match ingest_select ct with
     | None => true
     | Some p =>
         match parse_uint64 from with None => true | Some _ =>
           (match parse_uint64 until with None => true | Some _ => false end)
           || negb (name_ok name) || negb wire_ok
         end
     end.

Definition body_malformed (q : request) : bool :=
  match q_body q with
  | BBytes => false
  | BIngest from until name => ingest_malformed (q_ct q) from until name (q_wire_ok q)
  | BZipkin _ spans => negb (q_wire_ok q) || existsb zspan_malformed spans
  | BOtlp rs => negb (q_wire_ok q) || existsb (fun r => existsb (ospan_malformed (r_has_resource r)) (r_spans r)) rs
  | BSnappy s fb tail => negb (if unsnappy_decodes s then q_wire_ok q else fb) || negb (String.eqb tail "")
  | BInflux p => negb (precision_ok p) || negb (q_wire_ok q)
  | BLokiJson bad_ts => bad_ts || negb (q_wire_ok q)
  end.

Definition malformed (q : request) : bool :=
  match q_body q with
  | BBytes => false
  | _ => match content_encoding (q_ce q) (q_gz_ok q) with
         | CeStatus _ => true                    (* unsupported or undecodable Content-Encoding *)
         | CeContinue => body_malformed q
         end
  end.

(* ------------------------------------------------------------------------------------------ *)
(** * 6. Observations, correspondence and the specification oracle *)

Inductive outcome := O2xx | O4xx | O5xx | OCrash | OHang | OLeak | OAbort | OOther.
Record obs := {
  ob_outcome : outcome;
  ob_canary_ok : bool;     (* the follow-up well-formed request (when sent) was answered 2xx *)
  ob_alloc_kb : Z;         (* bytes allocated while serving, KiB *)
  ob_body_kb : Z;          (* size of the request body, KiB *)
  ob_decoded_kb : Z;       (* size of what its Content-Encoding decodes to, KiB (the body itself without one); measured by the harness *)
  ob_limit_kb : Z          (* the decoded-size limit the server was configured with (pbPool.limit = input_buffer_mb / 2), KiB *)
}.
Record case := { c_id : Z; c_req : request; c_obs : obs }.

Definition accepts (e : expect) (o : outcome) : bool :=
  match e, o with
  | Exact C2xx, O2xx | Exact C4xx, O4xx | Exact C5xx, O5xx | Exact Crash, OCrash | Exact Hang, OHang => true
  | AnyError, O4xx | AnyError, O5xx => true
  | AnyResponse, O2xx | AnyResponse, O4xx | AnyResponse, O5xx => true
  | _, _ => false
  end.

Definition responded (o : outcome) : bool := match o with O2xx | O4xx | O5xx => true | _ => false end.

(* allocation allowed for one request: a constant plus a multiple of the body (decoders copy and expand);
   a snappy header may DECLARE up to 4 GiB in 5 bytes -- that must not be allocated *)
Definition alloc_bound_kb (body_kb : Z) : Z := (65536 + 64 * body_kb)%Z.
(* the bytes the server agrees to look at for one request: the body on the wire, or -- under a Content-Encoding -- what it
   decodes to, up to the configured limit (helpers.LimitDecoded hands no more than that to the route).  The allowance
   is taken on this size: it does not grow with the compression ratio beyond the operator's limit. *)
(* fourth session: the limiter stands in front of bodies without Content-Encoding too (fix 4): the server looks at no
   more than the limit whatever the client sends; served_kb_v3 is the allowance of the third session (the whole wire size) *)
Definition served_kb_v3 (ob : obs) : Z := Z.max (ob_body_kb ob) (Z.min (ob_decoded_kb ob) (ob_limit_kb ob)).
Definition served_kb (ob : obs) : Z :=
  if (0 <? ob_limit_kb ob)%Z then Z.min (Z.max (ob_body_kb ob) (ob_decoded_kb ob)) (ob_limit_kb ob) else served_kb_v3 ob.

(* size limit on snappy bodies: a block that declares more than the limit and whose decoded form WOULD be
   accepted must not be accepted (unless its compressed bytes happen to be a message themselves) *)
Definition snappy_limit_respected (q : request) (o : outcome) : bool :=
  match q_body q, o with
  | BSnappy SnTooLong false _, O2xx => false
  | _, _ => true
  end.

(* the property's boolean oracle over what was OBSERVED *)
(* "malformed or hostile input is answered with an error status" *)
Definition malformed_rejected (q : request) (o : outcome) : bool :=
  match o with O2xx => negb (malformed q) | _ => true end.

Definition spec_ok (q : request) (ob : obs) : bool :=
  responded (ob_outcome ob) && ob_canary_ok ob
  && (ob_alloc_kb ob <=? alloc_bound_kb (served_kb ob))%Z
  && snappy_limit_respected q (ob_outcome ob)
  && malformed_rejected q (ob_outcome ob).

Definition model_mismatch (c : case) : bool := negb (accepts (predict (c_req c)) (ob_outcome (c_obs c))).
Definition spec_violation (c : case) : bool := negb (spec_ok (c_req c) (c_obs c)).
Definition mismatches (cs : list case) : list Z := map c_id (filter model_mismatch cs).
Definition spec_violations (cs : list case) : list Z := map c_id (filter spec_violation cs).
