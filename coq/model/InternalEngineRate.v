(* C09, round 6: the number a LogQL rate divides by, on both engines.  Definitions only.
   In process (planner_lra.go / planner_unwrap_agg.go finalize): float64(Duration.Nanoseconds()) / 1e9 = InternalEngine.dur_seconds.
   ClickHouse path (clickhouse_planner secondsText, C08's model LogqlPlan.secs_text): the decimal literal "%d.%09d" of
   d/Second, d%Second with trailing zeros and a trailing dot trimmed ("1.5", "0.0015", "5").
   Here: what such a literal denotes as a rational (dec_q), and the divisors over the rationals, so that the proofs can
   say "both engines divide by the range in seconds" -- and name the two truncations that do not (whole seconds: seed C09-f;
   whole milliseconds: the code before /repo 593a272). *)
From Coq Require Import List ZArith NArith QArith Bool String Ascii.
From Qryn Require Import lib.Strs lib.DecN model.LogqlPlan model.InternalEngine.
Import ListNotations.
Open Scope string_scope.

(* the text before the first '.', and the text behind it when there is one *)
Fixpoint split_dot (s : string) : string * option string :=
  match s with
  | EmptyString => (EmptyString, None)
  | String c r => if Ascii.eqb c "."%char then (EmptyString, Some r)
                  else let p := split_dot r in (String c (fst p), snd p)
  end.


(* the rational a decimal literal denotes: digits, or digits '.' digits (at least one digit on either side) *)
Definition dec_q (s : string) : option Q :=
  match split_dot s with
  | (i, None) => match N_of_dec i with Some n => Some (inject_Z (Z.of_N n)) | None => None end
  | (i, Some f) =>
    match N_of_dec i, N_of_dec f with
    | Some n, Some m => Some (inject_Z (Z.of_N n) + Qmake (Z.of_N m) (Z.to_pos (10 ^ Z.of_nat (String.length f))))%Q
    | _, _ => None
    end
  end.

(* the divisors over the rationals (V := Q, vdiv := Qdiv, vofZ := inject_Z); dur = the range in nanoseconds *)
Definition range_seconds_q (dur : Z) : Q := dur_seconds Q Qdiv inject_Z dur.          (* the code since 593a272, and the reference *)
Definition whole_ms_seconds_q (dur : Z) : Q := dur_seconds_ms Q Qdiv inject_Z dur.    (* float64(Duration.Milliseconds()) / 1000 *)
Definition whole_seconds_q (dur : Z) : Q := inject_Z (Z.quot dur 1000000000).        (* float64(Duration / time.Second): seed C09-f *)
