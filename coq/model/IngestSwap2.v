(* C01/C02: the TWO-STEP swap, a refuted variant of model/Ingest.v.

   InsertServiceV2.swapBuffers (writer/service/genericInsertService.go) takes the waiting promises, the accounted size AND the column
   set in ONE hold of svc.mtx; acquireColumns() -- the column pools of all services sit behind one package mutex -- is called inside that
   hold.  model/Ingest.v has it as the single step SSwap, and translate/gen_c01_regions checks on every run that the source still has
   exactly that one region (model/IngestRegions.v regions_ok, swap_fresh).

   The variant below is what the code becomes when the hold is split "so that requests do not queue behind the pool mutex" (seeded
   change C02-f): a first critical section takes svc.results / svc.size and restarts the push timer (ATake), the next column set is
   acquired with the mutex RELEASED, a second critical section installs it and hands out the old columns (AInstall).  Every other step
   is the step of the unchanged model (A1).  Between ATake and AInstall the Run goroutine is inside swapBuffers: it neither pings nor
   dials nor starts another swap; Request, PlanFlush and Stop come from other goroutines and are NOT excluded -- that is the window.

   A request served in the window appends its rows to the columns that AInstall is about to hand out (block N) and files its promise
   with svc.results, which ATake has already emptied: it is released with the outcome of block N+1.
   proofs/IngestSwap2Proofs.v: two_step_swap_refuted (both C01's and C02's monitors reject a run of the variant whose requests are
   tables), take_then_install_is_the_swap (without a step in the window the two halves ARE the step SSwap),
   windowless_variant_runs_are_model_runs.  The harness operation `mreq` (harness/cmd/ingest, OMidReq in model/IngestCases.v) drives
   the real service into exactly that window; variant_explains (model/IngestCases.v) tells whether what was observed is the variant's
   run, and the replay then names the action sequence.
   Executable definitions only. *)
From Coq Require Import List NArith ZArith Bool.
From Qryn Require Import model.Ingest model.PushHandler.
Import ListNotations.

(* the system, plus per worker what a swap in progress has taken (svc.results as they were) *)
Record gstate2 := { g_base : gstate; g_taken : list (nat * list (pid * req)) }.

Inductive gact2 :=
 | A1 (a : gact)          (* a step of the unchanged model (the one-step swap excepted: the variant does not have it) *)
 | ATake (s : nat)        (* takeWaiting(): lock; insertCtx re-armed; results, size taken and reset; unlock *)
 | AInstall (s : nat).    (* lock; columns := the set acquired meanwhile; the old columns + what ATake took = the portion; unlock *)

Definition taken_of (tk : list (nat * list (pid * req))) (s : nat) : option (list (pid * req)) :=
  match find (fun e => Nat.eqb (fst e) s) tk with Some e => Some (snd e) | None => None end.
Definition drop_taken (tk : list (nat * list (pid * req))) (s : nat) : list (nat * list (pid * req)) :=
  filter (fun e => negb (Nat.eqb (fst e) s)) tk.
Definition in_window (tk : list (nat * list (pid * req))) (s : nat) : bool :=
  match taken_of tk s with Some _ => true | None => false end.

(* steps of the unchanged model the variant cannot take: SSwap never; the steps of the Run goroutine of worker s not while that
   goroutine is between the two halves of its swap *)
Definition excluded (tk : list (nat * list (pid * req))) (a : gact) : bool :=
  match a with
  | GSvc s SSwap => true
  | GSvc s (SDial _) | GSvc s SPingFail | GSvc s SSend | GSvc s (SDoReturn _) => in_window tk s
  | _ => false
  end.

Definition put_svc (g : gstate) (s : nat) (sv : svc) : gstate := set_svcs g (upd s sv (svcs g)) (store g).

(* what ATake leaves in the service *)
Definition svc_taken (sv : svc) : svc :=
  {| kd := kd sv; grp := grp sv; maxq := maxq sv; cols := cols sv; size := 0; results := []; inflight := inflight sv;
     client := client sv; planned := false; running := running sv |}.
(* what AInstall leaves: fresh columns; the portion = the columns AS THEY ARE NOW and the waiters taken BEFORE *)
Definition svc_installed (sv : svc) (ws : list (pid * req)) : svc :=
  {| kd := kd sv; grp := grp sv; maxq := maxq sv; cols := empty_cols (kd sv); size := size sv; results := results sv;
     inflight := Some {| p_cols := cols sv; p_res := ws; p_sent := false |};
     client := client sv; planned := planned sv; running := running sv |}.

Definition gstep2 (x : gstate2) (a : gact2) : option (gstate2 * list event) :=
  match a with
  | A1 a =>
      if excluded (g_taken x) a then None
      else match gstep (g_base x) a with
           | Some (g', es) => Some ({| g_base := g'; g_taken := g_taken x |}, es)
           | None => None
           end
  | ATake s =>
      match nth_error (svcs (g_base x)) s with
      | Some sv =>
          if loop_ready sv && client sv && negb (in_window (g_taken x) s) then
            if is_nil (results sv)
            then Some ({| g_base := put_svc (g_base x) s (set_planned sv false); g_taken := g_taken x |}, [])
            else Some ({| g_base := put_svc (g_base x) s (svc_taken sv); g_taken := (s, results sv) :: g_taken x |}, [])
          else None
      | None => None
      end
  | AInstall s =>
      match nth_error (svcs (g_base x)) s, taken_of (g_taken x) s with
      | Some sv, Some ws =>
          Some ({| g_base := put_svc (g_base x) s (svc_installed sv ws); g_taken := drop_taken (g_taken x) s |}, [ESwap s])
      | _, _ => None
      end
  end.

Fixpoint grun2 (x : gstate2) (tr : list gact2) : option (gstate2 * list event) :=
  match tr with
  | [] => Some (x, [])
  | a :: tr' =>
      match gstep2 x a with
      | None => None
      | Some (x', e1) =>
          match grun2 x' tr' with
          | None => None
          | Some (x'', e2) => Some (x'', e1 ++ e2)
          end
      end
  end.

Definition ginit2 (cfg : list (kind * nat * Z)) (n : N) : gstate2 := {| g_base := ginit cfg n; g_taken := [] |}.

(* a variant trace without a window: every ATake that takes something is followed at once by its AInstall.  Such a trace is a trace
   of the unchanged model: the pair (or the lone ATake that found nobody waiting) becomes SSwap.  Whether an ATake takes something is
   read off the state the trace has reached. *)
Fixpoint windowless (x : gstate2) (tr : list gact2) : option (list gact) :=
  match tr with
  | [] => Some []
  | A1 a :: rest =>
      match gstep2 x (A1 a) with
      | Some (x', _) => match windowless x' rest with Some l => Some (a :: l) | None => None end
      | None => None
      end
  | ATake s :: rest =>
      match gstep2 x (ATake s) with
      | Some (x', _) =>
          if in_window (g_taken x') s then
            match rest with
            | AInstall s' :: rest' =>
                if Nat.eqb s s' then
                  match gstep2 x' (AInstall s) with
                  | Some (x'', _) => match windowless x'' rest' with Some l => Some (GSvc s SSwap :: l) | None => None end
                  | None => None
                  end
                else None
            | _ => None
            end
          else match windowless x' rest with Some l => Some (GSvc s SSwap :: l) | None => None end
      | None => None
      end
  | AInstall _ :: _ => None
  end.

(* ---------------------------------------------------------------- the witness: one samples worker, three requests of one row each.
   Request 1 waits; the flush is planned, the worker dials and takes what waits (request 1); request 2 is served in the window: its row 2
   joins row 1 in the columns, its promise is filed for the next block; the columns are installed, the block [1; 2] is sent and REFUSED:
   request 1 is told so, request 2 is not.  The next flush sends an empty block, which is accepted: request 2 is acknowledged -- its row
   was in no accepted INSERT. *)
Definition one_row (rid : N) : req := table_of (ncols KSamples) [rid].
Definition window_demo : list gact2 := [
  A1 (GEnvReq 0 KSamples 1 (one_row 1) 10);
  A1 (GSvc 0 SPlan); A1 (GSvc 0 (SDial true));
  ATake 0;
  A1 (GEnvReq 0 KSamples 2 (one_row 2) 10);
  AInstall 0;
  A1 (GSvc 0 SSend); A1 (GSvc 0 (SDoReturn false));
  A1 (GSvc 0 SPlan); A1 (GSvc 0 (SDial true));
  ATake 0; AInstall 0;
  A1 (GSvc 0 SSend); A1 (GSvc 0 (SDoReturn true))
].
Definition window_demo_cfg : list (kind * nat * Z) := [(KSamples, 0%nat, 0%Z)].
(* the same run with the request served before the swap starts: what the unchanged code does with the same requests and outcomes *)
Definition no_window_demo : list gact2 := [
  A1 (GEnvReq 0 KSamples 1 (one_row 1) 10);
  A1 (GSvc 0 SPlan); A1 (GSvc 0 (SDial true));
  ATake 0; AInstall 0;
  A1 (GEnvReq 0 KSamples 2 (one_row 2) 10);
  A1 (GSvc 0 SSend); A1 (GSvc 0 (SDoReturn false));
  A1 (GSvc 0 SPlan); A1 (GSvc 0 (SDial true));
  ATake 0; AInstall 0;
  A1 (GSvc 0 SSend); A1 (GSvc 0 (SDoReturn true))
].
