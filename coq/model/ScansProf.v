(* C13 for the Pyroscope (profile) read path: every base-table read of the statement a profile planner builds.
   The planners themselves are C14's transcription model/ReplanProf.v (pprocess over the planner objects of
   reader/prof/transpiler, prender = the text the reader sends); this file adds what C13 needs on top of it:
   the reads of a planner RESULT (a Select, or the unionAll wrapper whose other members live in ps_rest / ps_unions),
   ProfService.ProfileTypes (the one profile statement built outside the planners), the requests harness readscan
   sends as planner objects, and the case functions of the check.  Executable definitions only. *)
From Coq Require Import List ZArith NArith String Ascii Bool.
From Qryn Require Import lib.Strs lib.CivilDate model.Sql model.SqlRender model.Logql model.LogqlPlan model.PromSel model.ProfSel
  model.ReplanProf model.Scans.
Import ListNotations.
Open Scope string_scope.

(* every select a planner result consists of: the (first) select with its WITH list, the other members of a top-level
   UNION ALL, and the other members of every union kept under a WITH alias (Sql.v keeps only the first one there) *)
Definition rest_selects (r : presult) : list select :=
  (match ps_rest r with Some l => l | None => [] end ++ flat_map (fun u => snd u) (ps_unions r))%list.
Definition presult_scans (r : presult) : list scan :=
  (scans (ps_sel r) ++ flat_map scans (rest_selects r))%list.

(* the window of a profile planner context: timestamp_ns in [From, To] (the series planners write <= To), index
   dates from FormatFromDate(From) to day(To); profile tables carry no type column *)
Definition prctx_win (c : prctx) : window :=
  {| w_from := pr_from_ns c; w_to := pr_to_ns c; w_lo_min := pr_from_ns c; w_hi_max := pr_to_ns c; w_type := 0 |}.

(* ---------- ProfService.ProfileTypes (reader/service/profService.go): start / end arrive in milliseconds ---------- *)
Definition profile_types_query (table : string) (start_ms end_ms : Z) : select :=
  and_where [Ge (Id "date") (DateV (start_ms / 86400000)); Le (Id "date") (DateV (end_ms / 86400000))]
   (set_joins [("array", SimpleCol "sample_types_units" "sample_type_unit", None)]
    (set_from (Id table) (set_cols [Id "type_id"; Id "sample_type_unit"] (set_distinct true empty_select)))).
Definition ms_win (start_ms end_ms : Z) : window :=
  {| w_from := start_ms * 1000000; w_to := end_ms * 1000000; w_lo_min := start_ms * 1000000; w_hi_max := end_ms * 1000000; w_type := 0 |}.

(* ---------- the requests of harness readscan as planner objects (transpiler.go entry points) ---------- *)
Inductive preq :=
 | RLabelNames (scripts : list (list selector))
 | RLabelValues (scripts : list (list selector)) (label : string)
 | RMergeTraces (sels : list selector) (t : type_id)
 | RSelectSeries (sels : list selector) (t : type_id) (group_by : list string) (avg : bool) (step : Z)
 | RMergeProfiles (sels : list selector) (t : type_id)
 | RSeries (scripts : list (list selector)) (label_names : list string)
 | RAnalyze (sels : list selector).
Definition preq_plan (r : preq) : pplanner :=
  match r with
  | RLabelNames s => plan_label_names s
  | RLabelValues s l => plan_label_values s l
  | RMergeTraces s t => plan_merge_traces s t
  | RSelectSeries s t gb avg step => plan_select_series s t gb avg step
  | RMergeProfiles s t => plan_merge_profiles s t
  | RSeries s ln => plan_series s ln
  | RAnalyze s => plan_analyze s
  end.

(* tables.PopulateTableNames for the profile tables: single node / cluster with database name db *)
(* empties: the answers of acceptsAbsent for the regular expressions of the request (pr_empty, the oracle of prof_selector_abs) *)
Definition prof_ctx_e (cluster : bool) (db : string) (from_ns to_ns : Z) (empties : list (string * string * bool)) : prctx :=
  {| pr_from_ns := from_ns; pr_to_ns := to_ns; pr_limit := 0;
     pt_series_gin := "profiles_series_gin";
     pt_series_gin_dist := if cluster then "`" ++ db ++ "`." ++ "profiles_series_gin_dist" else "profiles_series_gin";
     pt_series := "profiles_series";
     pt_series_dist := if cluster then "`" ++ db ++ "`." ++ "profiles_series_dist" else "profiles_series";
     pt_profiles_dist := if cluster then "`" ++ db ++ "`." ++ "profiles_dist" else "profiles";
     pr_empty := empties |}.
Definition prof_ctx (cluster : bool) (db : string) (from_ns to_ns : Z) : prctx := prof_ctx_e cluster db from_ns to_ns [].

(* ---------- case functions (checks/c13.py) ---------- *)
Record pr_case := { prc_id : Z; prc_ctx : prctx; prc_req : preq; prc_sql : string }.
(* the text of the model's statement differs from the recorded one *)
Definition pr_mismatches (cs : list pr_case) : list Z :=
  flat_map (fun c => match pprocess (preq_plan (prc_req c)) (prc_ctx c) with
                     | Some r => match prender r with
                                 | Some t => if String.eqb t (prc_sql c) then [] else [prc_id c]
                                 | None => [prc_id c] end
                     | None => [prc_id c] end) cs.
(* the oracle rejects a read of the model's statement (never, by prof_every_scan_bounded; evaluated as a cross-check of
   the theorem's reading of presult_scans on the requests that were sent) *)
Definition pr_unbounded (cs : list pr_case) : list Z :=
  flat_map (fun c => match pprocess (preq_plan (prc_req c)) (prc_ctx c) with
                     | Some r => if forallb (scan_bounded_b table_info (prctx_win (prc_ctx c))) (presult_scans r) then [] else [prc_id c]
                     | None => [prc_id c] end) cs.
(* how many base-table reads the model's statements have (reported in the evidence) *)
Definition pr_nscans (cs : list pr_case) : list Z :=
  map (fun c => match pprocess (preq_plan (prc_req c)) (prc_ctx c) with
                | Some r => Z.of_nat (List.length (presult_scans r)) | None => (-1)%Z end) cs.

Record pt_case := { ptc_id : Z; ptc_table : string; ptc_start_ms : Z; ptc_end_ms : Z; ptc_sql : string }.
Definition pt_mismatches (cs : list pt_case) : list Z :=
  flat_map (fun c => match render (profile_types_query (ptc_table c) (ptc_start_ms c) (ptc_end_ms c)) false with
                     | Some t => if String.eqb t (ptc_sql c) then [] else [ptc_id c]
                     | None => [ptc_id c] end) cs.
