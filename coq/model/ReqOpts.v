(* Model of the request options that reach the ingest decoders (property C03): the glue between the HTTP request and the
   parser context, which the decoder model took as given numbers so far.
   - writer/controller/middleware.go WithOverallContextMiddleware: the X-Ttl-Days header text goes through
     strconv.ParseUint(text, 10, 16); an absent / empty / unreadable header is "no TTL" (0), the value is stored in the
     request context as TTL_DAYS and read by builder.go (ctx_ttl of Decode.v);
   - writer/controller/insertController.go PushInfluxV2: the precision query parameter ("" = ns | ns | us | ms | s, anything
     else answers 400 before the parser is started) becomes the time.Duration the Influx decoder multiplies with.
   Definitions only. *)
From Coq Require Import List ZArith NArith Bool Ascii String.
From Qryn Require Import gen.DecodeConsts model.Decode model.LokiTime.
Import ListNotations.
Open Scope Z_scope.

(* strconv.ParseUint(s, 10, 16): no sign, no underscore (base is not 0), at least one decimal digit, nothing else;
   a value above 65535 is a range error *)
Definition parse_uint16 (s : string) : option Z :=
  match s with
  | EmptyString => None
  | _ => match parse_digits s 0 with
         | Some v => if v <=? 65535 then Some v else None
         | None => None
         end
  end.

(* the header text as r.Header.Get returns it ("" when the header is absent): TTLDays stays 0 unless the text parses *)
Definition ttl_of_header (h : string) : N :=
  match parse_uint16 h with Some v => Z.to_N v | None => 0%N end.

(* the precision parameter in nanoseconds; None: the request is answered 400 "Invalid precision" *)
Definition precision_of_query (q : string) : option Z :=
  let q := if String.eqb q "" then "ns"%string else q in
  if String.eqb q "ns" then Some 1
  else if String.eqb q "us" then Some 1000
  else if String.eqb q "ms" then Some 1000000
  else if String.eqb q "s" then Some 1000000000
  else None.

(* what a client may write *)
Inductive punit := PAbsent | PNs | PUs | PMs | PS.
Definition punit_text (u : punit) : string :=
  match u with PAbsent => "" | PNs => "ns" | PUs => "us" | PMs => "ms" | PS => "s" end.
Definition punit_ns (u : punit) : Z :=
  match u with PAbsent | PNs => 1 | PUs => 1000 | PMs => 1000000 | PS => 1000000000 end.

(* the request as the routes handle it: options first, then the decoder with what they gave *)
Inductive req_result := Refused400 | Parsed (r : result).
Section REQUEST.
  Variable fp : labels -> N.
  Variable enc_len : labels -> Z.
  Variable CS : Type.
  Variable cache_add : CS -> Z -> N -> N -> CS * bool.
  Variable cache0 : CS.
  Variable threshold : Z.
  Variable flush_limit : N.
  (* any push route: the body is decoded under the TTL the header gives *)
  Definition push_request (hdr : string) (b : body) : result :=
    decode fp enc_len CS cache_add cache0 threshold flush_limit (ttl_of_header hdr) b.
  (* the Influx route *)
  Definition influx_request (hdr q : string) (ck : clock) (lines : list iline) : req_result :=
    match precision_of_query q with
    | None => Refused400
    | Some p => Parsed (push_request hdr (BInflux p ck lines))
    end.
End REQUEST.

(* ---------------------------------------------------------------- generated case files
   hdr / query: the texts of the request; status: the HTTP status of the real route (Influx route) or 0 when only the
   middleware ran; obs_ttl / obs_prec: TTL_DAYS and precision found in the request context afterwards (precision None:
   none was set); want_*: what the generator wrote the texts from (None: a text outside the written classes) *)
Record ocase := OC { oc_id : Z; oc_hdr : string; oc_query : string; oc_influx : bool; oc_status : Z;
                     oc_obs_ttl : N; oc_obs_prec : option Z; oc_stored : Z;
                     oc_want_ttl : option N; oc_want_prec : option (option Z) }.
Definition on_eqb (a b : option N) : bool :=
  match a, b with Some x, Some y => (x =? y)%N | None, None => true | _, _ => false end.
Definition oc_mismatch (c : ocase) : bool :=
  negb (N.eqb (ttl_of_header (oc_hdr c)) (oc_obs_ttl c)) ||
  (oc_influx c &&
   match precision_of_query (oc_query c) with
   | None => negb ((oc_status c =? 400) && oz_eqb (oc_obs_prec c) None && (oc_stored c =? 0))
   | Some p => negb ((oc_status c =? 204) && oz_eqb (oc_obs_prec c) (Some p))
   end).
(* the written classes: a header written from a number must give that number; a precision written as one of the units
   must give that unit and the request must be accepted; a refused request stores nothing *)
Definition oc_spec_violation (c : ocase) : bool :=
  match oc_want_ttl c with Some n => negb (N.eqb n (oc_obs_ttl c)) | None => false end ||
  (oc_influx c &&
   match oc_want_prec c with
   | Some (Some p) => negb ((oc_status c =? 204) && oz_eqb (oc_obs_prec c) (Some p))
   | _ => false
   end) ||
  (oc_influx c && negb ((200 <=? oc_status c) && (oc_status c <? 300)) && negb (oc_stored c =? 0)).
Definition oc_check_all (cs : list ocase) : list Z * list Z :=
  (map oc_id (filter oc_mismatch cs), map oc_id (filter oc_spec_violation cs)).
