(* Model of the request options that reach the ingest decoders (property C03): the glue between the HTTP request and the
   parser context, which the decoder model took as given numbers so far.
   - writer/controller/middleware.go WithOverallContextMiddleware: the X-Ttl-Days header text goes through
     strconv.ParseUint(text, 10, 16); an absent / empty / unreadable header is "no TTL" (0), the value is stored in the
     request context as TTL_DAYS and read by builder.go (ctx_ttl of Decode.v);
   - writer/controller/insertController.go PushInfluxV2: the precision query parameter ("" = ns | ns | us | ms | s, anything
     else answers 400 before the parser is started) becomes the time.Duration the Influx decoder multiplies with.
   Definitions only. *)
From Coq Require Import List ZArith NArith Bool Ascii String.
From Qryn Require Import gen.DecodeConsts model.Decode model.LokiTime.
Import ListNotations.
Open Scope Z_scope.

(* strconv.ParseUint(s, 10, 16): no sign, no underscore (base is not 0), at least one decimal digit, nothing else;
   a value above 65535 is a range error *)
Definition parse_uint16 (s : string) : option Z :=
  match s with
  | EmptyString => None
  | _ => match parse_digits s 0 with
         | Some v => if v <=? 65535 then Some v else None
         | None => None
         end
  end.

(* the header text as r.Header.Get returns it ("" when the header is absent): TTLDays stays 0 unless the text parses *)
Definition ttl_of_header (h : string) : N :=
  match parse_uint16 h with Some v => Z.to_N v | None => 0%N end.

(* the precision parameter in nanoseconds; None: the request is answered 400 "Invalid precision" *)
Definition precision_of_query (q : string) : option Z :=
  let q := if String.eqb q "" then "ns"%string else q in
  if String.eqb q "ns" then Some 1
  else if String.eqb q "us" then Some 1000
  else if String.eqb q "ms" then Some 1000000
  else if String.eqb q "s" then Some 1000000000
  else None.

(* what a client may write *)
Inductive punit := PAbsent | PNs | PUs | PMs | PS.
Definition punit_text (u : punit) : string :=
  match u with PAbsent => "" | PNs => "ns" | PUs => "us" | PMs => "ms" | PS => "s" end.
Definition punit_ns (u : punit) : Z :=
  match u with PAbsent | PNs => 1 | PUs => 1000 | PMs => 1000000 | PS => 1000000000 end.

(* the request as the routes handle it: options first, then the decoder with what they gave *)
Inductive req_result := Refused400 | Parsed (r : result).
Section REQUEST.
  Variable fp : labels -> N.
  Variable enc_len : labels -> Z.
  Variable CS : Type.
  Variable cache_add : CS -> Z -> N -> N -> CS * bool.
  Variable cache0 : CS.
  Variable threshold : Z.
  Variable flush_limit : N.
  (* any push route: the body is decoded under the TTL the header gives *)
  Definition push_request (hdr : string) (b : body) : result :=
    decode fp enc_len CS cache_add cache0 threshold flush_limit (ttl_of_header hdr) b.
  (* the Influx route *)
  Definition influx_request (hdr q : string) (ck : clock) (lines : list iline) : req_result :=
    match precision_of_query q with
    | None => Refused400
    | Some p => Parsed (push_request hdr (BInflux p ck lines))
    end.
End REQUEST.

(* ---------------------------------------------------------------- generated case files
   hdr / query: the texts of the request; influx = true: the request went through the real Influx route (status = its HTTP
   status, rows = the (timestamp, TTL) of the sample rows its insert service received), false: only the middleware ran;
   obs_ttl / obs_prec: TTL_DAYS and precision found in the request context afterwards (precision None: none was set);
   want_*: what the generator wrote the texts from (None: a text outside the written classes / a refused request) *)
Record ocase := OC { oc_id : Z; oc_hdr : string; oc_query : string; oc_influx : bool; oc_status : Z;
                     oc_obs_ttl : N; oc_obs_prec : option Z; oc_lines : list iline; oc_rows : list (Z * N);
                     oc_want_ttl : option N; oc_want_prec : option Z; oc_want_rows : option (list (Z * N)) }.
Fixpoint zn_eqb (a b : list (Z * N)) : bool :=
  match a, b with
  | [], [] => true
  | (x, m) :: a', (y, n) :: b' => (x =? y) && (m =? n)%N && zn_eqb a' b'
  | _, _ => false
  end.
(* the model of the route on the case's texts and lines, projected on what the harness observes of the stored rows; the
   fingerprint and the cache do not matter for this projection, lines carry their own timestamps (no clock reading) *)
Definition oc_model_rows (c : ocase) : option (list (Z * N)) :=
  match influx_request (fun _ => 0%N) (fun _ => 0) unit miss_cache tt THRESHOLD FLUSH_LIMIT (oc_hdr c) (oc_query c) (CK 0 0 []) (oc_lines c) with
  | Parsed (Done cs) => Some (map (fun r => (r_ts r, r_ttl r)) (rows_of cs))
  | _ => None
  end.
Definition accepted (c : ocase) : bool := (200 <=? oc_status c) && (oc_status c <? 300).
Definition oc_mismatch (c : ocase) : bool :=
  negb (N.eqb (ttl_of_header (oc_hdr c)) (oc_obs_ttl c)) ||
  (oc_influx c &&
   match precision_of_query (oc_query c), oc_model_rows c with
   | Some p, Some rows => negb ((oc_status c =? 204) && oz_eqb (oc_obs_prec c) (Some p) && zn_eqb rows (oc_rows c))
   | _, _ => negb ((oc_status c =? 400) && oz_eqb (oc_obs_prec c) None && zn_eqb [] (oc_rows c))
   end).
(* the written classes: a header written from a number gives that number; a precision written as one of the units gives
   that unit, the request is accepted and stores one row per line with the line's timestamp in that unit and the TTL of
   the header (or of the line's own __ttl_days__ tag); a request that is not accepted stores nothing *)
Definition oc_spec_violation (c : ocase) : bool :=
  match oc_want_ttl c with Some n => negb (N.eqb n (oc_obs_ttl c)) | None => false end ||
  (oc_influx c &&
   (match oc_want_prec c with Some p => negb (accepted c && oz_eqb (oc_obs_prec c) (Some p)) | None => false end ||
    match oc_want_rows c with Some rows => negb (accepted c && zn_eqb rows (oc_rows c)) | None => false end ||
    (negb (accepted c) && negb (zn_eqb [] (oc_rows c))))).
Definition oc_check_all (cs : list ocase) : list Z * list Z :=
  (map oc_id (filter oc_mismatch cs), map oc_id (filter oc_spec_violation cs)).

(* ---------------------------------------------------------------- the Cloudflare-Datadog route (PushCfDatadogV2)
   writer/controller/datadogController.go: ddsource := req.URL.Query().Get("ddsource"); "" becomes "unknown"; the decoder
   puts it in front of every line's labels *)
Definition ddsource_of_query (q : string) : string := if String.eqb q "" then "unknown"%string else q.
Section CFREQUEST.
  Variable fp : labels -> N.
  Variable enc_len : labels -> Z.
  Variable CS : Type.
  Variable cache_add : CS -> Z -> N -> N -> CS * bool.
  Variable cache0 : CS.
  Variable threshold : Z.
  Variable flush_limit : N.
  Definition cf_request (hdr q : string) (ck : clock) (lines : list cfline) : result :=
    push_request fp enc_len CS cache_add cache0 threshold flush_limit hdr (BCf (ddsource_of_query q) ck lines).
End CFREQUEST.

(* query: the ddsource parameter text ("" = absent); status: of the real route; obs: the ddsource label of the series row the
   route handed to its time-series service (None: the row has no such label / no row); want: the name the generator wrote *)
Record dcase := DC { dc_id : Z; dc_query : string; dc_status : Z; dc_obs : option string; dc_want : option string }.
Definition ostr_eqb (a b : option string) : bool :=
  match a, b with Some x, Some y => String.eqb x y | None, None => true | _, _ => false end.
Definition dc_mismatch (c : dcase) : bool :=
  negb ((dc_status c =? 202) && ostr_eqb (Some (ddsource_of_query (dc_query c))) (dc_obs c)).
Definition dc_spec_violation (c : dcase) : bool :=
  match dc_want c with Some s => negb (ostr_eqb (Some s) (dc_obs c)) | None => false end.
Definition dc_check_all (cs : list dcase) : list Z * list Z :=
  (map dc_id (filter dc_mismatch cs), map dc_id (filter dc_spec_violation cs)).
