(* C10 — LogQL requests that differ only in their string VALUES (model/Logql.v AST, model/LogqlPlan.v planner objects).

   A string of a LogQL request reaches the planners of clickhouse_planner in these roles:
     value      — printed through sql.NewStringVal (a StrV node): stream-selector label names and values, the string operand of a
                  label filter, the text of a line filter (or the literal extracted from its expression), the components of a json
                  path, the names and the expression of `| regexp`, the label and value of a `drop` parameter, by/without labels,
                  the unwrapped label, the text and the field names of a line_format template;
     identifier — spliced raw-quoted (QRaw): the label of a label filter (restricted by the LogQL lexer);
     number     — a numeric literal, printed as fmt "%f" text.
   Two requests are VARIANTS when they are the same request up to the content of the values.  The planners ask a handful of
   questions about a value (is the drop value empty, is the regex of a line filter one literal, how many groups does the
   `| regexp` expression name, how long is a json path, is the unwrapped label `_entry`): variants give the same answers.
   proofs/LogqlEraseProofs.v: variants are planned into trees with the same erasure.  Definitions only. *)
From Qryn Require Import lib.Strs model.Sql model.SqlRender.
From Coq Require Import List ZArith NArith String Ascii Bool.
From Qryn Require Import model.Logql model.LogqlRegexp model.LogqlTemplate model.LogqlPlan model.ChLex model.SqlPieces
  model.SqlPiecesCases model.SqlPiecesSel.
Import ListNotations.
Open Scope string_scope.

Definition same_some {A B} (x : option A) (y : option B) : Prop :=
  match x, y with Some _, Some _ => True | None, None => True | _, _ => False end.

(* label filters: the same tree, labels, operators and numeric literals; the string operands are arbitrary *)
Definition slf_variant (s s' : simple_lf) : Prop :=
  slf_label s = slf_label s' /\ slf_fn s = slf_fn s' /\ slf_num s = slf_num s' /\ same_some (slf_str s) (slf_str s').
Fixpoint lf_variant (f f' : label_filter) {struct f} : Prop :=
  match f, f' with
  | LF h op t, LF h' op' t' =>
      (match h, h' with
       | HSimple s, HSimple s' => slf_variant s s'
       | HComplex g, HComplex g' => lf_variant g g'
       | _, _ => False
       end) /\ op = op' /\
      match t, t' with Some a, Some b => lf_variant a b | None, None => True | _, _ => False end
  end.

(* line filters: the same operator; the expression of |~ / !~ is one literal for both (with the same case flag) or for neither *)
Definition relit_variant (r r' : option (string * bool)) : Prop :=
  match r, r' with Some (_, i), Some (_, i') => i = i' | None, None => True | _, _ => False end.

(* json parameters: both unreadable, or paths printed alike up to the content of their keys (each key is a value);
   regexp: the expressions name the same number of groups, or both are refused by the planner's grammar *)
Definition path_variant (p p' : parser_param) : Prop :=
  match pp_path p, pp_path p' with
  | Some x, Some x' => erase (json_path_sql x) = erase (json_path_sql x')   (* the same parts up to the content of the keys *)
  | None, None => True
  | _, _ => False
  end.
Definition re_variant (v v' : string) : Prop :=
  match re_plan v, re_plan v' with
  | Some (_, names), Some (_, names') => List.length names = List.length names'
  | None, None => True
  | _, _ => False
  end.
Definition parser_variant (fn : parser_fn) (ps ps' : list parser_param) : Prop :=
  match fn with
  | PJson => Forall2 path_variant ps ps'
  | PRegexp => match ps, ps' with [], [] => True | p0 :: _, p0' :: _ => re_variant (pp_val p0) (pp_val p0') | _, _ => False end
  | PLogfmt => True
  end.

(* drop: the same parameters drop by key only (no value, or the empty value) *)
Definition drop_key_only (p : string * option string) : bool :=
  match snd p with Some v => String.eqb v "" | None => true end.
Definition drop_variant (ps ps' : list (string * option string)) : Prop :=
  Forall2 (fun p p' => drop_key_only p = drop_key_only p') ps ps'.

(* line_format: both templates are outside the planner's fragment (no statement), or both are read and give the same format() call up to
   the content of its values (the text between the fields and the field names are values: as many fields) *)
Definition tpl_variant (t t' : string) : Prop :=
  match tpl_parse t, tpl_parse t' with
  | TOk ns, TOk ns' => erase (tpl_sql ns) = erase (tpl_sql ns')   (* the same column expression up to the content of its values *)
  | TOk _, _ | _, TOk _ => False
  | _, _ => True
  end.

Definition unwrap_variant (l l' : string) : Prop := String.eqb l "_entry" = String.eqb l' "_entry".

(* planner objects (what planner.plan() builds): the same object tree, value parameters as above *)
Fixpoint planner_variant (p p' : planner) {struct p} : Prop :=
  match p, p' with
  | PStreamSelect ms, PStreamSelect ms' => Forall2 matcher_variant ms ms'
  | PSimpleLabelFilter f x, PSimpleLabelFilter f' x' => lf_variant f f' /\ planner_variant x x'
  | PFingerprintFilter a b, PFingerprintFilter a' b' => planner_variant a a' /\ planner_variant b b'
  | PMainInit, PMainInit => True
  | PTimeSeriesInit, PTimeSeriesInit => True
  | PLineFilterP op _ rl x, PLineFilterP op' _ rl' x' => op = op' /\ relit_variant rl rl' /\ planner_variant x x'
  | PLabelFilterP f x, PLabelFilterP f' x' => lf_variant f f' /\ planner_variant x x'
  | PParserP fn ps x, PParserP fn' ps' x' => fn = fn' /\ parser_variant fn ps ps' /\ planner_variant x x'
  | PDropP ps x, PDropP ps' x' => drop_variant ps ps' /\ planner_variant x x'
  | PLabelsJoin a b t w, PLabelsJoin a' b' t' w' => planner_variant a a' /\ planner_variant b b' /\ planner_variant t t' /\ w = w'
  | PMainRenew x u, PMainRenew x' u' => planner_variant x x' /\ u = u'
  | PMainOrderBy cs x, PMainOrderBy cs' x' => cs = cs' /\ planner_variant x x'
  | PMainLimit x, PMainLimit x' => planner_variant x x'
  | PMainFinalizer x m f, PMainFinalizer x' m' f' => planner_variant x x' /\ m = m' /\ f = f'
  | PLraP f d w x, PLraP f' d' w' x' => f = f' /\ d = d' /\ w = w' /\ planner_variant x x'
  | PUnwrapP l x, PUnwrapP l' x' => unwrap_variant l l' /\ planner_variant x x'
  | PUnwrapFnP f d x, PUnwrapFnP f' d' x' => f = f' /\ d = d' /\ planner_variant x x'
  | PByWithoutP ls b u x, PByWithoutP ls' b' u' x' => List.length ls = List.length ls' /\ b = b' /\ u = u' /\ planner_variant x x'
  | PAggOpP f w x, PAggOpP f' w' x' => f = f' /\ w = w' /\ planner_variant x x'
  | PComparisonP fn v x, PComparisonP fn' v' x' => fn = fn' /\ v = v' /\ planner_variant x x'
  | PTopKP n t x, PTopKP n' t' x' => n = n' /\ t = t' /\ planner_variant x x'
  | PQuantileP q d x, PQuantileP q' d' x' => q = q' /\ d = d' /\ planner_variant x x'
  | PStepFixP d x, PStepFixP d' x' => d = d' /\ planner_variant x x'
  | PMetrics15 f d, PMetrics15 f' d' => f = f' /\ d = d'
  | PLineFormatP t x, PLineFormatP t' x' => tpl_variant t t' /\ planner_variant x x'
  | _, _ => False
  end.

(* the mutable planner state: same id counter, cached WITHs under the same alias with the same erasure *)
Definition cache_variant (x y : option (string * select)) : Prop :=
  match x, y with
  | Some w, Some w' => fst w = fst w' /\ erase_sel (snd w) = erase_sel (snd w')
  | None, None => True
  | _, _ => False
  end.
Definition pst_variant (st st' : pst) : Prop :=
  pid st = pid st' /\ cache_variant (fp_cache st) (fp_cache st') /\ cache_variant (labels_cache st) (labels_cache st').
Definition result_variant (r r' : res (select * pst * planner)) : Prop :=
  match r, r' with
  | Some (q, st, p), Some (q', st', p') => erase_sel q = erase_sel q' /\ pst_variant st st' /\ planner_variant p p'
  | None, None => True
  | _, _ => False
  end.

(* requests: the same pipeline of stages *)
Definition stage_variant (s s' : stage) : Prop :=
  match s, s' with
  | PLineFilter op v rl, PLineFilter op' v' rl' => op = op' /\ relit_variant rl rl' /\ String.eqb v "" = String.eqb v' ""
      (* the metric planner asks whether the filter is empty (|= "" lets a rate run on the 15-second roll-up) *)
  | PLabelFilter f, PLabelFilter f' => lf_variant f f'
  | PParser fn ps, PParser fn' ps' => fn = fn' /\ parser_variant fn ps ps'
  | PLineFormat t, PLineFormat t' => tpl_variant t t'
  | PLabelFormat, PLabelFormat => True
  | PUnwrap l, PUnwrap l' => unwrap_variant l l'
  | PDrop ps, PDrop ps' => drop_variant ps ps'
  | _, _ => False
  end.
Definition strsel_variant (s s' : strsel) : Prop :=
  Forall2 matcher_variant (sel_matchers s) (sel_matchers s') /\ Forall2 stage_variant (sel_pipeline s) (sel_pipeline s').

Definition opt_planner_variant (x y : option planner) : Prop :=
  match x, y with Some a, Some b => planner_variant a b | None, None => True | _, _ => False end.

(* metric requests: the same functions, ranges, parameters, comparisons; grouping labels are values (k IN ('a','b')): as many *)
Definition bw_variant (b b' : by_without) : Prop := bw_by b = bw_by b' /\ List.length (bw_labels b) = List.length (bw_labels b').
Definition opt_bw_variant (x y : option by_without) : Prop :=
  match x, y with Some a, Some b => bw_variant a b | None, None => True | _, _ => False end.
Definition lra_variant (l l' : lra) : Prop :=
  lra_f l = lra_f l' /\ opt_bw_variant (lra_prefix l) (lra_prefix l') /\ strsel_variant (lra_sel l) (lra_sel l') /\
  lra_dur_ns l = lra_dur_ns l' /\ opt_bw_variant (lra_suffix l) (lra_suffix l') /\ lra_cmp l = lra_cmp l'.
Definition agg_variant (a a' : aggop) : Prop :=
  agg_f a = agg_f a' /\ opt_bw_variant (agg_prefix a) (agg_prefix a') /\ lra_variant (agg_lra a) (agg_lra a') /\
  opt_bw_variant (agg_suffix a) (agg_suffix a') /\ agg_cmp a = agg_cmp a'.
Definition quantile_variant (q q' : quantile) : Prop :=
  opt_bw_variant (q_prefix q) (q_prefix q') /\ q_param q = q_param q' /\ strsel_variant (q_sel q) (q_sel q') /\
  q_dur_ns q = q_dur_ns q' /\ opt_bw_variant (q_suffix q) (q_suffix q') /\ q_cmp q = q_cmp q'.
Definition topk_arg_variant (x y : topk_arg) : Prop :=
  match x, y with
  | TKLra l, TKLra l' => lra_variant l l'
  | TKAgg a, TKAgg a' => agg_variant a a'
  | TKQuantile q, TKQuantile q' => quantile_variant q q'
  | _, _ => False
  end.
Definition topk_variant (t t' : topk) : Prop :=
  tk_top t = tk_top t' /\ tk_len t = tk_len t' /\ topk_arg_variant (tk_arg t) (tk_arg t') /\ tk_cmp t = tk_cmp t'.
Definition script_variant (s s' : script) : Prop :=
  match s, s' with
  | SLog x, SLog x' => strsel_variant x x'
  | SLra l, SLra l' => lra_variant l l'
  | SAgg a, SAgg a' => agg_variant a a'
  | STopK t, STopK t' => topk_variant t t'
  | SQuantile q, SQuantile q' => quantile_variant q q'
  | SMacros, SMacros => True
  | _, _ => False
  end.

(* what the tie evaluates per executed statement (model/SqlPiecesCases.v pstmt): two statements with the same structure *)
Definition stmt_variant (x y : option pstmt) : Prop :=
  match x, y with
  | Some a, Some b =>
      ps_ok a = true ->
      ps_ok b = true /\ shape (ps_pieces b) = shape (ps_pieces a) /\
      ps_render a = Some (ps_flat a) /\ ps_render b = Some (ps_flat b) /\
      skeleton (lex (ps_flat b)) = skeleton (lex (ps_flat a)) /\
      lex (ps_flat b) = etoks QN (ps_pieces b) /\
      List.length (rvalues (ps_pieces b)) = List.length (rvalues (ps_pieces a))
  | None, None => True
  | _, _ => False
  end.
