(* Model of fingerprintLabels (writer/utils/unmarshal/unmarshal.go) for property C04.
   Executable definitions only; proofs are in proofs/FingerprintProofs.v.

     determs := []uint64{0, 0, 1}
     for _, lbl := range lbls {
        hash := cityhash102.Hash128to64(Uint128{city.CH64(name), city.CH64(value)})
        determs[0] = determs[0] + hash
        determs[1] = determs[1] ^ hash
        determs[2] = determs[2] * (1779033703 + 2*hash)
     }
     fingerPrint = city.CH64(the 24 bytes of determs)          (FingerPrintType = CityHash, the default)

   uint64 values are Z in [0, 2^64); every arithmetic result is reduced with w64.
   In the Section the three hash functions are oracles (Variables): the theorems hold for every
   choice. Below the Section, Hash128to64 and CH64-over-24-bytes are ALSO transcribed concretely
   (they are short, branch-free arithmetic), so that the generated correspondence cases compute the
   complete fingerprint inside Coq; only CH64 over the label strings stays a table supplied per
   case by the harness (city.CH64 is an exported function). *)
From Coq Require Import List ZArith String Ascii Bool.
Import ListNotations.
Open Scope Z_scope.

Definition M64 : Z := 18446744073709551616.      (* 2^64 *)
(* reduction to 64 bits: x mod 2^64, written as a mask because Z.land is linear where Z.modulo is
   quadratic under vm_compute (proofs/FingerprintProofs.v: w64_mod : w64 x = x mod M64) *)
Definition w64 (x : Z) : Z := Z.land x 18446744073709551615.

Definition label : Type := (string * string)%type.     (* (name, value), bytes *)

Section FP.
  Variable ch64 : string -> Z.          (* city.CH64 on a label name / value *)
  Variable h128 : Z -> Z -> Z.          (* cityhash102.Hash128to64 (Uint128{lo, hi}) *)
  Variable fin : Z * Z * Z -> Z.        (* city.CH64 over the 24 little-endian bytes of determs *)

  Definition lhash (l : label) : Z := w64 (h128 (ch64 (fst l)) (ch64 (snd l))).

  Definition stepf (d : Z * Z * Z) (l : label) : Z * Z * Z :=
    let '(a, b, c) := d in
    let h := lhash l in
    (w64 (a + h), Z.lxor b h, w64 (c * (1779033703 + 2 * h))).

  Definition determs (ls : list label) : Z * Z * Z := fold_left stepf ls (0, 0, 1).
  Definition fingerprint (ls : list label) : Z := fin (determs ls).
End FP.

(* ---------------------------------------------------------------------------------------------
   concrete transcriptions (go-faster/city 64.go / ch_64.go, writer/utils/heputils/cityhash102) *)
Definition k0 : Z := 14097894508562428199.     (* 0xc3a5c85c97cb3127 *)
Definition k1 : Z := 13011662864482103923.     (* 0xb492b66fbe98f273 *)
Definition k2 : Z := 11160318154034397263.     (* 0x9ae16a3b2f90404f *)
Definition k3 : Z := 14504361325974414679.     (* 0xc949d7c7509e6557 *)
Definition kMul : Z := 11376068507788127593.   (* 0x9ddfea08eb382d69 *)

(* rot64(val, shift) = (val >> shift) | val << (64 - shift), shift in 1..63 *)
Definition rot64 (v s : Z) : Z := Z.lor (Z.shiftr v s) (w64 (Z.shiftl v (64 - s))).

(* Hash128to64: a := (lo ^ hi) * kMul; a ^= a >> 47; b := (hi ^ a) * kMul; b ^= b >> 47; b *= kMul *)
Definition hash128to64 (lo hi : Z) : Z :=
  let a := w64 (Z.lxor lo hi * kMul) in
  let a := Z.lxor a (Z.shiftr a 47) in
  let b := w64 (Z.lxor hi a * kMul) in
  let b := Z.lxor b (Z.shiftr b 47) in
  w64 (b * kMul).

(* city.CH64 on exactly 24 bytes = ch17to32(s, 24) with s = LE(d0) ++ LE(d1) ++ LE(d2):
     a := fetch64(s) * k1; b := fetch64(s[8:]); c := fetch64(s[len-8:]) * k2; d := fetch64(s[len-16:]) * k0
     hash16(rot64(a-b, 43) + rot64(c, 30) + d, a + rot64(b^k3, 20) - c + len) *)
Definition fin24 (d : Z * Z * Z) : Z :=
  let '(d0, d1, d2) := d in
  let a := w64 (d0 * k1) in
  let b := d1 in
  let c := w64 (d2 * k2) in
  let dd := w64 (d1 * k0) in
  hash128to64 (w64 (rot64 (w64 (a - b)) 43 + rot64 c 30 + dd))
              (w64 (a + rot64 (Z.lxor b k3) 20 - c + 24)).

(* CH64 over label strings: a finite table per generated case *)
Fixpoint tbl_ch64 (t : list (string * Z)) (s : string) : Z :=
  match t with
  | [] => 0
  | (k, v) :: r => if String.eqb k s then v else tbl_ch64 r s
  end.

Definition fingerprint_tbl (t : list (string * Z)) (ls : list label) : Z :=
  fingerprint (tbl_ch64 t) hash128to64 fin24 ls.
