(* Round 8 (property C04): SEVERAL ClickHouse nodes served by one writer process.
   writer/plugin builds one service registry over every database_data entry; there is ONE fastcache in the process
   (numbercache.Cache) and every node reads and writes it through its own view numbercache.Cache.DB(node): the byte key of
   an announcement is  prefix(node) ++ serializer(key)  (CacheKey.node_key). Each node has its own ClickHouse connection:
   its own time_series table, its own samples, its own requests in flight. The 30-minute ticker empties the one cache.
   SeriesIndex.v is the model of ONE node. This file is the PRODUCT: a shared cache of tagged entries (prefix, triple) - by
   CacheKeyProofs.view_key_code_injective the byte key determines both parts -, a state per node name, and histories whose
   actions name the node they are sent to (the X-CH-DSN header). The prefix is a parameter [pfx]: the code uses the node
   name (CacheKey.n_node), seeded change C04-g the database name (CacheKey.n_db).
   Executable definitions only; proofs in proofs/SeriesNodesProofs.v. *)
From Coq Require Import List ZArith Bool String Ascii.
From Qryn Require Import model.GoQuote model.SeriesIndex model.CacheKey.
Import ListNotations.
Open Scope Z_scope.

Inductive mact :=
| MAct (n : cnode) (a : action)      (* an action of the single-node model on node n (its own view of the cache) *)
| MReset.                            (* the ticker: the one fastcache of the process is emptied *)

Definition tagged : Type := (string * row)%type.

(* the view of the shared cache through a prefix: Has(key) = the byte key prefix ++ ser key is present *)
Definition cview (p : string) (c : list tagged) : list row :=
  map snd (filter (fun e => String.eqb (fst e) p) c).
(* the entries a view cannot see *)
Definition others (p : string) (c : list tagged) : list tagged :=
  filter (fun e => negb (String.eqb (fst e) p)) c.
(* the shared cache after a node has changed its view to [v] (ConfirmSeries adds entries with the node's prefix, an
   eviction drops one; the order of entries in the shared cache means nothing) *)
Definition put_view (p : string) (v : list row) (c : list tagged) : list tagged :=
  map (fun x => (p, x)) v ++ others p c.

Record mstate := {
  m_cache : list tagged;               (* the one fastcache *)
  m_st : string -> state               (* per node NAME: table, acknowledged samples, requests in flight (the cache field is not used) *)
}.
Definition minit : mstate := {| m_cache := []; m_st := fun _ => init |}.

Definition upd (f : string -> state) (k : string) (v : state) : string -> state :=
  fun x => if String.eqb x k then v else f x.

Section PREFIX.
  Variable pfx : cnode -> string.

  (* what node n sees: its view of the cache, its own table / acknowledgements / requests *)
  Definition nview (ms : mstate) (n : cnode) : state :=
    let s := m_st ms (n_node n) in
    {| cache := cview (pfx n) (m_cache ms); ts_rows := ts_rows s; acked := acked s; pending := pending s |}.

  Definition mstep (ms : mstate) (a : mact) : mstate * obs :=
    match a with
    | MReset => ({| m_cache := []; m_st := m_st ms |}, OReset)
    | MAct n a =>
      let '(st', o) := step (nview ms n) a in
      ({| m_cache := put_view (pfx n) (cache st') (m_cache ms);
          m_st := upd (m_st ms) (n_node n) st' |}, o)
    end.

  Fixpoint mrun (ms : mstate) (h : list mact) : mstate :=
    match h with
    | [] => ms
    | a :: r => mrun (fst (mstep ms a)) r
    end.
  Fixpoint mrun_obs (ms : mstate) (h : list mact) : list obs :=
    match h with
    | [] => []
    | a :: r => let '(ms', o) := mstep ms a in o :: mrun_obs ms' r
    end.
End PREFIX.

(* ------------------------------------------------------------------ which node? (controller/middleware.go withTSAndSampleService)
   The request's X-CH-DSN header names the node; without it (or with a name no service has) the static registry DRAWS a node
   at random on every lookup. Until the round-8 fix the middleware made three lookups with the header's value - samples
   service, time_series service, profile service (whose node gives the cache view) -: three independent draws. Now the node of
   the first lookup is used for the other two. [d1 d2 d3] are the draws the registry would make. *)
Definition choose_before_fix (dsn : option cnode) (d1 d2 d3 : cnode) : cnode * cnode * cnode :=
  match dsn with Some n => (n, n, n) | None => (d1, d2, d3) end.
Definition choose_one_node (dsn : option cnode) (d1 d2 d3 : cnode) : cnode * cnode * cnode :=
  match dsn with Some n => (n, n, n) | None => (d1, d1, d1) end.

Section SPLIT.
  Variable pfx : cnode -> string.
  (* one push handled alone whose samples go to [nspl], whose series rows go to [nts], parsed against and confirmed in the
     cache view of [ncv] (doParse: FPCache.DB(node) with node = the profile service's node) *)
  Definition split_push (ms : mstate) (nspl nts ncv : cnode) (ss : list stream) (ts_ok spl_ok : bool) : mstate :=
    let f := begin_req (nview pfx ms ncv) ss in
    let g := send_chunk f ts_ok spl_ok in
    let ack := f_ok g in
    let t := m_st ms (n_node nts) in
    let st1 := upd (m_st ms) (n_node nts)
                   {| cache := cache t; ts_rows := store_chunk (ts_rows t) f ts_ok; acked := acked t; pending := pending t |} in
    let s := st1 (n_node nspl) in
    let st2 := upd st1 (n_node nspl)
                   {| cache := cache s; ts_rows := ts_rows s; acked := if ack then f_done g ++ acked s else acked s; pending := pending s |} in
    {| m_cache := put_view (pfx ncv) (if ack then f_ann g ++ cview (pfx ncv) (m_cache ms) else cview (pfx ncv) (m_cache ms)) (m_cache ms);
       m_st := st2 |}.
  Definition choice_push (choose : option cnode -> cnode -> cnode -> cnode -> cnode * cnode * cnode)
             (ms : mstate) (dsn : option cnode) (d1 d2 d3 : cnode) (ss : list stream) (ts_ok spl_ok : bool) : mstate :=
    let '(nspl, nts, ncv) := choose dsn d1 d2 d3 in split_push ms nspl nts ncv ss ts_ok spl_ok.
End SPLIT.

(* the history of ONE node: the actions sent to it, and every reset of the shared cache *)
Fixpoint proj (name : string) (h : list mact) : list action :=
  match h with
  | [] => []
  | MReset :: r => CacheReset :: proj name r
  | MAct m a :: r => if String.eqb (n_node m) name then a :: proj name r else proj name r
  end.

(* ------------------------------------------------------------------ correspondence cases: histories over several nodes.
   Per step the observation is what travelled on the connection of the node the request named. *)
Record ncase := { nc_id : Z; nc_actions : list mact; nc_obs : list hobs }.

Definition m_mismatch (c : ncase) : bool :=
  negb (obsl_match (mrun_obs n_node minit (nc_actions c)) (nc_obs c)).

(* diagnosis of a mismatch: the same history under the product model whose prefix is the DATABASE name (all nodes of one
   database name share their entries: seeded C04-g and every change that drops the node from the key) *)
Definition m_mismatch_db (c : ncase) : bool :=
  negb (obsl_match (mrun_obs n_db minit (nc_actions c)) (nc_obs c)).

(* the observations of one node, in step with [proj] *)
Fixpoint proj_obs {A} (name : string) (h : list mact) (os : list A) : list A :=
  match h, os with
  | MReset :: r, o :: orr => o :: proj_obs name r orr
  | MAct m _ :: r, o :: orr => if String.eqb (n_node m) name then o :: proj_obs name r orr else proj_obs name r orr
  | _, _ => []
  end.
Fixpoint names_of (h : list mact) : list string :=
  match h with
  | [] => []
  | MReset :: r => names_of r
  | MAct m _ :: r => n_node m :: names_of r
  end.
(* the oracle, node by node: on some node an acknowledged sample has no successfully inserted series row ON THAT NODE *)
Definition m_violation (c : ncase) : bool :=
  existsb (fun name => hv {| hc_id := nc_id c; hc_actions := proj name (nc_actions c);
                             hc_obs := proj_obs name (nc_actions c) (nc_obs c) |})
          (names_of (nc_actions c)).

Definition mids (f : ncase -> bool) (cs : list ncase) : list Z := map nc_id (filter f cs).
Definition mreport (cs : list ncase) : list (list Z) := [mids m_mismatch cs; mids m_violation cs].
Definition mdiag (cs : list ncase) : list (list Z) := [mids m_mismatch cs; mids m_mismatch_db cs].
