(* C12 -- the Pyroscope read handlers (were test-only): outcome class and number of SQL statements.

     POST /querier.v1.QuerierService/{ProfileTypes, LabelNames, LabelValues, SelectMergeStacktraces, SelectSeries,
          SelectMergeProfile, Series, GetProfileStats, AnalyzeQuery}, POST /settings.v1.SettingsService/Get,
     GET  /pyroscope/render-diff

   They are synchronous: the handler decodes the body (JSON or protobuf), the service parses the selector(s) and the
   type id, plans ONE statement (render-diff: one per side), reads its rows in a `for rows.Next()` loop whose callback
   may fail or panic, builds the answer (for the two flame-graph endpoints: Tree.MergeTrie + Tree.BFS, resp.
   mergeNodes + computeFlameGraphDiff -- the tree functions are model/ProfTree.v and model/ProfDiff.v of property C16)
   and writes it at the end.  No version bootstrap (tables.PopulateTableNames needs none), no goroutine.

   Transcribed from reader/controller/profController.go, reader/service/profService.go (queryCols, getTree,
   parseScripts, detachTypeId), reader/prof/shared/types.go, reader/prof/transpiler/*.go (which selector makes planning
   fail), reader/service/profTree.go.

   recov = the handlers defer tamePanic (fix 5950165): a panic while serving becomes a 500; before, net/http closed the
   connection without a response (class abort). *)
From Coq Require Import List NArith ZArith Bool.
From Qryn Require Import model.Pprof model.ProfTree model.ProfDiff.
Import ListNotations.
Open Scope Z_scope.

(* class codes as in model/ReadPath.v: 0 = 2xx, 1 = 4xx, 2 = 5xx, 5 = hang, 6 = abort *)
Inductive pfclass := Pf2xx | Pf4xx | Pf5xx | PfAbort.
Definition pf_code (c : pfclass) : Z := match c with Pf2xx => 0 | Pf4xx => 1 | Pf5xx => 2 | PfAbort => 6 end.
Definition pf_orderly (c : pfclass) : bool := match c with PfAbort => false | _ => true end.

Inductive pfep := EpProfileTypes | EpLabelNames | EpLabelValues | EpMergeStacktraces | EpSelectSeries | EpMergeProfile
                | EpSeries | EpStats | EpSettings | EpAnalyze | EpRenderDiff.

(* a label selector: parses and plans / participle refuses it (the empty string included) / parses, but planning fails
   (a regular expression that does not compile, a quoted value strconv.Unquote refuses) *)
Inductive pfsel := PsOk | PsNoParse | PsNoPlan.

(* a row of the statement as the row loop of the endpoint sees it *)
Inductive pfrow :=
| PrOk                     (* scans; the callback succeeds *)
| PrNull                   (* a NULL cell: rows.Scan cannot convert it (except into the []byte of SelectMergeProfile) *)
| PrShortType              (* type_id with fewer than three parts: ProfileTypes indexes [1], [2] (panic); Series: error *)
| PrBadPayload             (* SelectMergeProfile: a payload proto.Unmarshal or the merger refuses *)
| PrTree (rows : list ProfTree.row) (fs : list (N * Z)).   (* getTree: the `tree` and `functions` arrays *)

Record pfside := mkSide { sd_sel : pfsel; sd_rows : list pfrow; sd_fail_after : Z (* <0: never *); sd_query_err : bool }.

Record pfreq := mkPf {
  pf_ep : pfep;
  pf_body_ok : bool;        (* the body decodes; render-diff: every required parameter is present and an integer *)
  pf_type_ok : bool;        (* the profile type id has five parts *)
  pf_types_equal : bool;    (* render-diff: both queries have a '{' and name the same type id *)
  pf_left : pfside;
  pf_right : pfside;        (* render-diff only *)
  pf_start : Z; pf_end : Z; (* milliseconds, any int64: they only reach time.UnixMilli and the statement text *)
  pf_step : Z }.            (* int64(req.Step): ANY int64 when the double is NaN, infinite or beyond 2^63 *)

(* rows.Next() turns false at a connection error; rows.Err() is not looked at *)
Definition pf_served (s : pfside) : list pfrow :=
  if sd_fail_after s <? 0 then sd_rows s else firstn (Z.to_nat (sd_fail_after s)) (sd_rows s).

Inductive rowres := RwOk | RwErr | RwPanic.

Definition on_row (ep : pfep) (r : pfrow) : rowres :=
  match r with
  | PrNull => match ep with EpMergeProfile => RwOk (* database/sql stores NULL into a []byte as nil: an empty payload *) | _ => RwErr end
  | PrShortType => match ep with EpProfileTypes => RwPanic | EpSeries => RwErr | _ => RwOk end
  | PrBadPayload => match ep with EpMergeProfile => RwErr | _ => RwOk end
  | _ => RwOk
  end.

(* for rows.Next() { if err := rows.Scan(...); err != nil { return err }; if err := f(); err != nil { return err } } *)
Fixpoint row_loop (ep : pfep) (rows : list pfrow) : rowres :=
  match rows with
  | [] => RwOk
  | r :: tl => match on_row ep r with RwOk => row_loop ep tl | x => x end
  end.

(* one statement: None = read to the end *)
Definition run_stmt (recov : bool) (ep : pfep) (s : pfside) : option pfclass :=
  if sd_query_err s then Some Pf5xx else
  match row_loop ep (pf_served s) with
  | RwOk => None
  | RwErr => Some Pf5xx
  | RwPanic => Some (if recov then Pf5xx else PfAbort)
  end.

(* getTree: every row overwrites treeNodes / functions, the tree is merged from the LAST row *)
Fixpoint last_tree (rows : list pfrow) (acc : list ProfTree.row * list (N * Z)) : list ProfTree.row * list (N * Z) :=
  match rows with
  | [] => acc
  | PrTree rs fs :: tl => last_tree tl (rs, fs)
  | _ :: tl => last_tree tl acc
  end.
Definition tree_of (s : pfside) : mtree :=
  let '(rs, fs) := last_tree (pf_served s) ([], []) in merge_trie the_limit new_tree rs fs.

Definition uses_sel (ep : pfep) : bool :=
  match ep with EpProfileTypes | EpStats | EpSettings => false | _ => true end.
Definition uses_type (ep : pfep) : bool :=
  match ep with EpMergeStacktraces | EpSelectSeries | EpMergeProfile => true | _ => false end.
Definition sel_ok (s : pfsel) : bool := match s with PsOk => true | _ => false end.
Definition sel_parses (s : pfsel) : bool := match s with PsNoParse => false | _ => true end.

(* outcome class and number of SQL statements issued *)
Definition prof_outcome_gen (recov : bool) (q : pfreq) : pfclass * Z :=
  match pf_ep q with
  | EpSettings => (Pf2xx, 0)
  | EpStats => match run_stmt recov EpStats (pf_left q) with Some c => (c, 1) | None => (Pf2xx, 1) end
  | EpRenderDiff =>
    if negb (pf_body_ok q) then (Pf4xx, 0) else
    if negb (pf_types_equal q) then (Pf5xx, 0) else
    if negb (sel_parses (sd_sel (pf_left q))) || negb (sel_parses (sd_sel (pf_right q))) then (Pf5xx, 0) else
    if negb (pf_type_ok q) then (Pf5xx, 0) else
    if negb (sel_ok (sd_sel (pf_left q))) then (Pf5xx, 0) else
    match run_stmt recov EpRenderDiff (pf_left q) with
    | Some c => (c, 1)
    | None =>
      if negb (sel_ok (sd_sel (pf_right q))) then (Pf5xx, 1) else
      match run_stmt recov EpRenderDiff (pf_right q) with
      | Some c => (c, 2)
      | None => if assert_positive (tree_of (pf_left q)) && assert_positive (tree_of (pf_right q))
                then (Pf2xx, 2) else (Pf5xx, 2)
      end
    end
  | ep =>
    if negb (pf_body_ok q) then (Pf4xx, 0) else
    if uses_sel ep && negb (sel_ok (sd_sel (pf_left q))) then (Pf5xx, 0) else
    if uses_type ep && negb (pf_type_ok q) then (Pf5xx, 0) else
    match ep with
    | EpLabelNames => (Pf2xx, 1)        (* `err = ps.queryCols(...); return result, nil`: the error is dropped *)
    | _ => match run_stmt recov ep (pf_left q) with Some c => (c, 1) | None => (Pf2xx, 1) end
    end
  end.

Definition prof_outcome : pfreq -> pfclass * Z := prof_outcome_gen true.

Definition with_step (q : pfreq) (s : Z) : pfreq :=
  mkPf (pf_ep q) (pf_body_ok q) (pf_type_ok q) (pf_types_equal q) (pf_left q) (pf_right q) (pf_start q) (pf_end q) s.
Definition with_window (q : pfreq) (a b : Z) : pfreq :=
  mkPf (pf_ep q) (pf_body_ok q) (pf_type_ok q) (pf_types_equal q) (pf_left q) (pf_right q) a b (pf_step q).

(* ------------------------------------------------------------------ the walk of computeFlameGraphDiff
   The queue of diff_loop (model/ProfDiff.v) without the bars: what decides whether the loop ends.  Since fix 3463224
   the loop makes at most 2 * (nodes of the merged left tree) + 2 iterations -- exactly the fuel diff_bars gives to
   diff_loop -- ; before, it ran until the queue was empty. *)
Fixpoint walk_queue (fuel : nat) (n1 n2 : list (N * list tnode)) (q : list qitem) : list qitem :=
  match fuel with
  | O => q
  | S f =>
    match q with
    | [] => []
    | it :: q' =>
      walk_queue f n1 n2
        (q' ++ enqueue (rev (pair_up (children n1 (t_id (q_l it))) (children n2 (t_id (q_r it)))))
                       (q_xl it) (q_xr it) (S (q_level it)) (t_id (q_l it)))
    end
  end.
Definition diff_budget (n1 : list (N * list tnode)) : nat := 2 * count_list_nodes n1 + 2.

(* ------------------------------------------------------------------ correspondence cases *)
(* compact constructors for generated case files (numbers are written as Z there) *)
Definition trow (p f i s t : Z) : ProfTree.row :=
  {| r_parent := Z.to_N p; r_fn := Z.to_N f; r_id := Z.to_N i; r_self := s; r_total := t |}.
Definition tfn (i n : Z) : N * Z := (Z.to_N i, n).

Record pfcase := mkPfC { pfc_id : Z; pfc_req : pfreq; pfc_obs : Z; pfc_stmts : Z (* -1: not compared *) }.

Definition pfpredicted (c : pfcase) : Z * Z := let '(o, n) := prof_outcome (pfc_req c) in (pf_code o, n).
Definition pfcase_ok (c : pfcase) : bool :=
  let '(o, n) := pfpredicted c in Z.eqb o (pfc_obs c) && ((pfc_stmts c <? 0) || Z.eqb n (pfc_stmts c)).
Definition pfmismatches (cs : list pfcase) : list Z := map pfc_id (filter (fun c => negb (pfcase_ok c)) cs).
Definition pf_spec_ok (obs : Z) : bool := Z.eqb obs 0 || Z.eqb obs 1 || Z.eqb obs 2.
Definition pfspec_violations (cs : list pfcase) : list Z := map pfc_id (filter (fun c => negb (pf_spec_ok (pfc_obs c))) cs).
