(* C15 — the JSON bodies of the Pyroscope endpoints of the reader (reader/controller/profController.go).

   (a) writeResponse -> defaultMarshaller with Content-Type application/json: protojson.MarshalOptions{}.Marshal of the
       response message.  protojson is modelled as a walk over a value tree [pv]:
         field names lowerCamelCase (the json= names of the .pb.go files), fields in declaration order, EmitUnpopulated
         false: an empty string, the number 0, an empty list and a nil message are left out (smart constructors
         [f_str] / [f_i64] / [f_dbl] / [f_rep]); a nil element of a repeated message field is {} ; int64 between quotes;
         double: NaN / Infinity / -Infinity between quotes, otherwise the float layout of encoding/json; strings through
         internal/encoding/json appendString ([pj_quote]: the double quote and the backslash get a backslash, BS FF LF CR TAB
         their short form, other bytes < 0x20 \u00xy, EVERYTHING else copied - no HTML escaping, U+2028/9 copied, DEL
         copied); a string that is not valid UTF-8 makes Marshal fail with
         "proto: field <full name> contains invalid UTF-8" ([pj_bad]: the first such string in marshalling order), and
         the handler answers 500 with json.Marshal of that text ([pj_err_body]).
       The encoder puts a space after every comma iff internal/detrand.Bool() (a hash of the program binary, fixed for
       one build); the same coin chooses U+00A0 instead of the space after "proto:" in error texts.  The coin is the
       parameter [sp] of the model; every theorem holds for both values.
       [render_pj] differs from JsonStream.render only in the escaper for TStr: jsoniter writes \u0008 and \u000c where
       protojson writes \b and \f.
   (b) RenderDiff: json.NewEncoder(w).Encode(diff.FlamebearerProfileV1): the struct walk [fb_profile_val] of
       service.FlamebearerProfileV1 / FlamebearerV1 / FlamebearerMetadataV1 / FlamebearerTimelineV1 / Heatmap (json tags, no
       omitempty anywhere, nil pointer / nil slice / nil map = null, maps with sorted keys given in that order), written by
       encoding/json (JsonStream.tokensJ_of: TStrJ escaping, HTML characters escaped, invalid UTF-8 replaced) plus the
       line break Encode appends.
   (c) defaultError: json.Marshal(message) as the body since the repair ([gojson_quote]); strconv.Quote before it ([go_quote_ascii]: exact for ASCII messages, kept as witness).

   Executable definitions only; proofs in proofs/JsonPyroProofs.v. *)
From Coq Require Import List NArith ZArith Bool Ascii String.
From Qryn Require Import model.GoFloat model.JsonStream.
Import ListNotations.
Open Scope string_scope.
Open Scope list_scope.

(* ------------------------------------------------------------------------------------------ *)
(* protojson: bytes *)

(* google.golang.org/protobuf/internal/encoding/json appendString, per byte (valid UTF-8 only reaches it) *)
Definition pj_esc_char (c : ascii) : string :=
  let n := code c in
  if (n =? 8)%N then String (chr 92) (str1 98)
  else if (n =? 12)%N then String (chr 92) (str1 102)
  else esc_char c.
Fixpoint pj_body (s : string) : string :=
  match s with EmptyString => EmptyString | String c r => (pj_esc_char c ++ pj_body r)%string end.
Definition pj_quote (s : string) : string := String (chr 34) (pj_body s ++ str1 34)%string.

Definition render_tok_pj (t : token) : string :=
  match t with TStr s => pj_quote s | _ => render_tok t end.
Fixpoint render_pj (ts : list token) : string :=
  match ts with [] => EmptyString | t :: r => (render_tok_pj t ++ render_pj r)%string end.

(* utf8.ValidString, with the rune table of JsonStream (utf8.DecodeRuneInString) *)
Fixpoint utf8_ok (s : string) : bool :=
  match s with
  | EmptyString => true
  | String a r =>
    let x := code a in
    if (x <? 128)%N then utf8_ok r
    else
      match r with
      | String b r2 =>
        let y := code b in
        if utf8_two x y then utf8_ok r2
        else
          match r2 with
          | String c r3 =>
            let z := code c in
            if utf8_three x y z then utf8_ok r3
            else
              match r3 with
              | String g r4 => if utf8_four x y z (code g) then utf8_ok r4 else false
              | EmptyString => false
              end
          | EmptyString => false
          end
      | EmptyString => false
      end
  end.

(* the separator protojson writes between two values: a comma, and a space when the coin says so *)
Definition csep (sp : bool) : list token := if sp then [TComma; TWs " "] else [TComma].
Fixpoint pjoin (sp : bool) (xs : list (list token)) : list token :=
  match xs with
  | [] => []
  | x :: r => x ++ match r with [] => [] | _ => csep sp ++ pjoin sp r end
  end.
(* what the protojson encoder writes for a JSON tree *)
Fixpoint pj_tokens (sp : bool) (d : json) : list token :=
  match d with
  | JArr l => TArrS :: pjoin sp (map (pj_tokens sp) l) ++ [TArrE]
  | JObj l => TObjS :: pjoin sp (map (fun kv => TStr (fst kv) :: TColon :: pj_tokens sp (snd kv)) l) ++ [TObjE]
  | _ => tokens_of d
  end.

(* ------------------------------------------------------------------------------------------ *)
(* protojson: values *)

(* the string fields of the response messages (for the error text) *)
Inductive pfid := FNamesN | FNamesV | FPairName | FPairValue
                | FTypeID | FTypeName | FTypeSampleType | FTypeSampleUnit | FTypePeriodType | FTypePeriodUnit.
Definition full_name (f : pfid) : string :=
  match f with
  | FNamesN => "types.v1.LabelNamesResponse.names"
  | FNamesV => "types.v1.LabelValuesResponse.names"
  | FPairName => "types.v1.LabelPair.name"
  | FPairValue => "types.v1.LabelPair.value"
  | FTypeID => "types.v1.ProfileType.ID"
  | FTypeName => "types.v1.ProfileType.name"
  | FTypeSampleType => "types.v1.ProfileType.sample_type"
  | FTypeSampleUnit => "types.v1.ProfileType.sample_unit"
  | FTypePeriodType => "types.v1.ProfileType.period_type"
  | FTypePeriodUnit => "types.v1.ProfileType.period_unit"
  end.

Inductive pv :=
| PStr (f : pfid) (s : string)        (* string *)
| PI64 (z : Z)                        (* int64 *)
| PDbl (bits : N)                     (* double, math.Float64bits *)
| PList (l : list pv)                 (* a populated repeated field *)
| PMsg (l : list (string * pv)).      (* a message: its populated fields, json name and value, in declaration order *)

(* EmitUnpopulated false *)
Definition f_str (k : string) (f : pfid) (s : string) : list (string * pv) :=
  match s with EmptyString => [] | _ => [(k, PStr f s)] end.
Definition f_i64 (k : string) (z : Z) : list (string * pv) := if (z =? 0)%Z then [] else [(k, PI64 z)].
Definition f_dbl (k : string) (bits : N) : list (string * pv) := if (bits =? 0)%N then [] else [(k, PDbl bits)].
Definition f_rep (k : string) (l : list pv) : list (string * pv) := match l with [] => [] | _ => [(k, PList l)] end.

Definition pj_double (bits : N) : json :=
  match fl_of_bits bits with
  | FNaN => JStr "NaN"
  | FInf false => JStr "Infinity"
  | FInf true => JStr "-Infinity"
  | x => JNum (gojson_float_text x)
  end.
(* the JSON tree protojson prints *)
Fixpoint pj_json (v : pv) : json :=
  match v with
  | PStr _ s => JStr s
  | PI64 z => JStr (int_text z)
  | PDbl bits => pj_double bits
  | PList l => JArr (map pj_json l)
  | PMsg l => JObj (map (fun kv => (fst kv, pj_json (snd kv))) l)
  end.
Fixpoint pj_first_some {A : Type} (l : list (option A)) : option A :=
  match l with [] => None | Some x :: _ => Some x | None :: r => pj_first_some r end.
(* the first string, in marshalling order, that is not valid UTF-8 *)
Fixpoint pj_bad (v : pv) : option pfid :=
  match v with
  | PStr f s => if utf8_ok s then None else Some f
  | PList l => pj_first_some (map pj_bad l)
  | PMsg l => pj_first_some (map (fun kv => pj_bad (snd kv)) l)
  | _ => None
  end.

(* err.Error() of the failed Marshal, and strconv.Quote of it (U+00A0 is not printable for strconv: it is written \u00a0) *)
Definition nbsp : string := String (chr 194) (str1 160).
Definition pj_err_msg (sp : bool) (f : pfid) : string :=
  ("proto:" ++ (if sp then nbsp else " ") ++ "field " ++ full_name f ++ " contains invalid UTF-8")%string.
(* defaultError after repair (json.Marshal of the message; before it strconv.Quote, which wrote U+00A0 as \u00a0 and control
   bytes as \x..: [go_quote_ascii] below is kept as the witness) *)
Definition pj_err_body (sp : bool) (f : pfid) : string := gojson_quote (pj_err_msg sp f).

(* writeResponse for a JSON client: status and body *)
Definition pyro_status (v : pv) : N := match pj_bad v with None => 200%N | Some _ => 500%N end.
Definition pyro_ok_tokens (sp : bool) (v : pv) : list token := pj_tokens sp (pj_json v).
Definition pyro_body (sp : bool) (v : pv) : string :=
  match pj_bad v with None => render_pj (pyro_ok_tokens sp v) | Some f => pj_err_body sp f end.

(* ------------------------------------------------------------------------------------------ *)
(* the response messages as the handlers and the service fill them *)

(* LabelNames: the handler appends "" when the service found nothing *)
Definition names_or_blank (names : list string) : list string := match names with [] => [EmptyString] | _ => names end.
Definition msg_label_names (names : list string) : pv :=
  PMsg (f_rep "names" (map (PStr FNamesN) (names_or_blank names))).
(* LabelValues *)
Definition msg_label_values (names : list string) : pv := PMsg (f_rep "names" (map (PStr FNamesV) names)).

Definition msg_pair (kv : string * string) : pv :=
  PMsg (f_str "name" FPairName (fst kv) ++ f_str "value" FPairValue (snd kv)).
Definition msg_labels (l : list (string * string)) : pv := PMsg (f_rep "labels" (map msg_pair l)).

(* Series: one row per (tags, type_id, sample_type_unit); ProfService.TimeSeries puts six synthetic labels in front *)
Record srow := { sr_tp : string; sr_pt : string; sr_pu : string;      (* type_id = tp:period_type:period_unit *)
                 sr_st : string; sr_su : string;                      (* sample_types_units element *)
                 sr_tags : list (string * string) }.
Definition pcolon : string := ":".
Definition profile_type_id (tp st su pt pu : string) : string :=
  (tp ++ pcolon ++ st ++ pcolon ++ su ++ pcolon ++ pt ++ pcolon ++ pu)%string.
Definition series_labels (r : srow) : list (string * string) :=
  [("__name__", sr_tp r); ("__period_type__", sr_pt r); ("__period_unit__", sr_pu r);
   ("__sample_type__", sr_st r); ("__sample_unit__", sr_su r);
   ("__profile_type__", profile_type_id (sr_tp r) (sr_st r) (sr_su r) (sr_pt r) (sr_pu r))] ++ sr_tags r.
Definition msg_series (rows : list srow) : pv :=
  PMsg (f_rep "labelsSet" (map (fun r => msg_labels (series_labels r)) rows)).

(* ProfileTypes: the handler appends an empty ProfileType when the service found nothing *)
Definition msg_ptype (r : srow) : pv :=
  PMsg (f_str "ID" FTypeID (profile_type_id (sr_tp r) (sr_st r) (sr_su r) (sr_pt r) (sr_pu r)) ++
        f_str "name" FTypeName (sr_tp r) ++ f_str "sampleType" FTypeSampleType (sr_st r) ++
        f_str "sampleUnit" FTypeSampleUnit (sr_su r) ++ f_str "periodType" FTypePeriodType (sr_pt r) ++
        f_str "periodUnit" FTypePeriodUnit (sr_pu r)).
Definition msg_profile_types (rows : list srow) : pv :=
  PMsg (f_rep "profileTypes" (match rows with [] => [PMsg []] | _ => map msg_ptype rows end)).

(* SelectSeries: rows (timestamp_ms, fingerprint, labels, value) in the order of the statement; ProfService.SelectSeries
   opens a new series when  lastFp != fp || lastFp == 0  and appends the point to the last series otherwise *)
Record prow := { pr_ts : Z; pr_fp : N; pr_labels : list (string * string); pr_bits : N }.
Record pser := { ps_labels : list (string * string); ps_points : list (N * Z) }.
Definition add_point (acc : list pser) (p : N * Z) : list pser :=      (* acc in reverse order *)
  match acc with
  | s :: r => {| ps_labels := ps_labels s; ps_points := ps_points s ++ [p] |} :: r
  | [] => []
  end.
Fixpoint select_loop (rows : list prow) (lastFp : N) (acc : list pser) : list pser :=
  match rows with
  | [] => rev acc
  | r :: rest =>
    if negb (N.eqb lastFp (pr_fp r)) || N.eqb lastFp 0
    then select_loop rest (pr_fp r) ({| ps_labels := pr_labels r; ps_points := [(pr_bits r, pr_ts r)] |} :: acc)
    else select_loop rest lastFp (add_point acc (pr_bits r, pr_ts r))
  end.
Definition select_series (rows : list prow) : list pser := select_loop rows 0 [].
Definition msg_point (p : N * Z) : pv := PMsg (f_dbl "value" (fst p) ++ f_i64 "timestamp" (snd p)).
Definition msg_pser (s : pser) : pv :=
  PMsg (f_rep "labels" (map msg_pair (ps_labels s)) ++ f_rep "points" (map msg_point (ps_points s))).
Definition msg_select_series (rows : list prow) : pv := PMsg (f_rep "series" (map msg_pser (select_series rows))).

(* ------------------------------------------------------------------------------------------ *)
(* RenderDiff: encoding/json of service.FlamebearerProfileV1 *)

Record fb_timeline := { tl_start : Z; tl_samples : option (list Z); tl_delta : Z;
                        tl_marks : option (list (Z * Z)) }.            (* map[int]int64: keys as encoding/json orders them *)
Record fb_heatmap := { hm_values : option (list (option (list Z))); hm_tbuckets : Z; hm_vbuckets : Z; hm_start : Z; hm_end : Z;
                       hm_minv : Z; hm_maxv : Z; hm_mind : Z; hm_maxd : Z }.
Record fb_v1 := { fb_names : option (list string); fb_levels : option (list (option (list Z))); fb_ticks : Z; fb_maxself : Z }.
Record fb_meta := { md_format : string; md_spy : string; md_rate : Z; md_units : string; md_name : string }.
Record fb_profile := { fp_fb : option fb_v1; fp_meta : fb_meta; fp_timeline : option fb_timeline;
                       fp_groups : option (list (string * fb_timeline));      (* map[string]...: keys in sorted order *)
                       fp_heatmap : option fb_heatmap; fp_left : Z; fp_right : Z }.

Definition fb_jopt {A : Type} (f : A -> json) (o : option A) : json := match o with Some x => f x | None => JNull end.
Definition fb_jints (l : option (list Z)) : json := jslice jint l.
Definition fb_timeline_val (t : fb_timeline) : json :=
  JObj [("startTime", jint (tl_start t)); ("samples", fb_jints (tl_samples t)); ("durationDelta", jint (tl_delta t));
        ("watermarks", fb_jopt (fun m => JObj (map (fun kv => (int_text (fst kv), jint (snd kv))) m)) (tl_marks t))].
Definition fb_heatmap_val (h : fb_heatmap) : json :=
  JObj [("values", jslice fb_jints (hm_values h)); ("timeBuckets", jint (hm_tbuckets h)); ("valueBuckets", jint (hm_vbuckets h));
        ("startTime", jint (hm_start h)); ("endTime", jint (hm_end h)); ("minValue", jint (hm_minv h));
        ("maxValue", jint (hm_maxv h)); ("minDepth", jint (hm_mind h)); ("maxDepth", jint (hm_maxd h))].
Definition fb_v1_val (f : fb_v1) : json :=
  JObj [("names", jslice JStr (fb_names f)); ("levels", jslice fb_jints (fb_levels f));
        ("numTicks", jint (fb_ticks f)); ("maxSelf", jint (fb_maxself f))].
Definition fb_meta_val (m : fb_meta) : json :=
  JObj [("format", JStr (md_format m)); ("spyName", JStr (md_spy m)); ("sampleRate", jint (md_rate m));
        ("units", JStr (md_units m)); ("name", JStr (md_name m))].
Definition fb_profile_val (p : fb_profile) : json :=
  JObj [("flamebearer", fb_jopt fb_v1_val (fp_fb p)); ("metadata", fb_meta_val (fp_meta p));
        ("timeline", fb_jopt fb_timeline_val (fp_timeline p));
        ("groups", fb_jopt (fun g => JObj (map (fun kv => (fst kv, fb_timeline_val (snd kv))) g)) (fp_groups p));
        ("heatmap", fb_jopt fb_heatmap_val (fp_heatmap p));
        ("leftTicks", jint (fp_left p)); ("rightTicks", jint (fp_right p))].

Definition fb_nl : string := str1 10.
(* json.NewEncoder(w).Encode(v): the value and a line break *)
Definition enc_render_diff (p : fb_profile) : list token := tokensJ_of (fb_profile_val p) ++ [TWs fb_nl].
Definition doc_render_diff (p : fb_profile) : json := sanitize_doc (fb_profile_val p).

(* ------------------------------------------------------------------------------------------ *)
(* defaultError: strconv.Quote(message). Exact for ASCII messages: the double quote and the backslash get a backslash,
   \a \b \f \n \r \t \v, other bytes < 0x20 and DEL as \xXY (lower-case hex), the printable rest copied.  Bytes >= 0x80:
   strconv copies printable runes, writes \u / \U escapes for the others and \xXY for ill-formed bytes (not modelled). *)
Definition goq_char (c : ascii) : string :=
  let n := code c in
  let bs (m : N) := String (chr 92) (str1 m) in
  if (n =? 34)%N then bs 34%N
  else if (n =? 92)%N then bs 92%N
  else if (n =? 7)%N then bs 97%N
  else if (n =? 8)%N then bs 98%N
  else if (n =? 12)%N then bs 102%N
  else if (n =? 10)%N then bs 110%N
  else if (n =? 13)%N then bs 114%N
  else if (n =? 9)%N then bs 116%N
  else if (n =? 11)%N then bs 118%N
  else if (n <? 32)%N || (n =? 127)%N then
    String (chr 92) (String (chr 120) (String (hexdig (n / 16)) (String (hexdig (n mod 16)) EmptyString)))
  else String c EmptyString.
Fixpoint goq_body (s : string) : string :=
  match s with EmptyString => EmptyString | String c r => (goq_char c ++ goq_body r)%string end.
Definition go_quote_ascii (s : string) : string := String (chr 34) (goq_body s ++ str1 34)%string.
Fixpoint ascii_only (s : string) : bool :=
  match s with EmptyString => true | String c r => (code c <? 128)%N && ascii_only r end.
(* the ASCII bytes for which what strconv.Quote writes is also the JSON spelling *)
Definition goq_json_char (c : ascii) : bool :=
  let n := code c in
  ((32 <=? n)%N && (n <? 127)%N) || (n =? 8)%N || (n =? 9)%N || (n =? 10)%N || (n =? 12)%N || (n =? 13)%N.
Fixpoint goq_json_safe (s : string) : bool :=
  match s with EmptyString => true | String c r => goq_json_char c && goq_json_safe r end.

(* ------------------------------------------------------------------------------------------ *)
(* transported cases:  id | kind | coin | status | #items { item } | out     (fields as in JsonStream: ~xx escapes) *)

Inductive pkind := PKNames | PKValues | PKSeries | PKTypes | PKSelect | PKDiff | PKErr.
Record pcase := { pc_id : Z; pc_kind : pkind; pc_sp : bool; pc_status : N; pc_items : list string; pc_out : string }.

(* a cursor over the items *)
Definition pcur (A : Type) : Type := list string -> option (A * list string).
Definition pret {A : Type} (x : A) : pcur A := fun l => Some (x, l).
Definition pbind {A B : Type} (p : pcur A) (f : A -> pcur B) : pcur B :=
  fun l => match p l with Some (x, r) => f x r | None => None end.
Definition t_str : pcur string := fun l => match l with x :: r => Some (x, r) | [] => None end.
Definition t_Z : pcur Z := pbind t_str (fun s => pret (dec_Z s)).
Definition t_N : pcur N := pbind t_str (fun s => pret (dec_N s 0)).
Definition t_nat : pcur nat := pbind t_str (fun s => pret (dec_nat s)).
Fixpoint t_rep {A : Type} (p : pcur A) (n : nat) : pcur (list A) :=
  match n with
  | O => pret []
  | S n => pbind p (fun x => pbind (t_rep p n) (fun r => pret (x :: r)))
  end.
Definition t_list {A : Type} (p : pcur A) : pcur (list A) := pbind t_nat (t_rep p).
(* flag 0 = nil *)
Definition t_opt {A : Type} (p : pcur A) : pcur (option A) :=
  pbind t_nat (fun fl => match fl with O => pret None | _ => pbind p (fun x => pret (Some x)) end).
Definition t_pair {A B : Type} (p : pcur A) (q : pcur B) : pcur (A * B) := pbind p (fun x => pbind q (fun y => pret (x, y))).

Definition t_srow : pcur srow :=
  pbind t_str (fun tp => pbind t_str (fun pt => pbind t_str (fun pu => pbind t_str (fun st => pbind t_str (fun su =>
  pbind (t_list (t_pair t_str t_str)) (fun tags =>
  pret {| sr_tp := tp; sr_pt := pt; sr_pu := pu; sr_st := st; sr_su := su; sr_tags := tags |})))))).
Definition t_prow : pcur prow :=
  pbind t_Z (fun ts => pbind t_N (fun fp => pbind t_N (fun bits => pbind (t_list (t_pair t_str t_str)) (fun ls =>
  pret {| pr_ts := ts; pr_fp := fp; pr_labels := ls; pr_bits := bits |})))).
Definition t_timeline : pcur fb_timeline :=
  pbind t_Z (fun st => pbind (t_opt (t_list t_Z)) (fun sm => pbind t_Z (fun de => pbind (t_opt (t_list (t_pair t_Z t_Z))) (fun mk =>
  pret {| tl_start := st; tl_samples := sm; tl_delta := de; tl_marks := mk |})))).
Definition t_rows : pcur (option (list (option (list Z)))) := t_opt (t_list (t_opt (t_list t_Z))).
Definition t_heatmap : pcur fb_heatmap :=
  pbind t_rows (fun vs => pbind (t_rep t_Z 8) (fun ns =>
  pret {| hm_values := vs; hm_tbuckets := nth 0 ns 0%Z; hm_vbuckets := nth 1 ns 0%Z; hm_start := nth 2 ns 0%Z; hm_end := nth 3 ns 0%Z;
         hm_minv := nth 4 ns 0%Z; hm_maxv := nth 5 ns 0%Z; hm_mind := nth 6 ns 0%Z; hm_maxd := nth 7 ns 0%Z |})).
Definition t_fb : pcur fb_v1 :=
  pbind (t_opt (t_list t_str)) (fun nm => pbind t_rows (fun lv => pbind t_Z (fun tk => pbind t_Z (fun ms =>
  pret {| fb_names := nm; fb_levels := lv; fb_ticks := tk; fb_maxself := ms |})))).
Definition t_meta : pcur fb_meta :=
  pbind t_str (fun f => pbind t_str (fun s => pbind t_Z (fun r => pbind t_str (fun u => pbind t_str (fun n =>
  pret {| md_format := f; md_spy := s; md_rate := r; md_units := u; md_name := n |}))))).
Definition t_profile : pcur fb_profile :=
  pbind (t_opt t_fb) (fun fb => pbind t_meta (fun md => pbind (t_opt t_timeline) (fun tl =>
  pbind (t_opt (t_list (t_pair t_str t_timeline))) (fun gr => pbind (t_opt t_heatmap) (fun hm => pbind t_Z (fun l => pbind t_Z (fun r =>
  pret {| fp_fb := fb; fp_meta := md; fp_timeline := tl; fp_groups := gr; fp_heatmap := hm; fp_left := l; fp_right := r |}))))))).
(* the whole item list must be consumed *)
Definition pwhole {A : Type} (p : pcur A) (l : list string) : option A :=
  match p l with Some (x, []) => Some x | _ => None end.

Definition pcase_msg (c : pcase) : option pv :=
  match pc_kind c with
  | PKNames => Some (msg_label_names (pc_items c))
  | PKValues => Some (msg_label_values (pc_items c))
  | PKSeries => option_map msg_series (pwhole (t_list t_srow) (pc_items c))
  | PKTypes => option_map msg_profile_types (pwhole (t_list t_srow) (pc_items c))
  | PKSelect => option_map msg_select_series (pwhole (t_list t_prow) (pc_items c))
  | _ => None
  end.
Definition pcase_profile (c : pcase) : option fb_profile := pwhole t_profile (pc_items c).
Definition pcase_text (c : pcase) : string := match pc_items c with m :: _ => m | [] => EmptyString end.

(* model = implementation: status and bytes.  Error bodies (defaultError) are json.Marshal of the message *)
Definition pyro_mismatch (c : pcase) : bool :=
  match pc_kind c with
  | PKDiff =>
    match pcase_profile c with
    | Some p => negb (String.eqb (render (enc_render_diff p)) (pc_out c) && N.eqb (pc_status c) 200)
    | None => true
    end
  | PKErr =>
    let m := pcase_text c in
    negb (String.eqb (pc_out c) (gojson_quote m))
  | _ =>
    match pcase_msg c with
    | Some v =>
      negb (String.eqb (pyro_body (pc_sp c) v) (pc_out c) && N.eqb (pyro_status v) (pc_status c))
    | None => true
    end
  end.

(* the property on what the implementation sent.  Status 200: one JSON document, equal (member order free) to the
   document of the rows, ill-formed UTF-8 replaced by U+FFFD at most.  Another status (the error answers): the body is one
   JSON string.  Error texts: the JSON string of the message. *)
Definition pj_is_jstr (d : json) : bool := match d with JStr _ => true | _ => false end.
Definition pyro_want (c : pcase) : option json :=
  match pc_kind c with
  | PKDiff => option_map doc_render_diff (pcase_profile c)
  | PKErr => Some (JStr (sanitize (pcase_text c)))
  | _ => option_map (fun v => sanitize_doc (pj_json v)) (pcase_msg c)
  end.
Definition pyro_violation (c : pcase) : bool :=
  match parse_bytes (pc_out c), pyro_want c with
  | Some d, Some want =>
    match pc_kind c with
    | PKErr => negb (json_eq d want)
    | _ => if N.eqb (pc_status c) 200 then negb (json_eq d want) else negb (pj_is_jstr d)
    end
  | _, _ => true
  end.
(* the rows did not come back: a response message holding a string that is not UTF-8 is answered with status 500 *)
Definition pyro_refused (c : pcase) : bool :=
  match pc_kind c with
  | PKDiff | PKErr => false
  | _ => negb (N.eqb (pc_status c) 200)
  end.
Definition pyro_unreadable (c : pcase) : bool := match parse_bytes (pc_out c) with Some _ => false | None => true end.

Definition dec_pkind (s : string) : option pkind :=
  if String.eqb s "names" then Some PKNames
  else if String.eqb s "values" then Some PKValues
  else if String.eqb s "series" then Some PKSeries
  else if String.eqb s "types" then Some PKTypes
  else if String.eqb s "select" then Some PKSelect
  else if String.eqb s "diff" then Some PKDiff
  else if String.eqb s "err" then Some PKErr else None.
Definition decode_pcase (x : lbytes) : option pcase :=
  match split_bar (string_of_list_byte (unLB x)) (fun y => y) with
  | id :: kind :: coin :: st :: n :: r =>
    match dec_pkind kind, rev r with
    | Some k, o :: ritems =>
      if Nat.eqb (List.length ritems) (dec_nat n)
      then Some {| pc_id := dec_Z id; pc_kind := k; pc_sp := negb (N.eqb (dec_N coin 0) 0); pc_status := dec_N st 0;
                   pc_items := map unesc (rev ritems); pc_out := unesc o |}
      else None
    | _, _ => None
    end
  | _ => None
  end.
Fixpoint decode_pcases (xs : list lbytes) : list pcase :=
  match xs with
  | [] => []
  | x :: r => match decode_pcase x with Some c => c :: decode_pcases r | None => decode_pcases r end
  end.
Definition pundecodable (xs : list lbytes) : nat :=
  List.length (filter (fun x => match decode_pcase x with Some _ => false | None => true end) xs).

Definition pyro_mismatches (cs : list pcase) : list Z := map pc_id (filter pyro_mismatch cs).
Definition pyro_spec_violations (cs : list pcase) : list Z := map pc_id (filter pyro_violation cs).
Definition pyro_refusals (cs : list pcase) : list Z := map pc_id (filter pyro_refused cs).
Definition pyro_unreadables (cs : list pcase) : list Z := map pc_id (filter pyro_unreadable cs).
