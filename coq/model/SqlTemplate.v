(* C10 — a statement shape: the texts between the places where one quoted value is written.
   [fill] instantiates the shape; [tpl_ok] is the value-independent condition under which the token
   skeleton of every instance is the same (SqlTemplateProofs).  Executable definitions only. *)
From Coq Require Import List String Ascii Bool.
From Qryn Require Import model.Quote model.ChLex.
Import ListNotations.
Open Scope string_scope.

(* x written before each of the remaining texts *)
Fixpoint fill_rest (rest : list string) (x : string) : string :=
  match rest with [] => EmptyString | t :: r => x ++ t ++ fill_rest r x end.
Definition fill (t0 : string) (rest : list string) (x : string) : string := t0 ++ fill_rest rest x.

(* starting in lexer state q with text t, then a quoted value before each text of rest:
   every value must arrive where a quote opens a literal, and the text after it must not begin with a
   quote (nor be empty, unless the statement ends there) *)
Fixpoint tpl_ok (q : st) (t : string) (rest : list string) : bool :=
  match rest with
  | [] => true
  | t' :: rest' =>
      opens_literal (after q t) &&
      match t' with
      | EmptyString => match rest' with [] => true | _ => false end
      | String c r => negb (Ascii.eqb c "'") && tpl_ok (fst (step_normal c)) r rest'
      end
  end.

(* General form: the value's escaped bytes (esc s) are written at places that lie inside the body of a
   string literal of the statement (the texts contain the quotes and whatever else the planner wraps
   around the value: '%...%', '^(?:...)$').  Value-independent condition: the lexer, run over the texts
   alone, is in the body of a literal (not behind a backslash) at every place. *)
Definition in_body (q : st) : bool := match q with QStr _ => true | _ => false end.
Fixpoint tplq_ok (q : st) (t : string) (rest : list string) : bool :=
  match rest with
  | [] => true
  | t' :: rest' => in_body (after q t) && tplq_ok (QStr EmptyString) t' rest'
  end.

(* the tokens of an instance, with vs = the decoded value to put at each hole *)
Fixpoint tpl_toks (q : st) (t : string) (rest : list string) (v : string) : list tok :=
  match rest with
  | [] => run q t
  | t' :: rest' =>
      outs q t ++ snd (step (after q t) "'") ++ TStr v ::
      match t' with
      | EmptyString => []
      | String c r => snd (step_normal c) ++ tpl_toks (fst (step_normal c)) r rest' v
      end
  end.

(* split at every occurrence of a non-empty needle: (text before the first, texts after each) *)
Fixpoint drop (n : nat) (s : string) : string :=
  match n, s with S k, String _ r => drop k r | _, _ => s end.
Fixpoint split_fuel (fuel : nat) (needle s : string) : string * list string :=
  match fuel with
  | O => (s, [])
  | S f =>
      match s with
      | EmptyString => (EmptyString, [])
      | String c r =>
          if prefix needle s then
            let '(a, l) := split_fuel f needle (drop (String.length needle) s) in (EmptyString, a :: l)
          else let '(a, l) := split_fuel f needle r in (String c a, l)
      end
  end.
Definition split_all (needle s : string) : string * list string :=
  match needle with
  | EmptyString => (s, [])
  | _ => split_fuel (S (String.length s)) needle s
  end.
