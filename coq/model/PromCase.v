(* Specification oracle and comparison functions for the generated selection cases of C17
   (checks/promsel.py).  The implementation's SQL text is parsed back into a Sql.v tree by the check
   (the parse is validated here: its rendering must reproduce the text byte for byte) and evaluated
   by the reference interpreter PromSem over the case's database; the result is judged against the
   Prometheus meaning of the matchers.  Executable definitions only. *)
From Coq Require Import List ZArith NArith String Ascii Bool.
From Qryn Require Import lib.Strs model.Sql model.SqlRender model.Logql model.LogqlPlan
  model.PromSelect model.PromSel model.PromSem.
Import ListNotations.
Open Scope string_scope.

(* ---------- Prometheus semantics of a matcher set over a label set ---------- *)
Section SPEC.
  Variable re_full : string -> string -> bool.      (* re_full v p : v matches ^(?:p)$ *)

  Definition label_value (l : labels) (k : string) : string :=
    match find (fun kv => String.eqb (fst kv) k) l with Some kv => snd kv | None => "" end.
  Definition has_label (l : labels) (k : string) : bool := existsb (fun kv => String.eqb (fst kv) k) l.
  Definition prom_match_val (op : mop) (x v : string) : bool :=
    match op with
    | MEq => String.eqb v x
    | MNeq => negb (String.eqb v x)
    | MRe => re_full v x
    | MNre => negb (re_full v x)
    end.
  Definition prom_matches (ms : list matcher) (l : labels) : bool :=
    forallb (fun m => prom_match_val (m_op m) (m_val m) (label_value l (m_name m))) ms.

  (* stored metric series: rows of time_series of type 2 (metrics) or 0 (both), indexed from day D on *)
  Definition metric_series (D : Z) (s : tsrow) : bool := (D <=? t_date s)%Z && ((t_type s =? 2)%Z || (t_type s =? 0)%Z).
  Definition expected_fps (D : Z) (ms : list matcher) (series : list tsrow) : list N :=
    nodup N.eq_dec (map t_fp (filter (fun s => metric_series D s && prom_matches ms (t_labels s)) series)).
  Definition expected_rows (h : hints) (ms : list matcher) (db : database) : list row :=
    raw_rows (h_start h * 1000000) (h_end h * 1000000) 2
             (expected_fps (from_day (h_start h * 1000000)) ms (d_series db)) (d_samples db).
End SPEC.

Fixpoint tbl_lookup (t : list (string * string * bool)) (v p : string) : bool :=
  match t with
  | [] => false
  | (p', v', b) :: r => if String.eqb p p' && String.eqb v v' then b else tbl_lookup r v p
  end.

Definition row_eqb (a b : row) : bool := N.eqb (r_fp a) (r_fp b) && Z.eqb (r_val a) (r_val b) && Z.eqb (r_ts a) (r_ts b).
Definition orows_eqb (a b : option (list row)) : bool :=
  match a, b with Some x, Some y => list_eqb row_eqb x y | None, None => true | _, _ => false end.

Record semcase := {
  se_id : Z; se_cluster : bool; se_hints : hints; se_ms : list matcher; se_db : database;
  se_impl : select;                              (* parse of the SQL text the implementation sent *)
  se_text : string;                              (* that text *)
  se_search : list (string * string * bool);     (* (pattern, value, RE2 search result), patterns p and ^(?:p)$ *)
  se_full : list (string * string * bool)        (* (pattern, value, Prometheus anchored result) *)
}.

(* the query keeps the raw samples untouched: no step bucketing, no modulo filter *)
Definition plain_hints (h : hints) : bool :=
  Z.eqb (h_step h) 0 || (negb (is_instant (h_func h)) && negb (is_range (h_func h) && (h_range h <? h_step h)%Z)).

(* why the SQL may legitimately (= recorded findings) differ from the Prometheus meaning *)
Definition absent_label_case (re_full : string -> string -> bool) (ms : list matcher) (db : database) : bool :=
  existsb (fun m => prom_match_val re_full (m_op m) (m_val m) "" &&
                    existsb (fun s => negb (has_label (t_labels s) (m_name m))) (d_series db)) ms.
(* verdict codes:
   0 ok;  1 the parse does not render back to the text;  2 the interpreter has no value for the query;
   3 model tree and implementation text mean different row lists;  4 rows differ from the Prometheus
   meaning although no recorded cause applies;  5 .. explained by: absent label accepted by a matcher;
   7 .. more than 8 matchers (UInt8 shift);  8 no matcher at all *)
Definition sem_verdict (c : semcase) : Z :=
  let search := tbl_lookup (se_search c) in
  let full := tbl_lookup (se_full c) in
  let h := se_hints c in
  match render (se_impl c) (se_cluster c) with
  | None => 1
  | Some t =>
    if negb (String.eqb t (se_text c)) then 1 else
    let impl_rows := eval_prom search (se_impl c) (se_db c) in
    let model_rows := eval_prom search (fst (querier_transpile (se_cluster c) "qryn" h (se_ms c))) (se_db c) in
    match impl_rows with
    | None => 2
    | Some rows =>
      if plain_hints h && negb (list_eqb row_eqb rows (expected_rows full h (se_ms c) (se_db c))) then
        match se_ms c with
        | [] => 8
        | _ => if Nat.ltb 8 (List.length (se_ms c)) then 7
               else if absent_label_case full (se_ms c) (se_db c) then 5
               else 4
        end
      else if negb (orows_eqb impl_rows model_rows) then 3
      else 0
    end
  end%Z.

(* the Select loop's model decision for MapResult *)
Definition querier_mr (cluster : bool) (h : hints) (ms : list matcher) : bool := snd (querier_transpile cluster "qryn" h ms).
