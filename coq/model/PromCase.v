(* Specification oracle and comparison functions for the generated selection cases of C17
   (checks/promsel.py).  The implementation's SQL text is parsed back into a Sql.v tree by the check
   (the parse is validated here: its rendering must reproduce the text byte for byte) and evaluated
   by the reference interpreter PromSem over the case's database; the result is judged against the
   Prometheus meaning of the matchers.  Executable definitions only. *)
From Coq Require Import List ZArith NArith String Ascii Bool.
From Qryn Require Import lib.Strs model.Sql model.SqlRender model.Logql model.LogqlPlan
  model.PromSelect model.PromSel model.PromSem model.ProfSel model.ProfSem.
Import ListNotations.
Open Scope string_scope.

(* ---------- Prometheus semantics of a matcher set over a label set ---------- *)
Section SPEC.
  Variable re_full : string -> string -> bool.      (* re_full v p : v matches ^(?:p)$ *)

  Definition label_value (l : labels) (k : string) : string :=
    match find (fun kv => String.eqb (fst kv) k) l with Some kv => snd kv | None => "" end.
  Definition has_label (l : labels) (k : string) : bool := existsb (fun kv => String.eqb (fst kv) k) l.
  Notation prom_match_val := (PromSel.prom_match_val re_full).     (* labels.Matcher.Matches, defined with the planner *)
  Definition prom_matches (ms : list matcher) (l : labels) : bool :=
    forallb (fun m => prom_match_val (m_op m) (m_val m) (label_value l (m_name m))) ms.

  (* stored metric series: rows of time_series of type 2 (metrics) or 0 (both), indexed from day D on *)
  Definition metric_series (D : Z) (s : tsrow) : bool := (D <=? t_date s)%Z && ((t_type s =? 2)%Z || (t_type s =? 0)%Z).
  Definition expected_fps (D : Z) (ms : list matcher) (series : list tsrow) : list N :=
    nodup N.eq_dec (map t_fp (filter (fun s => metric_series D s && prom_matches ms (t_labels s)) series)).
  (* the requested range, as Prometheus means it: [hints.Start, hints.End] in milliseconds, both ends included,
     the sample's millisecond being the floor of its nanosecond timestamp; metric-typed rows only *)
  Definition in_range_ms (h : hints) (s : samplerow) : bool :=
    (h_start h <=? sm_ts_ns s / 1000000)%Z && (sm_ts_ns s / 1000000 <=? h_end h)%Z.
  Definition metric_sample (s : samplerow) : bool := (sm_type s =? 2)%Z || (sm_type s =? 0)%Z.
  Definition expected_rows (h : hints) (ms : list matcher) (db : database) : list row :=
    let fps := expected_fps (from_day (h_start h * 1000000)) ms (d_series db) in
    map to_row (isort PromSem.sample_lt
                  (filter (fun s => in_range_ms h s && metric_sample s && existsb (N.eqb (sm_fp s)) fps) (d_samples db))).
  (* Prometheus refuses a selector whose matchers all accept the empty string; the planner has nothing to look up
     in the label index for it *)
  Definition selective (ms : list matcher) : bool := existsb (fun m => negb (accepts_empty re_full m)) ms.
End SPEC.

Definition row_eqb (a b : row) : bool := N.eqb (r_fp a) (r_fp b) && Z.eqb (r_val a) (r_val b) && Z.eqb (r_ts a) (r_ts b).
Definition orows_eqb (a b : option (list row)) : bool :=
  match a, b with Some x, Some y => list_eqb row_eqb x y | None, None => true | _, _ => false end.

Record semcase := {
  se_id : Z; se_cluster : bool; se_hints : hints; se_ms : list matcher; se_db : database;
  se_impl : select;                              (* parse of the SQL text the implementation sent *)
  se_text : string;                              (* that text *)
  se_search : list (string * string * bool);     (* (pattern, value, RE2 search result), patterns p and ^(?:p)$ *)
  se_full : list (string * string * bool)        (* (pattern, value, Prometheus anchored result) *)
}.

(* the query keeps the raw samples untouched: no step bucketing, no modulo filter *)
Definition plain_hints (h : hints) : bool :=
  Z.eqb (h_step h) 0 || (negb (is_instant (h_func h)) && negb (is_range (h_func h) && (h_range h <? h_step h)%Z)).

(* ---- processHints judged on the rows: what the engine sees at its evaluation times ----
   The engine (LookbackDelta 0 in prometheusQueryRangeRouter.go = the 5 min default) asks an instant selector
   with hints.Start = first evaluation time - 5 min and a range selector with hints.Start = first evaluation
   time - range; evaluation times advance by hints.Step up to hints.End. *)
Definition lookback_ms : Z := 300000.
Fixpoint grid (n : nat) (t step e : Z) : list Z :=
  match n with O => [] | S n' => if (t <=? e)%Z then t :: grid n' (t + step)%Z step e else [] end.
Definition opt_Z_eqb (a b : option Z) : bool :=
  match a, b with Some x, Some y => Z.eqb x y | None, None => true | _, _ => false end.
Definition all_fps (a b : list row) : list N := nodup N.eq_dec (map r_fp (a ++ b)).

(* the staleness edge of step bucketing at evaluation time T with look-back L: the latest sample at or before T is older
   than the look-back, but the end of its step bucket (its new stamp) is not *)
Definition stale_edge (start step L T : Z) (l : list sample) : bool :=
  match latest_le T l with
  | Some s => (fst s <? T - L)%Z && (T - L <=? bucket_of start step (fst s))%Z
  | None => false
  end.
(* the guard under which the engine is proved to see the raw samples through processHints (theorem
   promql_over_raw_samples_partial): the statement is left alone, or the evaluation times lie on the grid the rewrite
   assumes -- Step divides the look-back for step bucketing (then still apart from stale edges, a condition on the data),
   Start + Range is a multiple of Step for the modulo filter *)
Definition hints_guard (h : hints) : bool :=
  if Z.eqb (h_step h) 0 then true
  else if is_instant (h_func h) then (0 <? h_step h)%Z && Z.eqb (Z.rem lookback_ms (h_step h)) 0
  else if is_range (h_func h) && (h_range h <? h_step h)%Z then (0 <=? h_range h)%Z && Z.eqb (Z.rem (h_start h + h_range h) (h_step h)) 0
  else true.

(* the same guard for an engine configured with another look-back L (promql.EngineOpts.LookbackDelta; qryn passes 0 = the
   5 min default, checked against prometheusQueryRangeRouter.go on every run): hints_guard = hints_guard_L lookback_ms *)
Definition hints_guard_L (L : Z) (h : hints) : bool :=
  if Z.eqb (h_step h) 0 then true
  else if is_instant (h_func h) then (0 <? h_step h)%Z && Z.eqb (Z.rem L (h_step h)) 0
  else if is_range (h_func h) && (h_range h <? h_step h)%Z then (0 <=? h_range h)%Z && Z.eqb (Z.rem (h_start h + h_range h) (h_step h)) 0
  else true.

(* the rows the statement of Select yields for the hints, as a function of the rows of the Prometheus meaning
   (theorem prom_rows_all_hints): processHints' three cases *)
Definition hinted_rows (h : hints) (rows : list row) : list row :=
  if Z.eqb (h_step h) 0 then rows
  else if is_instant (h_func h) then bucket_rows (h_start h) (h_step h) rows
  else if is_range (h_func h) && (h_range h <? h_step h)%Z
       then filter (fun r => range_keep (h_step h) (h_range h) (r_ts r, r_val r)) rows
  else rows.

(* 0 = the engine sees the same; 9 = the list reading (bucket_series / range_filter) is not what the statement
   computes; 10 = instant look-ups differ, evaluation times off the bucket grid; 12 = only a sample older than
   the look-back shows up after re-stamping; 11 = range windows lose samples, evaluation times off the modulo
   grid; 4 = differs although the grids agree *)
Definition hints_verdict (h : hints) (raw impl : list row) : Z :=
  let fps := all_fps raw impl in
  if is_instant (h_func h) then
    let reading_ok := forallb (fun fp => samples_eqb (bucket_series (h_start h) (h_step h) (rows_of fp raw)) (rows_of fp impl)) fps in
    let times := grid 64 (h_start h + lookback_ms) (h_step h) (h_end h) in
    let same := forallb (fun fp => forallb (fun T => opt_Z_eqb (visible lookback_ms T (rows_of fp impl)) (visible lookback_ms T (rows_of fp raw))) times) fps in
    (* every differing look-up is a stale edge (the complement of the proved region: step_bucket_exact_on_grid) *)
    let only_stale := forallb (fun fp => forallb (fun T =>
                         opt_Z_eqb (visible lookback_ms T (rows_of fp impl)) (visible lookback_ms T (rows_of fp raw))
                         || stale_edge (h_start h) (h_step h) lookback_ms T (rows_of fp raw)) times) fps in
    if negb reading_ok then 9
    else if same then 0
    else if negb (hints_guard h) then 10
    else if only_stale then 12 else 4
  else if is_range (h_func h) && (h_range h <? h_step h)%Z then
    let reading_ok := forallb (fun fp => samples_eqb (range_filter (h_step h) (h_range h) (rows_of fp raw)) (rows_of fp impl)) fps in
    let times := grid 64 (h_start h + h_range h) (h_step h) (h_end h) in
    let same := forallb (fun fp => forallb (fun T => samples_eqb (window (h_range h) T (rows_of fp impl)) (window (h_range h) T (rows_of fp raw))) times) fps in
    if negb reading_ok then 9
    else if same then 0
    else if negb (hints_guard h) then 11 else 4
  else 0.

(* verdict codes:
   0 ok;  1 the parse does not render back to the text;  2 the interpreter has no value for the query;
   3 model tree and implementation text mean different row lists;  4 rows differ from the Prometheus
   meaning although no recorded cause applies;  (5 was: profile selector accepting an absent label, repaired);  7 .. more than 63 matchers (64-bit shift);  8 no matcher rejects the empty string (not a PromQL selector);
   9 .. 12 see hints_verdict *)
Definition sem_verdict (c : semcase) : Z :=
  let search := tbl_lookup (se_search c) in
  let full := tbl_lookup (se_full c) in
  let h := se_hints c in
  match render (se_impl c) (se_cluster c) with
  | None => 1
  | Some t =>
    if negb (String.eqb t (se_text c)) then 1 else
    let impl_rows := eval_prom search (se_impl c) (se_db c) in
    let model_rows := eval_prom search (fst (querier_transpile full (se_cluster c) "qryn" h (se_ms c))) (se_db c) in
    match impl_rows with
    | None => 2
    | Some rows =>
      if plain_hints h && negb (list_eqb row_eqb rows (expected_rows full h (se_ms c) (se_db c))) then
        (if negb (selective full (se_ms c)) then 8
         else if Nat.ltb 63 (List.length (se_ms c)) then 7
         else 4)
      else if negb (orows_eqb impl_rows model_rows) then 3
      else if plain_hints h then 0
      else
        (* the same statement without processHints (Step = 0), under the interpreter: the raw rows *)
        let h0 := {| h_start := h_start h; h_end := h_end h; h_step := 0; h_func := h_func h; h_range := h_range h |} in
        match eval_prom search (fst (querier_transpile full (se_cluster c) "qryn" h0 (se_ms c))) (se_db c) with
        | None => 2
        | Some raw => hints_verdict h raw rows
        end
    end
  end%Z.

(* the rows the reference interpreter answers to one statement of a PromQL engine run (harness promeng):
   code 0 ok, 1 the parse does not render back to the text, 2 no value *)
Definition engine_rows (impl : select) (text : string) (db : database) (search : list (string * string * bool)) : Z * list row :=
  match render impl false with
  | None => (1%Z, [])
  | Some t =>
    if negb (String.eqb t text) then (1%Z, [])
    else match eval_prom (tbl_lookup search) impl db with
         | None => (2%Z, [])
         | Some rows => (0%Z, rows)
         end
  end.

(* one Select of a multi-Select run on one querier (harness promsel, kind "multi"): the labels request is answered
   from the series table by the list reading fetch_rows with the window of THIS call *)
Definition multi_answer (series : list tsrow) (from_ms to_ms : Z) (fps : list N) : list fetch_row :=
  fetch_rows (from_day (from_ms * 1000000)) (to_ms / 86400000)%Z fps series.
Definition multi_scase (id : Z) (cluster : bool) (h : hints) (ms : list matcher) (rows : list row) (series : list tsrow)
    (obs : list out_series) : scase :=
  {| sc_id := id; sc_mr := snd (querier_transpile (fun _ _ => false) cluster "qryn" h ms); sc_rows := rows;
     sc_fetch := multi_answer series (h_start h) (h_end h) (fps_of rows); sc_obs := obs |}.

(* the Select loop's model decision for MapResult *)
Definition querier_mr (cluster : bool) (h : hints) (ms : list matcher) : bool := snd (querier_transpile (fun _ _ => false) cluster "qryn" h ms).

(* ====================== profile selectors ====================== *)
(* a stored profile series on one day: the attributes behind the pseudo labels, and its labels *)
Record pstored := { p_fp : N; p_date : Z; p_type_id : string; p_service : string; p_stu : list (string * string); p_labels : labels }.
Definition pgin_of (series : list pstored) : list pginrow :=
  flat_map (fun s => map (fun kv => {| pg_date := p_date s; pg_key := fst kv; pg_val := snd kv; pg_fp := p_fp s;
                                       pg_type_id := p_type_id s; pg_service := p_service s; pg_stu := p_stu s |}) (p_labels s)) series.

Section PSPEC.
  Variable re_full : string -> string -> bool.
  (* Pyroscope meaning, at the granularity the statement works at (one stored series = one fingerprint x
     profile type x day): a pseudo label is read from the series' type id / sample types / service name,
     any other name from its labels (absent = "") *)
  Definition sel_matches (sel : selector) (s : pstored) : bool :=
    match pseudo_of (sl_name sel) with
    | Some p => pseudo_ok re_full p (sl_op sel) (sl_val sel) (split_char ":" (p_type_id s) "") (p_service s) (p_stu s)
    | None => prom_match_val re_full (sl_op sel) (sl_val sel) (label_value (p_labels s) (sl_name sel))
    end.
  Definition prof_expected (D1 D2 : Z) (sels : list selector) (series : list pstored) : list N :=
    nodup N.eq_dec (map p_fp (filter (fun s => (D1 <=? p_date s)%Z && (p_date s <=? D2)%Z && forallb (fun sel => sel_matches sel s) sels) series)).
End PSPEC.

Record psemcase := {
  pe_id : Z; pe_cluster : bool; pe_table : string; pe_from_ns : Z; pe_to_ns : Z; pe_sels : list selector;
  pe_series : list pstored; pe_impl : select; pe_text : string;
  pe_search : list (string * string * bool); pe_full : list (string * string * bool)
}.
Definition sortN (l : list N) : list N := isort N.ltb l.
Definition kv_count (sels : list selector) : nat :=
  List.length (filter (fun s => match pseudo_of (sl_name s) with None => true | Some _ => false end) sels).
Definition prof_absent_case (re_full : string -> string -> bool) (sels : list selector) (series : list pstored) : bool :=
  existsb (fun sel => match pseudo_of (sl_name sel) with
                      | Some _ => false
                      | None => prom_match_val re_full (sl_op sel) (sl_val sel) "" &&
                                existsb (fun s => negb (has_label (p_labels s) (sl_name sel))) series
                      end) sels.

(* verdict codes as for sem_verdict; 9 = the list-function reading disagrees with the interpreter on the model tree *)
Definition psem_verdict (c : psemcase) : Z :=
  let search := tbl_lookup (pe_search c) in
  let full := tbl_lookup (pe_full c) in
  let rows := pgin_of (pe_series c) in
  let D1 := from_day (pe_from_ns c) in
  let D2 := (pe_to_ns c / (86400 * 1000000000))%Z in
  match render (pe_impl c) (pe_cluster c) with
  | None => 1
  | Some t =>
    if negb (String.eqb t (pe_text c)) then 1 else
    if fpq_undefined search (prof_cte search rows) (pe_impl c) (map pgin_env rows) then 2 else
    let impl := sortN (eval_prof_sel search (pe_impl c) rows) in
    let model := sortN (eval_prof_sel search (prof_selector_abs full (pe_table c) (pe_from_ns c) (pe_to_ns c) (pe_sels c)) rows) in
    let reading := sortN (prof_fp_sel_abs search D1 D2 (map prof_selector_val (prof_indexed_sels full (pe_sels c)))
                            (map (fun s => prof_selector_val (sel_inverse s)) (prof_absent_sels full (pe_sels c))) rows) in
    let expected := sortN (prof_expected full D1 D2 (pe_sels c) (pe_series c)) in
    if negb (list_eqb N.eqb impl expected) then
      (if Nat.ltb 63 (kv_count (pe_sels c)) then 7 else 4)
    else if negb (list_eqb N.eqb impl model) then 3
    else if negb (list_eqb N.eqb model reading) then 9
    else 0
  end%Z.
