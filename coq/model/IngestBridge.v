(* C02, the bridge between the parsers and the insert services ("parser_output_wf").

   C05's model/IngestPipe.v runs the REGENERATED append programs of the batching handlers (onSpan: handler_prog,
   onEntries: entries_prog) at COUNT level: a batch is one length per slice field.  C02's model/Ingest.v needs more of a
   request: it is one list of CELLS (row id, column index) per INSERT column, and its theorems assume wf_reqb -- the
   request is the table of its rows.  This file runs the same programs at CELL level:

     - every element a program appends carries the identity of the submitted row it was computed from: the call of
       onSpan (one span row), the pair (call of onSpan, attribute index i) (one attribute row), the i-th position of the
       parallel slices handed to one call of onEntries (one sample row), one announced (day, type) pair of that call (one
       series row), one call of onProfile (one profile row).  Row identities are drawn from a counter that is never reset
       (also not by a flush), so the rows of the chunks of one push are pairwise different;
     - the slice fields become INSERT columns in the order of the acquirer's serialize()/toIFace(), through the field the
       ProcessRequest closure reads for each column (kind_fields; regenerated from writer/service/impl by
       translate/gen_c02_columns and compared on every run);
     - what the parser goroutine sends on its channel becomes the `item` list of a push of model/PushHandler.v: one IChunk
       per response, sub-requests in the order of doParse's doPush calls (time series, samples, span attributes, spans,
       profile), IError for an error response (decoder error, recovered panic, refused id widths).

   Erasing the identities gives C05's count-level run (proofs/IngestBridgeProofs.v: *_abs), so everything C05's
   pipefuzz harness compares with the real onSpan / onEntries carries over.  Executable definitions only. *)
From Coq Require Import List String Ascii ZArith NArith Bool.
From Qryn Require Import model.IngestRobust model.IngestPipe.
From Qryn Require Import model.Ingest model.PushHandler model.IngestSpec.
Import ListNotations.
Open Scope string_scope.

(* ------------------------------------------------------------------------------------------ *)
(** * 1. Slice fields whose elements remember their row *)

Definition fcols := list (string * list N).           (* slice field -> the row each of its elements belongs to *)
Definition zero_fcols (fields : list string) : fcols := map (fun f => (f, @nil N)) fields.
Definition const_fcols (fields : list string) (ids : list N) : fcols := map (fun f => (f, ids)) fields.
(* p.t.f = append(p.t.f, l...) *)
Definition push_many (f : string) (l : list N) (m : fcols) : fcols :=
  map (fun kv => if String.eqb (fst kv) f then (fst kv, (snd kv ++ l)%list) else kv) m.
Definition push (f : string) (rid : N) (m : fcols) : fcols := push_many f [rid] m.
(* erasing the identities: the count level of model/IngestPipe.v *)
Definition counts (m : fcols) : IngestPipe.cols := map (fun kv => (fst kv, N.of_nat (List.length (snd kv)))) m.
Definition field_ids (f : string) (m : fcols) : list N :=
  match find (fun kv => String.eqb (fst kv) f) m with Some kv => snd kv | None => [] end.

(* the INSERT columns of a service, as the slice field of the request struct its ProcessRequest closure reads for each, in
   the order of serialize()/toIFace() (writer/service/impl/*.go) *)
Definition kind_fields (k : kind) : list string :=
  match k with
  | KSamples => ["MType"; "MFingerprint"; "MTimestampNS"; "MMessage"; "MValue"]
  | KSeries => ["MType"; "MDate"; "MFingerprint"; "MLabels"]
  | KMetrics => ["MType"; "MFingerprint"; "MTimestampNS"; "MValue"]
  | KSpans => ["MTraceId"; "MSpanId"; "MParentId"; "MName"; "MTimestampNs"; "MDurationNs"; "MServiceName"; "MPayloadType"; "MPayload"]
  | KTags => ["MDate"; "MKey"; "MVal"; "MTraceId"; "MSpanId"; "MTimestampNs"; "MDurationNs"]
  | KProfile => ["TimestampNs"; "Ptype"; "ServiceName"; "SamplesTypesUnits"; "PeriodType"; "PeriodUnit"; "Tags"; "DurationNs";
                 "PayloadType"; "Payload"; "ValuesAgg"; "Tree"; "Function"]
  end.

(* the request as model/Ingest.v sees it: column j holds the cells (row, j) of the field read for column j *)
Fixpoint req_from (j : nat) (order : list string) (m : fcols) : req :=
  match order with
  | [] => []
  | f :: r => map (fun rid => (rid, j)) (field_ids f m) :: req_from (S j) r m
  end.
Definition req_of (k : kind) (m : fcols) : req := req_from 0 (kind_fields k) m.

(* the service a route wired for each kind of sub-request (round-robin group number), and the size the request reports *)
Record wiring := { w_series : nat; w_samples : nat; w_samples_kind : kind; w_tags : nat; w_spans : nat; w_profile : nat }.

(* ------------------------------------------------------------------------------------------ *)
(** * 2. onSpan at cell level (the interpreter of IngestPipe.v section 3 with identities) *)

Record cbatch := { cb_spans : fcols; cb_attrs : fcols; cb_size : N; cb_next : N }.
Definition cbatch0 (sf af : list string) (next : N) : cbatch :=
  {| cb_spans := zero_fcols sf; cb_attrs := zero_fcols af; cb_size := 0; cb_next := next |}.
Definition abs_cb (b : cbatch) : batch :=
  {| b_spans := counts (cb_spans b); b_attrs := counts (cb_attrs b); b_size := cb_size b |}.
Definition bump_next (b : cbatch) : cbatch :=
  {| cb_spans := cb_spans b; cb_attrs := cb_attrs b; cb_size := cb_size b; cb_next := (cb_next b + 1)%N |}.

(* one statement, executed for the row rid *)
Definition exec_cop_c (b : cbatch) (o : cop) (rid : N) (i nvals : nat) : option cbatch :=
  if cop_panics o i nvals then None
  else match o with
       | CApp TSpans f _ => Some {| cb_spans := push f rid (cb_spans b); cb_attrs := cb_attrs b; cb_size := cb_size b; cb_next := cb_next b |}
       | CApp TAttrs f _ => Some {| cb_spans := cb_spans b; cb_attrs := push f rid (cb_attrs b); cb_size := cb_size b; cb_next := cb_next b |}
       | CSize _ _ => Some b
       end.
Fixpoint exec_cops_c (b : cbatch) (os : list cop) (rid : N) (i nvals : nat) : option cbatch :=
  match os with
  | [] => Some b
  | o :: r => match exec_cop_c b o rid i nvals with Some b' => exec_cops_c b' r rid i nvals | None => None end
  end.
(* for i, k := range key { ... }: every iteration is a row of its own *)
Fixpoint exec_loop_c (b : cbatch) (os : list cop) (i todo nvals : nat) : option cbatch :=
  match todo with
  | O => Some b
  | S t => match exec_cops_c b os (cb_next b) i nvals with
           | Some b' => exec_loop_c (bump_next b') os (S i) t nvals
           | None => None
           end
  end.

Inductive ccol_step := CStOk (b : cbatch) (sent : list cbatch) | CStErr | CStPanic.
Definition on_span_cells (h : handler_prog) (sf af : list string) (b : cbatch) (s : span_ev) : ccol_step :=
  if hp_width_check h && negb ((se_tid s =? 16)%N && (se_sid s =? 8)%N) then CStErr
  else match exec_cops_c b (hp_once h) (cb_next b) O (se_vals s) with
       | None => CStPanic
       | Some b1 =>
           match exec_loop_c (bump_next b1) (hp_loop h) O (se_keys s) (se_vals s) with
           | None => CStPanic
           | Some b2 =>
               let b3 := {| cb_spans := cb_spans b2; cb_attrs := cb_attrs b2; cb_size := (cb_size b2 + se_bytes s)%N; cb_next := cb_next b2 |} in
               if (MiB <? cb_size b3)%N
               then CStOk (if hp_flush_resets h then cbatch0 sf af (cb_next b3) else b3) [b3]
               else CStOk b3 []
           end
       end.

Fixpoint sent_cbatches (h : handler_prog) (sf af : list string) (b : cbatch) (evs : list col_event) : list cbatch :=
  match evs with
  | [] => [b]
  | CvPanic :: _ => []
  | CvErr _ :: _ => []
  | CvSpan s :: rest =>
      match on_span_cells h sf af b s with
      | CStErr | CStPanic => []
      | CStOk b' sent => (sent ++ sent_cbatches h sf af b' rest)%list
      end
  end.

(* doParse: doPush(TimeSeriesRequest) [nil], doPush(SamplesRequest) [nil], doPush(SpansAttrsRequest), doPush(SpansRequest),
   doPush(ProfileRequest) [nil]; a nil request is answered at once and is no sub-request of the model *)
Definition span_chunk (w : wiring) (b : cbatch) : item :=
  IChunk [(w_tags w, KTags, req_of KTags (cb_attrs b), Z.of_N (cb_size b));
          (w_spans w, KSpans, req_of KSpans (cb_spans b), Z.of_N (cb_size b))].
(* everything the parser goroutine of a span route sends, in order *)
Fixpoint span_items (h : handler_prog) (sf af : list string) (w : wiring) (b : cbatch) (evs : list col_event) : list item :=
  match evs with
  | [] => [span_chunk w b]                    (* Decode returned nil: the last batch, also when empty *)
  | CvPanic :: _ => [IError]                  (* tamePanic *)
  | CvErr _ :: _ => [IError]
  | CvSpan s :: rest =>
      match on_span_cells h sf af b s with
      | CStErr | CStPanic => [IError]
      | CStOk b' sent => (map (span_chunk w) sent ++ span_items h sf af w b' rest)%list
      end
  end.

(* ------------------------------------------------------------------------------------------ *)
(** * 3. onEntries at cell level (IngestPipe.v section 9 with identities) *)

(* the rows base, base+1, ..., base+n-1 *)
Definition ids_from (base : N) (n : nat) : list N := map (fun i => (base + N.of_nat i)%N) (seq 0 n).

Record clbatch := { cl_spl : fcols; cl_ts : fcols; cl_size : N; cl_next : N }.
Definition clbatch0 (sf tf : list string) (next : N) : clbatch :=
  {| cl_spl := zero_fcols sf; cl_ts := zero_fcols tf; cl_size := 0; cl_next := next |}.
Definition abs_cl (b : clbatch) : lbatch :=
  {| lb_spl := counts (cl_spl b); lb_ts := counts (cl_ts b); lb_size := cl_size b |}.

(* the rows one call can name: position i of the four slices is row base + i; the series rows come after them *)
Definition ent_span (e : ent_ev) : nat := Nat.max (Nat.max (en_ts e) (en_msg e)) (Nat.max (en_val e) (en_types e)).

Inductive clstep := CLOk (b : clbatch) (sent : list clbatch) | CLPanic.
Definition on_entries_cells (p : entries_prog) (sf tf : list string) (b : clbatch) (e : ent_ev) : clstep :=
  if en_lbl_short e then CLPanic
  else
    let base := cl_next b in
    (* append(spl.<f>, <slice>...): the i-th element of every slice belongs to the i-th entry of this call *)
    let spl1 := fold_left (fun m o => push_many (lop_field o) (ids_from base (src_len e (lop_src o))) m) (ep_spl p) (cl_spl b) in
    if en_bad_type e || Nat.ltb (en_msg e) (en_ts e) then CLPanic
    else
      let base2 := (base + N.of_nat (ent_span e))%N in
      (* once per announced (day, type): one element to each field of the time-series request *)
      let ts1 := fold_left (fun m f => push_many f (ids_from base2 (en_series e)) m) (ep_ts p) (cl_ts b) in
      let b3 := {| cl_spl := spl1; cl_ts := ts1; cl_size := (cl_size b + en_bytes e)%N;
                   cl_next := (base2 + N.of_nat (en_series e))%N |} in
      if (MiB <? cl_size b3)%N then CLOk (if ep_flush_resets p then clbatch0 sf tf (cl_next b3) else b3) [b3] else CLOk b3 [].

Fixpoint sent_clbatches (p : entries_prog) (sf tf : list string) (b : clbatch) (evs : list lcol_event) : list clbatch :=
  match evs with
  | [] => [b]
  | LcPanic :: _ => []
  | LcErr _ :: _ => []
  | LcEntries e :: rest =>
      match on_entries_cells p sf tf b e with
      | CLPanic => []
      | CLOk b' sent => (sent ++ sent_clbatches p sf tf b' rest)%list
      end
  end.

(* timeSeriesAndSamples.flush: TimeSeriesRequest and SamplesRequest, both non-nil; the samples request goes to the service
   the route wired as "splService" (samples on the log routes, metrics on the metric routes) *)
Definition logs_chunk (w : wiring) (b : clbatch) : item :=
  IChunk [(w_series w, KSeries, req_of KSeries (cl_ts b), Z.of_N (cl_size b));
          (w_samples w, w_samples_kind w, req_of (w_samples_kind w) (cl_spl b), Z.of_N (cl_size b))].
Fixpoint logs_items (p : entries_prog) (sf tf : list string) (w : wiring) (b : clbatch) (evs : list lcol_event) : list item :=
  match evs with
  | [] => [logs_chunk w b]
  | LcPanic :: _ => [IError]
  | LcErr _ :: _ => [IError]
  | LcEntries e :: rest =>
      match on_entries_cells p sf tf b e with
      | CLPanic => [IError]
      | CLOk b' sent => (map (logs_chunk w) sent ++ logs_items p sf tf w b' rest)%list
      end
  end.

(* ------------------------------------------------------------------------------------------ *)
(** * 4. onProfile at cell level *)

(* p.profile after `rows` calls of onProfile for the rows first .. first+rows-1: eight slices are appended per call
   (TimestampNs, Ptype, ServiceName, PeriodType, PeriodUnit, DurationNs, PayloadType, Payload), five fields are ASSIGNED
   (SamplesTypesUnits, Tags, ValuesAgg, Function, Tree: the value of the last call) and ProcessRequest appends each of
   them as ONE element of its array column *)
Definition prof_assigned (f : string) : bool :=
  existsb (String.eqb f) ["SamplesTypesUnits"; "Tags"; "ValuesAgg"; "Tree"; "Function"].
Definition prof_fcols (first : N) (rows : nat) : fcols :=
  map (fun f => (f, if prof_assigned f then match rows with O => [] | S r => [(first + N.of_nat r)%N] end
                    else ids_from first rows)) (kind_fields KProfile).
Definition prof_chunk (w : wiring) (first : N) (rows : nat) (sz : Z) : item :=
  IChunk [(w_profile w, KProfile, req_of KProfile (prof_fcols first rows), sz)].
(* the responses of a profile push: tags = the bytes each onProfile call accounts (IngestPipe.prof_batches counts the same
   flushes); the batch left at the end is sent only when it has rows *)
Fixpoint prof_items (w : wiring) (first : N) (rows : nat) (tags : list N) (e : IngestPipe.pend) : list item :=
  match tags with
  | [] => match e with
          | PendNil => match rows with O => [] | S _ => [prof_chunk w first rows 0] end
          | _ => [IError]
          end
  | t :: rest =>
      let rows' := S rows in
      if (MiB <? 16 + 6 * N.of_nat rows' + t)%N
      then prof_chunk w first rows' 0 :: prof_items w (first + N.of_nat rows')%N O rest e
      else prof_items w first rows' rest e
  end.

(* ------------------------------------------------------------------------------------------ *)
(** * 5. A push as the routes produce it *)

(* what a request body is to the parser goroutine: the events its decoder turns it into *)
Inductive parsed :=
| PSpans (w : wiring) (first : N) (evs : list col_event)          (* the Zipkin / OTLP trace routes *)
| PLogs (w : wiring) (first : N) (evs : list lcol_event)          (* every log and metric route *)
| PProfile (w : wiring) (first : N) (tag : N) (e : IngestPipe.pend).   (* /ingest: the pprof decoders call onProfile at most once *)

Definition samples_kind_ok (k : kind) : bool := match k with KSamples | KMetrics => true | _ => false end.
(* the decoders' side of the contract *)
Definition parsed_ok (x : parsed) : bool :=
  match x with
  | PSpans _ _ _ => true
  | PLogs w _ evs => events_consistent evs && samples_kind_ok (w_samples_kind w)
  | PProfile _ _ _ _ => true
  end.
Definition items_of (h : handler_prog) (sf af : list string) (p : entries_prog) (lf tf : list string) (x : parsed) : list item :=
  match x with
  | PSpans w first evs => span_items h sf af w (cbatch0 sf af first) evs
  | PLogs w first evs => logs_items p lf tf w (clbatch0 lf tf first) evs
  | PProfile w first t e => prof_items w first O [t] e
  end.
(* with the programs as transcribed in IngestPipe.v (compared with the regenerated ones on every run) *)
Definition items_of_model : parsed -> list item :=
  items_of on_span_cols_model spans_fields_model attrs_fields_model on_entries_cols_model spl_fields_model tsd_fields_model.

(* the fields ProcessRequest reads exist in the struct the handler fills (else the column would stay empty) *)
Definition fields_cover (fields : list string) (k : kind) : bool :=
  forallb (fun f => existsb (String.eqb f) fields) (kind_fields k).
Definition bridge_ok (h : handler_prog) (sf af : list string) (p : entries_prog) (lf tf : list string) : bool :=
  handler_ok h sf af (kind_fields KSpans) (kind_fields KTags)
  && entries_ok p lf tf (kind_fields KSamples) (kind_fields KSeries)
  && fields_cover lf KMetrics.

(* the column tables regenerated from writer/service/impl (translate/gen_c02_columns): per service
   (ServiceType, [(INSERT column, request field read for it)]) in serialize order *)
Definition service_kind (s : string) : option kind :=
  if String.eqb s "samples" then Some KSamples else if String.eqb s "time_series" then Some KSeries
  else if String.eqb s "metrics" then Some KMetrics else if String.eqb s "traces" then Some KSpans
  else if String.eqb s "traces_tags" then Some KTags else if String.eqb s "profile" then Some KProfile else None.
Fixpoint strs_eqb' (a b : list string) : bool :=
  match a, b with [], [] => true | x :: r, y :: r' => String.eqb x y && strs_eqb' r r' | _, _ => false end.
Definition columns_ok (gen : list (string * list (string * string))) : bool :=
  Nat.eqb (List.length gen) 6
  && forallb (fun sc => match service_kind (fst sc) with
                        | Some k => strs_eqb' (map snd (snd sc)) (kind_fields k) && Nat.eqb (List.length (snd sc)) (ncols k)
                        | None => false
                        end) gen.

(* the details of the closures (gen_c02_details): per service the request fields appended as ONE element (the five assigned
   fields of ProfileData, none elsewhere), the column `inserted` is measured on (= keycol), no column appended twice, no
   append statement the translator did not understand *)
Definition same_set (a b : list string) : bool :=
  forallb (fun x => existsb (String.eqb x) b) a && forallb (fun x => existsb (String.eqb x) a) b.
Fixpoint index_of (x : string) (l : list string) (i : nat) : option nat :=
  match l with [] => None | y :: r => if String.eqb x y then Some i else index_of x r (S i) end.
Definition key_ok (k : kind) (cs : list (string * string)) (key : string) : bool :=
  if String.eqb key "#0" then Nat.eqb (keycol k) 0        (* res[0].Size() *)
  else match index_of key (map fst cs) 0 with Some i => Nat.eqb i (keycol k) | None => false end.
Definition details_ok (gen : list (string * list (string * string)))
                      (det : list (string * string * list string * string * list string * Z)) : bool :=
  Nat.eqb (List.length det) 6
  && forallb (fun d => let '(s, _, single, key, dup, unk) := d in
                match service_kind s, find (fun sc => String.eqb (fst sc) s) gen with
                | Some k, Some sc => Z.eqb unk 0 && is_nil dup && key_ok k (snd sc) key
                                     && same_set single (filter prof_assigned (kind_fields k))
                | _, _ => false
                end) det.
(* the set of fields C05's translator saw the span / log services read = the columns' fields found here (two translators) *)
Definition consumed_agree (spans attrs spl tsd : list string) : bool :=
  same_set spans (kind_fields KSpans) && same_set attrs (kind_fields KTags)
  && same_set spl (kind_fields KSamples) && same_set tsd (kind_fields KSeries).

(* ---------------------------------------------------------------- the loops of the ProcessRequest closures (gen_c02_loops)
   model/Ingest.v `eff` appends to column j ONE value per element of a request field: the field read for j, except that the
   time-series closure appends Labels inside the range over MDate (`eff_series`: firstn (length MDate) MLabels).  That is what the
   code does only while every loop body is straight-line: a `continue` / `break` / `return` / `if` inside a body makes an iteration
   append to fewer columns than another one (seeded change C02-e: pre-1970 rows skipped in the loop that appends date and labels,
   while the loops appending fingerprint and type are untouched -- the block is torn and every later row shifted).  The translator
   emits, per closure, every range loop whose body appends -- (field ranged over, columns appended, number of such control
   statements) -- and the number of appends guarded by anything else / exits between the first and the last append. *)
Definition count_fields (k : kind) : list string :=
  match k with
  | KSeries => ["MType"; "MDate"; "MFingerprint"; "MDate"]
  | _ => kind_fields k
  end.
Definition loop_t := (string * list string * Z)%type.
(* the field whose length decides how many values column `c` receives, read off the loops: the field of the (first) loop that
   appends to c; a column no loop appends to receives its own field as a whole (AppendArr / single element: details_ok) *)
Definition loop_count_field (cs : list (string * string)) (loops : list loop_t) (c : string) : option string :=
  match find (fun l => existsb (String.eqb c) (snd (fst l))) loops with
  | Some l => Some (fst (fst l))
  | None => match find (fun cf => String.eqb (fst cf) c) cs with Some cf => Some (snd cf) | None => None end
  end.
Definition opt_str_eqb (a : option string) (b : string) : bool := match a with Some x => String.eqb x b | None => false end.
Definition loops_ok (gen : list (string * list (string * string))) (lp : list (string * list loop_t * Z)) : bool :=
  Nat.eqb (List.length lp) 6
  && forallb (fun sl => let '(s, loops, guarded) := sl in
                match service_kind s, find (fun sc => String.eqb (fst sc) s) gen with
                | Some k, Some sc =>
                    Z.eqb guarded 0
                    && forallb (fun l : loop_t => Z.eqb (snd l) 0) loops
                    (* a column is appended by at most one loop *)
                    && forallb (fun c => Nat.leb (List.length (filter (fun l : loop_t => existsb (String.eqb c) (snd (fst l))) loops)) 1) (map fst (snd sc))
                    (* and receives as many values as the model's eff gives it *)
                    && Nat.eqb (List.length (snd sc)) (List.length (count_fields k))
                    && forallb (fun cf => opt_str_eqb (loop_count_field (snd sc) loops (fst (fst cf))) (snd cf)) (combine (snd sc) (count_fields k))
                | _, _ => false
                end) lp.
(* what the straight-line loops append for a request whose field f has `len f` elements: per column, in serialize order *)
Definition appended_counts (cs : list (string * string)) (loops : list loop_t) (len : string -> nat) : list nat :=
  map (fun cf => match loop_count_field cs loops (fst cf) with Some f => len f | None => O end) cs.
(* the loop tables of the unchanged tree (the regenerated ones must pass loops_ok; these are the witnesses of the Examples) *)
Definition series_columns_model : list (string * string) := [("Type", "MType"); ("Date", "MDate"); ("Fingerprint", "MFingerprint"); ("Labels", "MLabels")].
Definition series_loops_model : list loop_t := [("MDate", ["Date"; "Labels"], 0%Z); ("MFingerprint", ["Fingerprint"], 0%Z); ("MType", ["Type"], 0%Z)].
(* seeded C02-e: the first loop holds an `if` and a `continue` *)
Definition series_loops_c02e : list loop_t := [("MDate", ["Date"; "Labels"], 2%Z); ("MFingerprint", ["Fingerprint"], 0%Z); ("MType", ["Type"], 0%Z)].
