(* The process time zone in the trace write path (property C06).

   The only place where the span write path builds a time.Time is builder.go onSpan: the [date] cell of every
   tempo_traces_attrs_gin row is  MDate = time.Unix(timestampNs/1000000000, 0).UTC() , turned into the Date column by ch-go's
   ColDate.Append = proto.ToDate:  zero time -> 0, otherwise  Date((t.Unix() + offset of t's zone) / 86400)  (Go's truncating
   division, then the conversion to uint16).  time.Unix hands out a Time in the zone of the PROCESS (time.Local); .UTC() replaces
   the zone by offset 0.  [Spans.date_of] is the result with offset 0.  Here the zone is explicit: a [location] gives the offset in
   force at an instant (constant for a fixed zone, any function for a zone with transitions), [span_date false] is onSpan's
   expression, [span_date true] the expression without .UTC() (time.Unix(0, timestampNs): seeded change C06-f; the writer before
   /repo 71ffd5d) whose day is the writer's LOCAL calendar day.  Executable definitions only. *)
From Coq Require Import List ZArith Bool String.
From Qryn Require Import model.Spans.
Import ListNotations.
Open Scope Z_scope.

(* what proto.ToDate looks at: the instant (whole seconds since 1970 and the nanoseconds within the second) and the offset, in
   seconds east of UTC, of the zone the value carries at that instant *)
Record gotime := { gt_sec : Z; gt_nsec : Z; gt_off : Z }.

Definition location := Z -> Z.                       (* instant (unix seconds) -> offset in force *)
Definition utc_loc : location := fun _ => 0.
Definition fixed_zone (off : Z) : location := fun _ => off.          (* time.FixedZone *)

(* time.Unix(sec, nsec): nsec outside [0, 1e9) is carried into sec (floor), the value is in the process zone *)
Definition time_unix (local : location) (sec nsec : Z) : gotime :=
  let s := sec + nsec / 1000000000 in
  {| gt_sec := s; gt_nsec := nsec mod 1000000000; gt_off := local s |}.
(* Time.UTC(): the same instant, offset 0 *)
Definition in_utc (t : gotime) : gotime := {| gt_sec := gt_sec t; gt_nsec := gt_nsec t; gt_off := 0 |}.

(* Time.IsZero: January 1, year 1, 00:00:00.0 UTC *)
Definition zero_sec : Z := -62135596800.
Definition is_zero (t : gotime) : bool := (gt_sec t =? zero_sec) && (gt_nsec t =? 0).

(* ch-go proto.ToDate followed by the uint16 conversion of Date(...) *)
Definition to_date (t : gotime) : Z :=
  if is_zero t then 0 else (Z.quot (gt_sec t + gt_off t) 86400) mod 65536.

(* onSpan's MDate expression ([local_quirk] = false) and the expression of the seeded change / of the writer before 71ffd5d *)
Definition span_date_time (local_quirk : bool) (local : location) (ts : Z) : gotime :=
  if local_quirk then time_unix local 0 ts
  else in_utc (time_unix local (Z.quot ts 1000000000) 0).
Definition span_date (local_quirk : bool) (local : location) (ts : Z) : Z := to_date (span_date_time local_quirk local ts).

(* the rows of a request with the date cell of every tag row computed by [d] from the row's timestamp_ns: the write path in a
   process whose MDate expression is [d] (nothing else in it looks at a clock or a zone) *)
Definition set_date (d : Z -> Z) (a : arow) : arow :=
  {| a_key := a_key a; a_val := a_val a; a_trace := a_trace a; a_span := a_span a; a_ts := a_ts a; a_dur := a_dur a; a_date := d (a_ts a) |}.
Definition redate (d : Z -> Z) (rows : list span_rows) : list span_rows := map (fun sr => (fst sr, map (set_date d) (snd sr))) rows.
Definition decode_in_zone (local_quirk : bool) (local : location) (q : quirks) (i : input) : option (list span_rows) :=
  option_map (redate (span_date local_quirk local)) (decode q i).

(* the UTC day of a timestamp in nanoseconds, as the reader's planners compute it for the ends of a search window *)
Definition ns_per_day : Z := 86400 * 1000000000.
Definition utc_day (ts : Z) : Z := ts / ns_per_day.

(* ------------------------------------------------------------------ cases: a request parsed and stored by a writer process running in a fixed zone *)
Record zncase := { zn_case : case; zn_off : Z }.
(* model = implementation: every observed tag row carries the day onSpan's expression gives in the writer's zone *)
Definition zone_dates_match (local_quirk : bool) (c : zncase) : bool :=
  forallb (fun a => a_date a =? span_date local_quirk (fixed_zone (zn_off c)) (a_ts a)) (c_tags (zn_case c)).
Definition zone_mismatches (cs : list zncase) : list Z := map (fun c => c_id (zn_case c)) (filter (fun c => negb (zone_dates_match false c)) cs).
(* diagnosis: the observed days are the writer's LOCAL days *)
Definition zone_local_explains (cs : list zncase) : list Z :=
  map (fun c => c_id (zn_case c)) (filter (fun c => negb (zone_dates_match false c) && zone_dates_match true c) cs).
(* the property's oracle, independent of the time.Time model: a tag row of a span that starts at or after 1970 bears the UTC day of
   its timestamp_ns (the day every reader planner restricts [date] to) *)
Definition zone_spec_violations (cs : list zncase) : list Z :=
  map (fun c => c_id (zn_case c))
      (filter (fun c => negb (forallb (fun a => if 0 <=? a_ts a then a_date a =? (utc_day (a_ts a)) mod 65536 else true) (c_tags (zn_case c)))) cs).
