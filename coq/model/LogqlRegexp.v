(* C07 - the expression of a `| regexp "..."` stage as the planner reads it (transcription of the participle grammar of
   reader/logql/logql_transpiler_v2/clickhouse_planner/planner_parser_regexp.go):

     regexParserDesc (lexer.MustSimple: at every position the FIRST rule that matches wins)
        OBrackQ  \(\?P<        OBrackN  \(\?        OBrack  \(        CBrack  \)        CCBrack  >
        Ident    [a-zA-Z_][0-9a-zA-Z_]*          Char    \\.|.      (`.` does not match a line feed)
     regexAST   = regexPart+
     regexPart  = (Char|CCBrack|Ident)+  |  OBrackQ brackPart CBrack  |  OBrackN regexAST CBrack  |  OBrack regexAST CBrack
     brackPart  = Ident CCBrack regexAST?
   (OBrackN / NonCapPart since the repair regexp-noncapturing-group: `(?:x)`, `(?i)` open no capture group; they were read as
   plain groups and got a name slot, so the names no longer lined up with the groups RE2 extracts.)

   regexAST.String() prints the expression that is sent to ClickHouse (every `(?P<name>` becomes `(`);
   regexAST.collectGroupNames(nil) lists the label names the capture groups are paired with ("" for an unnamed group).
   The grammar is LL(1) (the alternatives of regexPart start with different tokens), so participle's parse is the
   recursive descent below; a failure anywhere is an error of Process (no SQL). `(?P<name>)` has no Tail: it is sent as `()`
   (both methods dereferenced the nil Tail and the request panicked before the same repair).

   The SPEC side (what "capture group i" means for the text): tok_names / tok_sent read the token list from left to
   right - group i is the i-th opening token (RE2 and extractAllGroupsHorizontal number capture groups by their opening
   parenthesis). proofs/LogqlRegexpProofs.v: the transcribed methods agree with them on every accepted expression.
   Executable definitions only. *)
From Coq Require Import List String Ascii Bool.
From Qryn Require Import lib.Strs.
Import ListNotations.
Open Scope string_scope.

Inductive rtok := TOBrackQ | TOBrackN | TOBrack | TCBrack | TCCBrack | TIdent (s : string) | TChar (s : string).

Definition is_ident_start (c : ascii) : bool := is_lower c || is_upper c || Ascii.eqb c "_".
Definition is_ident_char (c : ascii) : bool := is_ident_start c || is_digit c.
Definition lf_char : ascii := ascii_of_nat 10.

(* the longest run of identifier characters in front of s *)
Fixpoint take_ident (s : string) : string * string :=
  match s with
  | String c r => if is_ident_char c then let '(a, b) := take_ident r in (String c a, b) else (EmptyString, s)
  | EmptyString => (EmptyString, EmptyString)
  end.
Fixpoint drop_s (n : nat) (s : string) : string :=
  match n, s with S n', String _ r => drop_s n' r | _, _ => s end.

(* None = "invalid input text" (only a line feed has no rule) *)
Fixpoint lex (fuel : nat) (s : string) : option (list rtok) :=
  match fuel with
  | O => match s with EmptyString => Some [] | _ => None end
  | S f =>
    match s with
    | EmptyString => Some []
    | String c r =>
      let cons (t : rtok) (rest : string) := match lex f rest with Some ts => Some (t :: ts) | None => None end in
      if prefixb "(?P<" s then cons TOBrackQ (drop_s 4 s)
      else if prefixb "(?" s then cons TOBrackN (drop_s 2 s)
      else if Ascii.eqb c "(" then cons TOBrack r
      else if Ascii.eqb c ")" then cons TCBrack r
      else if Ascii.eqb c ">" then cons TCCBrack r
      else if is_ident_start c then let '(a, b) := take_ident r in cons (TIdent (String c a)) b
      else if Ascii.eqb c "\" then
        match r with
        | String d r2 => if Ascii.eqb d lf_char then cons (TChar (ch c)) r else cons (TChar (String c (ch d))) r2
        | EmptyString => cons (TChar (ch c)) r
        end
      else if Ascii.eqb c lf_char then None
      else cons (TChar (ch c)) r
    end
  end.
Definition lex_re (s : string) : option (list rtok) := lex (String.length s) s.

(* ---------- the AST ---------- *)
Inductive rpart :=
 | RSimple (s : string)                           (* SimplePart: the texts of its tokens, concatenated *)
 | RNamed (name : string) (tail : list rpart)     (* NamedBrackPart; tail = [] is the nil Tail *)
 | RNonCap (body : list rpart)                    (* NonCapPart *)
 | RBrack (body : list rpart).                    (* BrackPart *)

Definition simple_tok (t : rtok) : option string :=
  match t with TChar s | TIdent s => Some s | TCCBrack => Some ">" | _ => None end.
Fixpoint take_simple (ts : list rtok) : string * list rtok :=
  match ts with
  | t :: r => match simple_tok t with
              | Some s => let '(a, b) := take_simple r in (s ++ a, b)
              | None => (EmptyString, ts) end
  | [] => (EmptyString, [])
  end.

(* regexPart* up to a CBrack or the end of input *)
Fixpoint parts (fuel : nat) (ts : list rtok) : option (list rpart * list rtok) :=
  match fuel with
  | O => None
  | S f =>
    match ts with
    | [] => Some ([], [])
    | TCBrack :: _ => Some ([], ts)
    | TOBrack :: r =>
      match parts f r with
      | Some (body, TCBrack :: r2) =>
        match body with
        | [] => None                              (* RegexPart+ must match at least once *)
        | _ => match parts f r2 with Some (ps, r3) => Some (RBrack body :: ps, r3) | None => None end
        end
      | _ => None
      end
    | TOBrackN :: r =>
      match parts f r with
      | Some (body, TCBrack :: r2) =>
        match body with
        | [] => None
        | _ => match parts f r2 with Some (ps, r3) => Some (RNonCap body :: ps, r3) | None => None end
        end
      | _ => None
      end
    | TOBrackQ :: TIdent name :: TCCBrack :: r =>
      match parts f r with
      | Some (tail, TCBrack :: r2) =>
        match parts f r2 with Some (ps, r3) => Some (RNamed name tail :: ps, r3) | None => None end
      | _ => None
      end
    | TOBrackQ :: _ => None
    | _ =>
      let '(s, r) := take_simple ts in
      match parts f r with Some (ps, r2) => Some (RSimple s :: ps, r2) | None => None end
    end
  end.
Definition parse_toks (ts : list rtok) : option (list rpart) :=
  match parts (S (List.length ts)) ts with
  | Some (p :: ps, []) => Some (p :: ps)
  | _ => None
  end.

(* regexAST.String / regexPart.String / brackPart.String *)
Fixpoint part_string (p : rpart) : string :=
  match p with
  | RSimple s => s
  | RNamed _ tail => "(" ++ (fix go (l : list rpart) : string := match l with [] => "" | x :: r => part_string x ++ go r end) tail ++ ")"
  | RNonCap body => "(?" ++ (fix go (l : list rpart) : string := match l with [] => "" | x :: r => part_string x ++ go r end) body ++ ")"
  | RBrack body => "(" ++ (fix go (l : list rpart) : string := match l with [] => "" | x :: r => part_string x ++ go r end) body ++ ")"
  end.
Fixpoint ast_string (l : list rpart) : string :=
  match l with [] => "" | x :: r => part_string x ++ ast_string r end.

(* collectGroupNames(init): the names in the order the methods append them *)
Fixpoint part_names (p : rpart) (init : list string) : list string :=
  match p with
  | RSimple _ => init
  | RNamed name tail =>
    (fix go (l : list rpart) (acc : list string) : list string :=
       match l with [] => acc | x :: r => go r (part_names x acc) end) tail (init ++ [name])%list
  | RNonCap body =>
    (fix go (l : list rpart) (acc : list string) : list string :=
       match l with [] => acc | x :: r => go r (part_names x acc) end) body init
  | RBrack body =>
    (fix go (l : list rpart) (acc : list string) : list string :=
       match l with [] => acc | x :: r => go r (part_names x acc) end) body (init ++ [""])%list
  end.
Fixpoint ast_names (l : list rpart) (init : list string) : list string :=
  match l with [] => init | x :: r => ast_names r (part_names x init) end.

(* ParserPlanner.regexp: parseRe(Vals[0]), then (ast.String(), ast.collectGroupNames(nil)); None = error *)
Definition re_plan (re : string) : option (string * list string) :=
  match lex_re re with
  | Some ts =>
    match parse_toks ts with
    | Some ast => Some (ast_string ast, ast_names ast [])
    | None => None
    end
  | None => None
  end.

(* ---------- the spec side: groups by opening token ---------- *)
Definition tok_text (t : rtok) : string :=
  match t with
  | TOBrackQ => "(?P<" | TOBrackN => "(?" | TOBrack => "(" | TCBrack => ")" | TCCBrack => ">" | TIdent s | TChar s => s
  end.
(* the label name of every capture group, in the order of the opening parentheses *)
Fixpoint tok_names (ts : list rtok) : list string :=
  match ts with
  | TOBrack :: r => "" :: tok_names r
  | TOBrackQ :: r => match r with
                     | TIdent n :: r' => n :: tok_names r'
                     | _ => tok_names r end
  | _ :: r => tok_names r
  | [] => []
  end.
(* the text with every `(?P<name>` replaced by `(`: the same groups, opened in the same order (`(?` opens none) *)
Fixpoint tok_sent (ts : list rtok) : string :=
  match ts with
  | TOBrackQ :: TIdent _ :: TCCBrack :: r => "(" ++ tok_sent r
  | t :: r => tok_text t ++ tok_sent r
  | [] => ""
  end.
