(* C01/C02: the critical sections of writer/service/genericInsertService.go (type InsertServiceV2) as data, and
   their relation to the atomic steps of model/Ingest.v.

   translate/gen_c01_regions regenerates coq/gen/GenC01Regions.v from the source on every run: every Lock/Unlock
   region of every method of *InsertServiceV2 (gen_regions: the receiver fields it writes, in order, each with a
   classification of the value written; the fields it reads; the function-typed fields and methods of fields it calls;
   what it returns) and every access to a receiver field outside any region (gen_outside).  The check demands
   gen_regions = regions_model and gen_outside = outside_model (below); proofs/IngestRegionsProofs.v proves, over
   regions_model / outside_model, that every atomic step of sstep that touches shared state corresponds to exactly one
   region, that the model fields a step may change are the (mapped) fields its region writes (frame theorem for
   sstep, for all states), that the steps without a region touch only fields no other goroutine touches, and that no
   shared field is written outside a region (read: only the three listed places).
   Executable definitions only. *)
From Coq Require Import List String ZArith Bool.
From Qryn Require Import model.Ingest.
Import ListNotations.
Open Scope string_scope.

(* the value a region assigns to a receiver field *)
Inductive rhs :=
 | RNil | RConst (z : Z) | RBool (b : bool)
 | RFresh (what : string)          (* a new object: acquireColumns(), context.WithTimeout/WithCancel, time.Now, time.NewTicker *)
 | RField (f : string)             (* the current value of receiver field f (directly or through a local taken inside the region) *)
 | RAppendSelf (x : string)        (* append(svc.f, x) assigned to svc.f *)
 | RAdd (x : string)               (* svc.f += x *)
 | RCallRes (f : string)           (* result of calling the function-typed field f *)
 | ROther (text : string).         (* anything else, e.g. a slice expression that ALIASES a local: results[:0] *)

Record region := {
  rg_func : string; rg_ord : nat;
  rg_writes : list (string * rhs);
  rg_reads : list string;
  rg_calls : list string;
  rg_returns : list rhs
}.
Inductive amode := AR | AW | AC.
Record access := { ac_func : string; ac_field : string; ac_mode : amode }.

(* ---------------------------------------------------------------- what the source is expected to contain *)
Definition regions_model : list region := [
  {| rg_func := "PlanFlush"; rg_ord := 0;
     rg_writes := [];
     rg_reads := ["insertCancel"];
     rg_calls := ["insertCancel"];
     rg_returns := [] |};
  {| rg_func := "Init"; rg_ord := 0;
     rg_writes := [("watchdog", RFresh "ticker"); ("ctx", RFresh "context"); ("cancel", RFresh "context"); ("insertCtx", RFresh "context"); ("insertCancel", RFresh "context"); ("columns", RFresh "acquireColumns"); ("lastRequest", RFresh "now"); ("running", RBool true)];
     rg_reads := ["acquireColumns"; "pushInterval"];
     rg_calls := ["acquireColumns"];
     rg_returns := [] |};
  {| rg_func := "Run"; rg_ord := 0;
     rg_writes := [("running", RBool false)];
     rg_reads := ["watchdog"];
     rg_calls := ["watchdog.Stop"];
     rg_returns := [] |};
  {| rg_func := "Request"; rg_ord := 0;
     rg_writes := [("columns", RCallRes "processRequest"); ("size", RAdd "size"); ("results", RAppendSelf "p")];
     rg_reads := ["columns"; "insertCancel"; "maxQueueSize"; "processRequest"; "results"; "size"];
     rg_calls := ["processRequest"; "insertCancel"];
     rg_returns := [] |};
  {| rg_func := "swapBuffers"; rg_ord := 0;
     rg_writes := [("insertCtx", RFresh "context"); ("insertCancel", RFresh "context"); ("columns", RFresh "acquireColumns"); ("lastSend", RFresh "now"); ("size", RConst 0); ("results", RNil)];
     rg_reads := ["acquireColumns"; "columns"; "pushInterval"; "results"; "size"];
     rg_calls := ["acquireColumns"];
     rg_returns := [RNil; RNil; RField "columns"; RField "results"; RField "size"; RNil] |}
].

Definition outside_model : list access := [
  {| ac_func := "Init"; ac_field := "running"; ac_mode := AR |};
  {| ac_func := "GetNodeName"; ac_field := "DatabaseNode"; ac_mode := AR |};
  {| ac_func := "timeoutContext"; ac_field := "DatabaseNode"; ac_mode := AR |};
  {| ac_func := "Ping"; ac_field := "DatabaseNode"; ac_mode := AR |};
  {| ac_func := "Ping"; ac_field := "lastRequest"; ac_mode := AR |};
  {| ac_func := "Ping"; ac_field := "ID"; ac_mode := AR |};
  {| ac_func := "GetState"; ac_field := "state"; ac_mode := AR |};
  {| ac_func := "Run"; ac_field := "watchdog"; ac_mode := AR |};
  {| ac_func := "Run"; ac_field := "ctx"; ac_mode := AR |};
  {| ac_func := "Run"; ac_field := "insertCtx"; ac_mode := AR |};
  {| ac_func := "ping"; ac_field := "client"; ac_mode := AR |};
  {| ac_func := "ping"; ac_field := "lastRequest"; ac_mode := AR |};
  {| ac_func := "ping"; ac_field := "client"; ac_mode := AW |};
  {| ac_func := "ping"; ac_field := "lastRequest"; ac_mode := AW |};
  {| ac_func := "Stop"; ac_field := "cancel"; ac_mode := AC |};
  {| ac_func := "Request"; ac_field := "running"; ac_mode := AR |};
  {| ac_func := "setState"; ac_field := "state"; ac_mode := AR |};
  {| ac_func := "fetchLoopIteration"; ac_field := "client"; ac_mode := AR |};
  {| ac_func := "fetchLoopIteration"; ac_field := "client"; ac_mode := AW |};
  {| ac_func := "fetchLoopIteration"; ac_field := "V3Session"; ac_mode := AC |};
  {| ac_func := "fetchLoopIteration"; ac_field := "OnBeforeInsert"; ac_mode := AR |};
  {| ac_func := "fetchLoopIteration"; ac_field := "OnBeforeInsert"; ac_mode := AC |};
  {| ac_func := "fetchLoopIteration"; ac_field := "ctx"; ac_mode := AR |};
  {| ac_func := "fetchLoopIteration"; ac_field := "DatabaseNode"; ac_mode := AR |};
  {| ac_func := "fetchLoopIteration"; ac_field := "insertRequest"; ac_mode := AR |};
  {| ac_func := "fetchLoopIteration"; ac_field := "serviceType"; ac_mode := AR |};
  {| ac_func := "fetchLoopIteration"; ac_field := "lastRequest"; ac_mode := AW |}
].

(* ---------------------------------------------------------------- the fields of the model state *)
Inductive mfield := MCols | MSize | MResults | MInflight | MClient | MPlanned | MRunning.
Definition mfield_eqb (a b : mfield) : bool :=
  match a, b with
  | MCols, MCols | MSize, MSize | MResults, MResults | MInflight, MInflight | MClient, MClient | MPlanned, MPlanned
  | MRunning, MRunning => true
  | _, _ => false
  end.
(* which model field a receiver field is (kd, grp, maxq are constants: maxQueueSize, processRequest, acquireColumns ...
   are only assigned when the service is built).  insertCtx / insertCancel together are `planned` (insertCtx done);
   lastSend, lastRequest, watchdog, ctx, cancel, state carry no model state (statistics, the watchdog clock, shutdown,
   the round-robin hint read through an atomic). *)
Definition go_field (f : string) : option mfield :=
  if String.eqb f "columns" then Some MCols
  else if String.eqb f "size" then Some MSize
  else if String.eqb f "results" then Some MResults
  else if String.eqb f "insertCtx" then Some MPlanned
  else if String.eqb f "insertCancel" then Some MPlanned
  else if String.eqb f "running" then Some MRunning
  else if String.eqb f "client" then Some MClient
  else None.
(* fields that goroutines other than the worker's own Run goroutine touch (Request and PlanFlush are called by the
   doPush goroutines / by other services): these need the mutex.  client and the portion in flight (a local of
   fetchLoopIteration) belong to the Run goroutine alone. *)
Definition shared (m : mfield) : bool :=
  match m with MCols | MSize | MResults | MPlanned | MRunning => true | MClient | MInflight => false end.

Inductive skind := KRequest | KPlan | KDial | KSwap | KSend | KDoReturn | KPingFail | KStop.
Definition kind_of (a : sact) : skind :=
  match a with
  | SRequest _ _ _ => KRequest | SPlan => KPlan | SDial _ => KDial | SSwap => KSwap | SSend => KSend
  | SDoReturn _ => KDoReturn | SPingFail => KPingFail | SStop => KStop
  end.
Definition all_kinds : list skind := [KRequest; KPlan; KDial; KSwap; KSend; KDoReturn; KPingFail; KStop].

(* the model fields a step may change *)
Definition step_writes (k : skind) : list mfield :=
  match k with
  | KRequest => [MCols; MSize; MResults; MPlanned]
  | KPlan => [MPlanned]
  | KDial => [MClient]
  | KSwap => [MCols; MSize; MResults; MPlanned; MInflight]
  | KSend => [MInflight]
  | KDoReturn => [MInflight; MClient]
  | KPingFail => [MClient]
  | KStop => [MRunning]
  end.
(* the region (function, ordinal) a step is; None: a lock-free section of the Run goroutine *)
Definition step_region (k : skind) : option (string * nat) :=
  match k with
  | KRequest => Some ("Request", 0%nat)
  | KPlan => Some ("PlanFlush", 0%nat)       (* and the expiry of the insertCtx timer, which is not code of the service *)
  | KSwap => Some ("swapBuffers", 0%nat)
  | KStop => Some ("Run", 0%nat)             (* case <-svc.ctx.Done() *)
  | KDial | KSend | KDoReturn | KPingFail => None
  end.
(* regions that are no step: Init runs before the service is handed out (svc_init is its result) *)
Definition init_regions : list (string * nat) := [("Init", 0%nat)].

Definition find_region (l : list region) (fn : string * nat) : option region :=
  find (fun r => String.eqb (rg_func r) (fst fn) && Nat.eqb (rg_ord r) (snd fn)) l.
Definition mem_mfield (m : mfield) (l : list mfield) : bool := existsb (mfield_eqb m) l.
Fixpoint filter_some {A} (l : list (option A)) : list A :=
  match l with [] => [] | Some x :: t => x :: filter_some t | None :: t => filter_some t end.
(* the model fields a region writes: assigned fields, plus planned when it calls insertCancel *)
Definition region_mwrites (r : region) : list mfield :=
  filter_some (map (fun w => go_field (fst w)) (rg_writes r)) ++
  (if existsb (String.eqb "insertCancel") (rg_calls r) then [MPlanned] else []).
Definition subsetb (a b : list mfield) : bool := forallb (fun m => mem_mfield m b) a.

(* (1) every step with a region: the region exists, and the SHARED fields the step may change are exactly the model
       fields the region writes; every step without a region changes no shared field *)
Definition step_ok (l : list region) (k : skind) : bool :=
  match step_region k with
  | Some fn =>
      match find_region l fn with
      | Some r => subsetb (filter shared (step_writes k)) (region_mwrites r) && subsetb (region_mwrites r) (step_writes k)
      | None => false
      end
  | None => forallb (fun m => negb (shared m)) (step_writes k)
  end.
(* (2) every region is the region of exactly one step kind, or Init *)
Definition region_owner_count (r : region) : nat :=
  List.length (filter (fun k => match step_region k with
                                | Some fn => String.eqb (rg_func r) (fst fn) && Nat.eqb (rg_ord r) (snd fn)
                                | None => false
                                end) all_kinds) +
  List.length (filter (fun fn : string * nat => String.eqb (rg_func r) (fst fn) && Nat.eqb (rg_ord r) (snd fn)) init_regions).
(* (3) outside the regions: no shared field is written; it is read only at the three listed places --
       Request reads running before it takes the mutex (a stopped worker's Run has returned, nothing else reads the
       batch any more, so the order of that read and Stop is not observable); Init reads it before the service is
       shared; Run's select reads insertCtx, which only swapBuffers -- the same goroutine -- replaces *)
Definition unlocked_reads : list (string * string) := [("Request", "running"); ("Init", "running"); ("Run", "insertCtx")].
Definition access_ok (a : access) : bool :=
  match go_field (ac_field a) with
  | Some m =>
      if shared m then
        match ac_mode a with
        | AR => existsb (fun p : string * string => String.eqb (fst p) (ac_func a) && String.eqb (snd p) (ac_field a)) unlocked_reads
        | _ => false
        end
      else true
  | None => true
  end.
(* (4) swapBuffers hands out what it took and leaves nothing of it behind: the portion is (columns, results, size) as
       they were, and the three fields are re-initialised with fresh / empty values -- no alias of the portion stays in
       the service (the seeded changes C01-a, C01-b, C02-b each break this line) *)
Definition swap_fresh (l : list region) : bool :=
  match find_region l ("swapBuffers", 0%nat) with
  | Some r =>
      match rg_returns r with
      | [RNil; RNil; RField c; RField rs; RField sz; RNil] =>
          String.eqb c "columns" && String.eqb rs "results" && String.eqb sz "size"
      | _ => false
      end &&
      forallb (fun w => match snd w with RNil | RConst _ | RFresh _ => true | _ => false end) (rg_writes r)
  | None => false
  end.

Definition regions_ok (l : list region) (o : list access) : bool :=
  forallb (step_ok l) all_kinds && forallb (fun r => Nat.eqb (region_owner_count r) 1) l && forallb access_ok o && swap_fresh l.

(* projection used by the frame theorem *)
Definition same_on (m : mfield) (s s' : svc) : Prop :=
  match m with
  | MCols => cols s' = cols s | MSize => size s' = size s | MResults => results s' = results s
  | MInflight => inflight s' = inflight s | MClient => client s' = client s | MPlanned => planned s' = planned s
  | MRunning => running s' = running s
  end.

(* ---------------------------------------------------------------- comparison of generated and expected data *)
Definition rhs_eqb (a b : rhs) : bool :=
  match a, b with
  | RNil, RNil => true
  | RConst x, RConst y => Z.eqb x y
  | RBool x, RBool y => Bool.eqb x y
  | RFresh x, RFresh y | RField x, RField y | RAppendSelf x, RAppendSelf y | RAdd x, RAdd y | RCallRes x, RCallRes y
  | ROther x, ROther y => String.eqb x y
  | _, _ => false
  end.
Fixpoint list_eqb {A} (f : A -> A -> bool) (a b : list A) : bool :=
  match a, b with
  | [], [] => true
  | x :: a', y :: b' => f x y && list_eqb f a' b'
  | _, _ => false
  end.
Definition region_eqb (a b : region) : bool :=
  String.eqb (rg_func a) (rg_func b) && Nat.eqb (rg_ord a) (rg_ord b) &&
  list_eqb (fun x y => String.eqb (fst x) (fst y) && rhs_eqb (snd x) (snd y)) (rg_writes a) (rg_writes b) &&
  list_eqb String.eqb (rg_reads a) (rg_reads b) && list_eqb String.eqb (rg_calls a) (rg_calls b) &&
  list_eqb rhs_eqb (rg_returns a) (rg_returns b).
Definition amode_eqb (a b : amode) : bool :=
  match a, b with AR, AR | AW, AW | AC, AC => true | _, _ => false end.
Definition access_eqb (a b : access) : bool :=
  String.eqb (ac_func a) (ac_func b) && String.eqb (ac_field a) (ac_field b) && amode_eqb (ac_mode a) (ac_mode b).
(* the regions of the source that differ from the expected ones (by function name), and the accesses outside the
   regions that are not expected / are missing *)
Definition region_diff (gen : list region) : list string :=
  map rg_func (filter (fun r => negb (existsb (region_eqb r) regions_model)) gen) ++
  map rg_func (filter (fun r => negb (existsb (region_eqb r) gen)) regions_model) ++
  (if Nat.eqb (List.length gen) (List.length regions_model) then [] else ["<number of regions>"]).
Definition outside_diff (gen : list access) : list access :=
  filter (fun a => negb (existsb (access_eqb a) outside_model)) gen ++
  filter (fun a => negb (existsb (access_eqb a) gen)) outside_model.
