(* Case records and comparison functions for the generated correspondence files of property C16
   (harness/cmd/proftree).  Executable definitions only. *)
From Coq Require Import List NArith ZArith Bool Uint63.
From Qryn Require Import model.Pprof model.ProfTree model.ProfDiff model.ProfSql model.ProfMerge.
Import ListNotations.

(* ------------------------------------------------------------------ equality tests *)
Definition zz_eqb (a b : Z * Z) : bool := Z.eqb (fst a) (fst b) && Z.eqb (snd a) (snd b).
Fixpoint list_eqb {A} (eqb : A -> A -> bool) (a b : list A) : bool :=
  match a, b with
  | [], [] => true
  | x :: a', y :: b' => eqb x y && list_eqb eqb a' b'
  | _, _ => false
  end.
Definition node_eqb (a b : node) : bool :=
  N.eqb (n_parent a) (n_parent b) && N.eqb (n_fn a) (n_fn b) && N.eqb (n_id a) (n_id b) &&
  list_eqb zz_eqb (n_vals a) (n_vals b).
Definition tnode_eqb (a b : tnode) : bool :=
  N.eqb (t_fn a) (t_fn b) && N.eqb (t_id a) (t_id b) && Z.eqb (t_self a) (t_self b) && Z.eqb (t_total a) (t_total b).
Definition nz_eqb (a b : N * Z) : bool := N.eqb (fst a) (fst b) && Z.eqb (snd a) (snd b).

Fixpoint strictly_desc (l : list N) : bool :=
  match l with
  | x :: ((y :: _) as r) => N.ltb y x && strictly_desc r
  | _ => true
  end.
Fixpoint strictly_asc (l : list N) : bool :=
  match l with
  | x :: ((y :: _) as r) => N.ltb x y && strictly_asc r
  | _ => true
  end.

(* ------------------------------------------------------------------ one ingested profile *)
Record psample := { ps_stack : list Z;    (* name tokens, leaf first; -1 = location without line info *)
                    ps_values : list Z }.

Record prof := {
  pf_st : list Z;                 (* tokens of the "type:unit" strings of the sample types *)
  pf_bad : bool;                  (* the bytes were damaged on purpose: an error is expected *)
  pf_samples : list psample;
  (* observations *)
  pf_err : bool;
  pf_nresp : Z; pf_nother : Z; pf_nprof : Z; pf_narr : Z;
  pf_rows : list node;            (* tree rows in emitted order *)
  pf_vns : list (list Z);         (* the distinct lists of value-name tokens seen on the rows *)
  pf_funcs : list (N * Z);        (* (function id, name token) in emitted order *)
  pf_vagg : list (Z * (Z * Z)) }. (* (name token, (sum, count)) *)

Definition fn_of (fnh : list N) (tok : Z) : N := nth (Z.to_nat (if Z.ltb tok 0 then 0 else tok)) fnh 0%N.
Definition tok_of (tok : Z) : Z := if Z.ltb tok 0 then 0%Z else tok.

(* a sample without locations is walked as one frame without line info ("n/a"), see Pprof.normalize *)
Definition eff_ps_stack (s : psample) : list Z := match ps_stack s with [] => [(-1)%Z] | l => l end.
Definition samples_of (fnh : list N) (p : prof) : list sample :=
  map (fun s => {| s_stack := map (fn_of fnh) (eff_ps_stack s); s_values := ps_values s |}) (pf_samples p).

(* funcs[fnId] = name, in walking order (root first within a sample) *)
Definition model_funcs (fnh : list N) (p : prof) : list (N * Z) :=
  fold_left (fun m s => fold_left (fun m tok => fn_upsert m (fn_of fnh tok) (tok_of tok)) (rev (eff_ps_stack s)) m)
            (pf_samples p) [].

Definition rows_match (obs : list node) (t : tree) : bool :=
  strictly_desc (map n_id obs) && Nat.eqb (length obs) (length t) &&
  forallb (fun r => match find (n_id r) t with Some n => node_eqb n r | None => false end) obs.

Definition funcs_match (obs m : list (N * Z)) : bool :=
  strictly_desc (map fst obs) && Nat.eqb (length obs) (length m) &&
  forallb (fun r => match assocN m (fst r) with Some v => Z.eqb v (snd r) | None => false end) obs.

Definition model_vagg (ss : list sample) (st : list Z) : list (Z * (Z * Z)) :=
  map (fun kt => (snd kt, (vagg_sum (fst kt) ss, vagg_count ss))) (combine (seq 0 (length st)) st).
Definition vagg_eqb (a b : Z * (Z * Z)) : bool := Z.eqb (fst a) (fst b) && zz_eqb (snd a) (snd b).

(* model vs implementation for one profile *)
Definition prof_mismatch (fnh : list N) (p : prof) : bool :=
  if pf_bad p then negb (pf_err p && Z.eqb (pf_nresp p) 0 && is_nil (pf_rows p))
  else
    let ss := samples_of fnh p in
    let nt := length (pf_st p) in
    negb (negb (pf_err p) &&
          (* emitted over pd = [pd] for both values of over: one response, one profile, arrays filled *)
          Z.eqb (pf_nresp p) 1 && Z.eqb (pf_nother p) 0 && Z.eqb (pf_nprof p) 1 && Z.eqb (pf_narr p) 1 &&
          rows_match (pf_rows p) (post_process city16 nt ss) &&
          forallb (list_eqb Z.eqb (pf_st p)) (pf_vns p) &&
          funcs_match (pf_funcs p) (model_funcs fnh p) &&
          list_eqb vagg_eqb (pf_vagg p) (model_vagg ss (pf_st p))).

(* the property on the OBSERVED rows.  full: root totals = sum over ALL samples (the statement of C16);
   partial: sum over the samples that have at least one frame *)
Definition prof_stored_once (p : prof) : bool :=
  negb (pf_err p) && Z.eqb (pf_nresp p) 1 && Z.eqb (pf_nprof p) 1 && Z.eqb (pf_nother p) 0.

Definition prof_conserves (fnh : list N) (p : prof) : bool :=
  let ss := samples_of fnh p in
  let nt := length (pf_st p) in
  rows_wellformed nt (pf_rows p) &&
  forallb (fun k => forallb (node_conserves k (pf_rows p)) (pf_rows p)) (seq 0 nt).

Definition prof_root_partial (fnh : list N) (p : prof) : bool :=
  let ss := samples_of fnh p in
  forallb (fun k => Z.eqb (wrap64 (child_tot k (pf_rows p) 0)) (wrap64 (weight k ss)) &&
                    (* the self values of all stored nodes add up to the same weight *)
                    Z.eqb (wrap64 (self_sum k (pf_rows p))) (wrap64 (weight k ss))) (seq 0 (length (pf_st p))).
Definition prof_root_full (fnh : list N) (p : prof) : bool :=
  let ss := samples_of fnh p in
  forallb (fun k => Z.eqb (wrap64 (child_tot k (pf_rows p) 0)) (wrap64 (full_weight k ss))) (seq 0 (length (pf_st p))).

(* does the hypothesis of tree_conserves (node ids determine the parent on the occurring triples) hold
   under the real hash for this profile?  0 = not checked (damaged or more than 60 triples), 1 = holds, 2 = fails *)
Definition pd_fast (T : list (N * N * N)) : bool :=
  let l := map (fun x => let '(p, f, d) := x in (node_id city16 p f d, p)) T in
  forallb (fun a => forallb (fun b => implb (N.eqb (fst a) (fst b)) (N.eqb (snd a) (snd b))) l) l.
Definition prof_hyp (fnh : list N) (p : prof) : Z :=
  if pf_bad p then 0%Z
  else let T := triples city16 (samples_of fnh p) in
       if Nat.leb (length T) 60 then (if pd_fast T then 1%Z else 2%Z) else 0%Z.
(* 0 = fine, 2 = violation,
   3 = the known node-id collision INSIDE the profile: two frames with different parents got the same node id under the
       real hash (the hypothesis of tree_conserves fails for this very profile), per-node conservation is broken, and
       everything that holds for every hash (stored once, well-formed rows, root sum, sum of the self values:
       root_sum_any_hash, self_values_add_up) still holds on the observed rows *)
Definition prof_spec (fnh : list N) (p : prof) : Z :=
  if pf_bad p then 0%Z
  else if negb (prof_stored_once p) then 2%Z
  else if negb (rows_wellformed (length (pf_st p)) (pf_rows p) && prof_root_partial fnh p && prof_root_full fnh p) then 2%Z
  else if prof_conserves fnh p then 0%Z
  else if Z.eqb (prof_hyp fnh p) 2 then 3%Z else 2%Z.

(* ------------------------------------------------------------------ the merge / flame graph part *)
Record mcase := {
  mc_rows : list row; mc_funcs : list (N * Z);
  (* observations *)
  mc_panic : bool;
  mc_tree : list (N * list tnode);   (* sorted by parent id *)
  mc_num : Z; mc_total : list Z; mc_maxself : list Z;
  mc_levels : list (list Z);
  mc_tnames : list Z; mc_tmap : list (N * Z) }.

Definition model_tree (m : mcase) : mtree := merge_trie the_limit new_tree (mc_rows m) (mc_funcs m).

Definition tree_match (obs ns : list (N * list tnode)) : bool :=
  strictly_asc (map fst obs) && Nat.eqb (length obs) (length ns) &&
  forallb (fun e => negb (is_nil (snd e)) && list_eqb tnode_eqb (snd e) (children ns (fst e))) obs.

Definition names_match (tmap m : list (N * Z)) : bool :=
  strictly_asc (map fst tmap) && Nat.eqb (length tmap) (length m) &&
  forallb (fun e => match assocN m (fst e) with Some v => Z.eqb v (snd e) | None => false end) tmap.

Definition merge_mismatch (m : mcase) : bool :=
  let t := model_tree m in
  negb (negb (mc_panic m) &&
        tree_match (mc_tree m) (m_nodes t) && Z.eqb (mc_num m) (m_num t) &&
        list_eqb Z.eqb (mc_total m) [total_of t] && list_eqb Z.eqb (mc_maxself m) [m_maxself t] &&
        list_eqb Z.eqb (mc_tnames m) (m_names t) && names_match (mc_tmap m) (m_namesmap t) &&
        list_eqb (list_eqb Z.eqb) (mc_levels m) (bfs_values t)).

(* number of nodes below [id], by depth-first recursion (an algorithm unrelated to the BFS loop) *)
Fixpoint reach (fuel : nat) (ns : list (N * list tnode)) (id : N) : nat :=
  match fuel with
  | O => O
  | S f => fold_right (fun c acc => (1 + reach f ns (t_id c) + acc)%nat) O (children ns id)
  end.

(* spec oracle on the observed merge: 0 fine, 2 violation *)
Definition merge_spec (m : mcase) : Z :=
  if mc_panic m then 2%Z
  else if negb (merged_is_sum (mc_rows m) (mc_tree m)) then 2%Z
  else if negb (list_eqb Z.eqb (mc_total m) [wrap64 (rchild_tot (mc_rows m) 0)]) then 2%Z
  else if tree_regular (mc_tree m) &&
          negb (match mc_levels m with
                | l0 :: rest => list_eqb Z.eqb l0 [0; rchild_tot (rows_of (mc_tree m)) 0; 0; 0]%Z &&
                                values_nest_b (abs_values 0 l0) rest &&
                                (* every node reachable from the root is drawn exactly once *)
                                Nat.eqb (length (concat rest))
                                        (4 * reach (S (length (rows_of (mc_tree m)))) (mc_tree m) 0%N)
                | [] => false
                end) then 2%Z
  else 0%Z.

(* one node id under two different parents in a merged tree (possible only through a collision of node ids ACROSS
   profiles: inside one stored tree ids are distinct): Tree.Nodes is keyed by the parent's id alone and BFS stops at the
   first id it meets twice, so such a tree is drawn truncated *)
Definition dup_id_across_parents (ns : list (N * list tnode)) : bool :=
  let out := rows_of ns in
  negb (ids_distinct (map r_id out)) &&
  existsb (fun a => existsb (fun b => N.eqb (r_id a) (r_id b) && negb (N.eqb (r_parent a) (r_parent b))) out) out.

(* ------------------------------------------------------------------ the diff view (ProfService.RenderDiff) *)
Record dcase := {
  dc_present : bool;
  dc_lfrom : Z; dc_lto : Z; dc_rfrom : Z; dc_rto : Z;       (* the time windows read out of the two statements *)
  dc_lrows : list row; dc_lfuncs : list (N * Z); dc_rrows : list row; dc_rfuncs : list (N * Z);
  (* observations *)
  dc_err : Z;                                                 (* 0 none, 1 "... tree is not positive", 2 anything else *)
  dc_names : list Z; dc_levels : list (list Z);
  dc_ticks : Z; dc_maxself : Z; dc_left : Z; dc_right : Z }.

Definition dc_trees (d : dcase) : mtree * mtree :=
  (merge_trie the_limit new_tree (dc_lrows d) (dc_lfuncs d), merge_trie the_limit new_tree (dc_rrows d) (dc_rfuncs d)).

Definition diff_mismatch (d : dcase) : bool :=
  if negb (dc_present d) then false
  else let '(t1, t2) := dc_trees d in
       match render_diff t1 t2 with
       | None => negb (Z.eqb (dc_err d) 1)
       | Some o => negb (Z.eqb (dc_err d) 0 &&
                         list_eqb Z.eqb (dc_names d) (o_names o) &&
                         list_eqb (list_eqb Z.eqb) (dc_levels d) (o_levels o) &&
                         Z.eqb (dc_ticks d) (o_total o) && Z.eqb (dc_maxself d) (o_maxself o) &&
                         Z.eqb (dc_left d) (o_left o) && Z.eqb (dc_right d) (o_right o))
       end.

(* number of distinct (parent, node id) keys of a row list *)
Definition distinct_keys (rows : list row) : nat :=
  length (rows_of (m_nodes (merge_trie the_limit new_tree rows []))).

(* spec oracle on the OBSERVED diff: both tick counts are the sums of the root rows of their side, the total is
   their sum; when both sides are regular trees: level 0 is the pair of root bars, on each side every bar lies inside
   some bar one level up, gaps and totals are non-negative, and there is one bar per (parent, node) key of the union
   of both sides.  0 fine, 2 violation *)
Definition diff_spec (nest : bool) (d : dcase) : Z :=
  if negb (dc_present d) then 0%Z
  else if negb (Z.eqb (dc_err d) 0) then
         (* refusing is right exactly when a self value is negative *)
         (if Z.eqb (dc_err d) 1 && existsb (fun r => Z.ltb (r_self r) 0) (rows_of (m_nodes (fst (dc_trees d))) ++ rows_of (m_nodes (snd (dc_trees d))))
          then 0%Z else 2%Z)
  else
    let l := wrap64 (rchild_tot (dc_lrows d) 0) in
    let r := wrap64 (rchild_tot (dc_rrows d) 0) in
    if negb (Z.eqb (dc_left d) l && Z.eqb (dc_right d) r && Z.eqb (dc_ticks d) (wrap64 (l + r))) then 2%Z
    else
      let '(t1, t2) := dc_trees d in
      if nest && tree_regular (m_nodes t1) && tree_regular (m_nodes t2) &&
         negb (match dc_levels d with
               | l0 :: rest => list_eqb Z.eqb l0 [0; l; 0; 0; r; 0; 0]%Z &&
                               dvalues_nest_b 0 (dabs_values 0 0 l0) rest &&
                               dvalues_nest_b 3 (dabs_values 3 0 l0) rest &&
                               Nat.eqb (length (concat rest)) (7 * distinct_keys (dc_lrows d ++ dc_rrows d))
               | [] => false
               end) then 2%Z
      else 0%Z.

(* ------------------------------------------------------------------ the pprof payload merge (ProfService.MergeProfiles) *)
Record mpcase := {
  mp_present : bool;
  mp_canon : list Z;               (* name token -> the first token carrying the same name *)
  (* observations *)
  mp_err : Z;                      (* 0 none, 1 "incompatible sample types", 2 anything else (a panic included) *)
  mp_types : list Z;               (* tokens of the merged profile's sample types *)
  mp_samples : list msample }.     (* merged samples: stack as name tokens (leaf first, -1 = no line info), values *)

Definition canon_tok (cn : list Z) (t : Z) : Z := if Z.ltb t 0 then t else nth (Z.to_nat t) cn t.
(* the payloads MergeProfiles reads: one per profile that was parsed and stored *)
Definition mp_inputs (cn : list Z) (profs : list prof) : list (list Z * list msample) :=
  map (fun p => (pf_st p, map (fun s => {| mk_key := map (canon_tok cn) (ps_stack s); mk_vals := ps_values s |}) (pf_samples p)))
      (filter (fun p => negb (pf_err p) && negb (pf_bad p)) profs).

Definition tables_agree (a b : list msample) : bool :=
  Nat.eqb (length a) (length b) &&
  forallb (fun e => match lookup_key b (mk_key e) with Some v => list_eqb Z.eqb v (mk_vals e) | None => false end) a.

Definition mp_mismatch (profs : list prof) (m : mpcase) : bool :=
  if negb (mp_present m) then false
  else match merge_profiles zlist_eqb (mp_inputs (mp_canon m) profs) with
       | None => negb (Z.eqb (mp_err m) 1)
       | Some (ty, tbl) =>
           negb (Z.eqb (mp_err m) 0 &&
                 list_eqb Z.eqb (mp_types m) (match ty with Some t => t | None => [] end) &&
                 (* the observed samples, added up per stack of names, are the model's table *)
                 tables_agree tbl (fold_left (table_add zlist_eqb) (mp_samples m) []))
       end.

(* spec oracle on the OBSERVED merged profile: for every sample type the values of the merged samples add up to the
   values of all samples of the merged payloads (modulo 2^64); a refusal is right only for differing sample types *)
Definition mp_spec (profs : list prof) (m : mpcase) : Z :=
  if negb (mp_present m) then 0%Z
  else let ins := mp_inputs (mp_canon m) profs in
       let nonempty := filter (fun x => negb (is_nil (snd x))) ins in
       let same := match nonempty with [] => true | x :: r => forallb (fun y => zlist_eqb (fst x) (fst y)) r end in
       if Z.eqb (mp_err m) 1 then (if same then 2%Z else 0%Z)
       else if negb (Z.eqb (mp_err m) 0) then 2%Z
       else if forallb (fun k => Z.eqb (wrap64 (col_sum k (mp_samples m)))
                                       (wrap64 (sumZ (map (fun x => col_sum k (snd x)) ins))))
                       (seq 0 (length (mp_types m)))
            then 0%Z else 2%Z.

(* ------------------------------------------------------------------ whole cases *)
Record case := {
  c_id : Z;
  c_e2e : bool;                    (* false: synthetic rows fed to the reader alone *)
  c_fnh : list N;                  (* city.CH64 of the name with token i *)
  c_profs : list prof;
  c_sel : Z;                       (* token of the selected "type:unit" *)
  c_merge : mcase;
  c_grouped : bool;                (* the rows handed to MergeTrie were grouped (what the SQL returns) *)
  c_stmt : Z;                      (* index of the case's statement template in the run's table, -1 = none recorded *)
  c_mfrom : Z; c_mto : Z;          (* time window of the MergeStackTraces statement *)
  c_diff : dcase;
  c_mp : mpcase }.

Fixpoint index_of (x : Z) (l : list Z) (i : nat) : option nat :=
  match l with
  | [] => None
  | y :: r => if Z.eqb y x then Some i else index_of x r (S i)
  end.

(* rows the SQL hands to MergeTrie, as a multiset: projection of every stored row on the selected type *)
Definition projected (c : case) : list row :=
  flat_map (fun p => map (project_row (index_of (c_sel c) (pf_st p) 0)) (pf_rows p)) (c_profs c).

Definition case_mismatch (c : case) : bool :=
  existsb (prof_mismatch (c_fnh c)) (c_profs c) ||
  merge_mismatch (c_merge c) || diff_mismatch (c_diff c) || mp_mismatch (c_profs c) (c_mp c).

(* ------------------------------------------------------------------ judging the statements of the read path
   the database of a case: profile i was stored at timestamp i seconds with the rows the writer emitted *)
Definition db_of (c : case) : list sprof :=
  map (fun ip => {| sp_ts := Z.of_nat (fst ip) * 1000000000;
                    sp_tree := map (fun n => {| e_p := n_parent n; e_f := n_fn n; e_i := n_id n;
                                                e_vals := combine (pf_st (snd ip)) (n_vals n) |}) (pf_rows (snd ip));
                    sp_funcs := pf_funcs (snd ip) |})
      (combine (seq 0 (length (c_profs c))) (c_profs c)).
Definition with_window (s : merge_stmt) (from to : Z) : merge_stmt :=
  {| ms_fp := ms_fp s; ms_table := ms_table s; ms_matchers := ms_matchers s; ms_types := ms_types s;
     ms_proj := ms_proj s; ms_from := from; ms_to := to; ms_out := ms_out s; ms_group := ms_group s;
     ms_order := ms_order s; ms_limit := ms_limit s; ms_tree_agg := ms_tree_agg s; ms_fn_agg := ms_fn_agg s;
     ms_distinct := ms_distinct s; ms_distinct_pre := ms_distinct_pre s; ms_from_strict := ms_from_strict s;
     ms_to_incl := ms_to_incl s |}.
Definition stmt_gives (c : case) (s : merge_stmt) (from to : Z) (handed : list row) : bool :=
  match eval_merge_stmt [c_sel c] (with_window s from to) (db_of c) with
  | Some rows => rows_same rows (group_rows handed)
  | None => false
  end.
Definition stored_rows_count (c : case) : nat := fold_right (fun p acc => (length (pf_rows p) + acc)%nat) O (c_profs c).
(* 0 = not judged (no statement, synthetic rows, or more than 150 stored rows), 1 = the statements evaluate to the rows
   that were handed to the service (and a grouped hand-over has distinct keys), 2 = they do not *)
Definition sql_judge (stmts : list merge_stmt) (c : case) : Z :=
  if negb (c_e2e c) || Z.ltb (c_stmt c) 0 || Nat.ltb 150 (stored_rows_count c) then 0%Z
  else match nth_error stmts (Z.to_nat (c_stmt c)) with
       | None => 2%Z
       | Some s =>
           let d := c_diff c in
           if stmt_gives c s (c_mfrom c) (c_mto c) (mc_rows (c_merge c)) &&
              (negb (c_grouped c) || Nat.eqb (length (group_rows (mc_rows (c_merge c)))) (length (mc_rows (c_merge c)))) &&
              (negb (dc_present d) ||
               stmt_gives c s (dc_lfrom d) (dc_lto d) (dc_lrows d) && stmt_gives c s (dc_rfrom d) (dc_rto d) (dc_rrows d) &&
               Nat.eqb (length (group_rows (dc_lrows d))) (length (dc_lrows d)) &&
               Nat.eqb (length (group_rows (dc_rrows d))) (length (dc_rrows d)))
           then 1%Z else 2%Z
       end.

(* what the statements of a case (MergeStackTraces, left and right side of RenderDiff) evaluate to, as flame graph totals
   (wrapping sum of the rows under the root); (0, 0) when the statement has no value.  Printed for the cases sql_judge rejects: expected / got in the replay *)
Definition root_total (rows : list row) : Z :=
  fold_left (fun a r => if N.eqb (r_parent r) 0 then wrap64 (a + r_total r) else a) rows 0%Z.
Definition stmt_total (stmts : list merge_stmt) (c : case) : (Z * Z) * ((Z * Z) * (Z * Z)) :=
  let d := c_diff c in
  let ev := fun from to =>
    match nth_error stmts (Z.to_nat (c_stmt c)) with
    | None => (0, 0)%Z
    | Some s => match eval_merge_stmt [c_sel c] (with_window s from to) (db_of c) with
                | Some rows => (1, root_total rows)%Z
                | None => (0, 0)%Z
                end
    end in
  (ev (c_mfrom c) (c_mto c), (ev (dc_lfrom d) (dc_lto d), ev (dc_rfrom d) (dc_rto d))).

(* end to end: the flame graph total of the merged tree = sum of the stored root totals; each profile conserves;
   the merged tree is the sum.  Result: 0 fine, 2 violation, 3 only the known node-id collision inside a profile
   (prof_spec), 4 only the known node-id collision across profiles (ingested profiles, each fine, whose merged tree
   holds one node id under two parents) *)
Definition case_spec (c : case) : Z :=
  let ps := map (prof_spec (c_fnh c)) (c_profs c) in
  let m := merge_spec (c_merge c) in
  (* one node id under two parents across the ingested profiles: the nesting oracles of the merged views do not apply
     (their precondition, distinct ids, fails for the merged tree; for the diff view the two sides pool the children of
     the shared id); everything else is still demanded *)
  let coll := c_e2e c && negb (tree_regular (mc_tree (c_merge c))) && dup_id_across_parents (mc_tree (c_merge c)) in
  if existsb (Z.eqb 2) ps || Z.eqb m 2 || Z.eqb (diff_spec (negb coll) (c_diff c)) 2 || Z.eqb (mp_spec (c_profs c) (c_mp c)) 2 then 2%Z
  else if existsb (Z.eqb 3) ps then 3%Z
  else if coll then 4%Z
  else 0%Z.

(* kind "hash" *)
Record hcase := { h_id : Z; h_a : N; h_b : N; h_h : N }.
Definition hash_mismatch (x : hcase) : bool := negb (N.eqb (city16 (h_a x) (h_b x)) (h_h x)).

(* ------------------------------------------------------------------ wire format
   Elaborating 64-bit numerals costs about a millisecond each in Coq 8.16, primitive 63-bit integer
   literals do not: a generated case file gives every case as a flat list of Uint63 literals, decoded
   here (inside vm_compute).  One number u < 2^64 is the item 2u when u < 2^62, else the two items
   2(u / 2^32)+1 and u mod 2^32; signed values travel as their two's complement.  Lists are
   length-prefixed.  A case that does not decode completely is reported (decode_errors). *)
Definition R (A : Type) : Type := list Z -> option (A * list Z).
Definition ret {A} (a : A) : R A := fun s => Some (a, s).
Definition bind {A B} (r : R A) (f : A -> R B) : R B :=
  fun s => match r s with Some (a, s') => f a s' | None => None end.
Notation "x <- r ;; k" := (bind r (fun x => k)) (at level 61, r at next level, right associativity).

Definition rd_u : R N := fun s =>
  match s with
  | x :: r =>
      if Z.even x then Some (Z.to_N (x / 2), r)
      else match r with
           | y :: r' => Some (Z.to_N ((x - 1) / 2 * 4294967296 + y), r')
           | [] => None
           end
  | [] => None
  end.
Definition rd_z : R Z := u <- rd_u ;; ret (let z := Z.of_N u in if Z.leb two63 z then z - two64 else z)%Z.
Definition rd_b : R bool := u <- rd_u ;; ret (negb (N.eqb u 0)).
Fixpoint rd_n {A} (f : R A) (n : nat) : R (list A) :=
  match n with
  | O => ret []
  | S n' => a <- f ;; l <- rd_n f n' ;; ret (a :: l)
  end.
Definition rd_list {A} (f : R A) : R (list A) := n <- rd_u ;; rd_n f (N.to_nat n).
Definition rd_pair {A B} (f : R A) (g : R B) : R (A * B) := a <- f ;; b <- g ;; ret (a, b).

Definition rd_psample : R psample := st <- rd_list rd_z ;; vs <- rd_list rd_z ;; ret {| ps_stack := st; ps_values := vs |}.
Definition rd_node : R node :=
  p <- rd_u ;; f <- rd_u ;; i <- rd_u ;; vs <- rd_list (rd_pair rd_z rd_z) ;;
  ret {| n_parent := p; n_fn := f; n_id := i; n_vals := vs |}.
Definition rd_prof : R prof :=
  st <- rd_list rd_z ;; bad <- rd_b ;; ss <- rd_list rd_psample ;; err <- rd_b ;;
  nresp <- rd_z ;; nother <- rd_z ;; nprof <- rd_z ;; narr <- rd_z ;;
  rows <- rd_list rd_node ;; vns <- rd_list (rd_list rd_z) ;; funcs <- rd_list (rd_pair rd_u rd_z) ;;
  vagg <- rd_list (rd_pair rd_z (rd_pair rd_z rd_z)) ;;
  ret {| pf_st := st; pf_bad := bad; pf_samples := ss; pf_err := err; pf_nresp := nresp; pf_nother := nother;
         pf_nprof := nprof; pf_narr := narr; pf_rows := rows; pf_vns := vns; pf_funcs := funcs; pf_vagg := vagg |}.
Definition rd_row : R row :=
  p <- rd_u ;; f <- rd_u ;; i <- rd_u ;; s <- rd_z ;; t <- rd_z ;;
  ret {| r_parent := p; r_fn := f; r_id := i; r_self := s; r_total := t |}.
Definition rd_tnode : R tnode :=
  f <- rd_u ;; i <- rd_u ;; s <- rd_z ;; t <- rd_z ;; ret {| t_fn := f; t_id := i; t_self := s; t_total := t |}.
Definition rd_mcase : R mcase :=
  rows <- rd_list rd_row ;; funcs <- rd_list (rd_pair rd_u rd_z) ;; panic <- rd_b ;;
  tree <- rd_list (rd_pair rd_u (rd_list rd_tnode)) ;; num <- rd_z ;; total <- rd_list rd_z ;;
  maxself <- rd_list rd_z ;; levels <- rd_list (rd_list rd_z) ;; tnames <- rd_list rd_z ;;
  tmap <- rd_list (rd_pair rd_u rd_z) ;;
  ret {| mc_rows := rows; mc_funcs := funcs; mc_panic := panic; mc_tree := tree; mc_num := num; mc_total := total;
         mc_maxself := maxself; mc_levels := levels; mc_tnames := tnames; mc_tmap := tmap |}.
Definition rd_dcase : R dcase :=
  present <- rd_b ;; lfrom <- rd_z ;; lto <- rd_z ;; rfrom <- rd_z ;; rto <- rd_z ;;
  lrows <- rd_list rd_row ;; lfuncs <- rd_list (rd_pair rd_u rd_z) ;; rrows <- rd_list rd_row ;; rfuncs <- rd_list (rd_pair rd_u rd_z) ;;
  err <- rd_z ;; names <- rd_list rd_z ;; levels <- rd_list (rd_list rd_z) ;;
  ticks <- rd_z ;; maxself <- rd_z ;; left <- rd_z ;; right <- rd_z ;;
  ret {| dc_present := present; dc_lfrom := lfrom; dc_lto := lto; dc_rfrom := rfrom; dc_rto := rto;
         dc_lrows := lrows; dc_lfuncs := lfuncs; dc_rrows := rrows; dc_rfuncs := rfuncs; dc_err := err; dc_names := names;
         dc_levels := levels; dc_ticks := ticks; dc_maxself := maxself; dc_left := left; dc_right := right |}.
Definition rd_mpcase : R mpcase :=
  present <- rd_b ;; cn <- rd_list rd_z ;; err <- rd_z ;; types <- rd_list rd_z ;;
  samples <- rd_list (k <- rd_list rd_z ;; v <- rd_list rd_z ;; ret {| mk_key := k; mk_vals := v |}) ;;
  ret {| mp_present := present; mp_canon := cn; mp_err := err; mp_types := types; mp_samples := samples |}.
Definition rd_case : R case :=
  id <- rd_z ;; e2e <- rd_b ;; fnh <- rd_list rd_u ;; profs <- rd_list rd_prof ;; sel <- rd_z ;; m <- rd_mcase ;;
  grouped <- rd_b ;; stmt <- rd_z ;; mfrom <- rd_z ;; mto <- rd_z ;; d <- rd_dcase ;; mp <- rd_mpcase ;;
  ret {| c_id := id; c_e2e := e2e; c_fnh := fnh; c_profs := profs; c_sel := sel; c_merge := m;
         c_grouped := grouped; c_stmt := stmt; c_mfrom := mfrom; c_mto := mto; c_diff := d; c_mp := mp |}.
Definition rd_hcase : R hcase :=
  id <- rd_z ;; a <- rd_u ;; b <- rd_u ;; h <- rd_u ;; ret {| h_id := id; h_a := a; h_b := b; h_h := h |}.

(* Uint63.to_Z always runs 63 steps; this one stops at the highest set bit *)
Fixpoint int_to_Z (fuel : nat) (i : int) : Z :=
  match fuel with
  | O => 0%Z
  | S f => if Uint63.eqb i 0%uint63 then 0%Z
           else let r := int_to_Z f (Uint63.lsr i 1%uint63) in
                if Uint63.eqb (Uint63.land i 1%uint63) 0%uint63 then Z.double r else Z.succ_double r
  end.

Definition decode {A} (r : R A) (w : list int) : option A :=
  match r (map (int_to_Z 63) w) with
  | Some (a, []) => Some a
  | _ => None
  end.

(* position (in the file) of the items that do not decode *)
Fixpoint decode_errors_from {A} (r : R A) (i : Z) (ws : list (list int)) : list Z :=
  match ws with
  | [] => []
  | w :: rest => match decode r w with
                 | Some _ => decode_errors_from r (i + 1) rest
                 | None => i :: decode_errors_from r (i + 1) rest
                 end
  end.
Definition decode_errors (ws : list (list int)) : list Z := decode_errors_from rd_case 0 ws.
Definition decoded {A} (r : R A) (ws : list (list int)) : list A :=
  flat_map (fun w => match decode r w with Some c => [c] | None => [] end) ws.

(* (profiles checked, profiles where it holds) *)
Definition hyp_summary (ws : list (list int)) : Z * Z :=
  let rs := flat_map (fun c => map (prof_hyp (c_fnh c)) (c_profs c)) (decoded rd_case ws) in
  (Z.of_nat (length (filter (fun r => negb (Z.eqb r 0)) rs)), Z.of_nat (length (filter (Z.eqb 1) rs))).

(* everything the check prints, decoding once: (decode errors, mismatches, spec results, hypothesis summary,
   ids of the cases holding a profile for which the hypothesis of tree_conserves fails under the real hash,
   (ids whose diff view differs from the model, ids whose statements do not evaluate to the rows handed over,
    number of cases whose statements were judged, totals the rejected statements evaluate to)) *)
Definition all_results (stmts : list merge_stmt) (ws : list (list int))
  : list Z * list Z * list (Z * Z) * (Z * Z * Z) * list Z * (list Z * list Z * Z * list (Z * ((Z * Z) * ((Z * Z) * (Z * Z))))) :=
  let cs := decoded rd_case ws in
  let hs := map (fun c => (c_id c, map (prof_hyp (c_fnh c)) (c_profs c))) cs in
  let rs := flat_map snd hs in
  let js := map (fun c => (c_id c, sql_judge stmts c)) cs in
  (decode_errors ws,
   map c_id (filter case_mismatch cs),
   filter (fun x => negb (Z.eqb (snd x) 0)) (map (fun c => (c_id c, case_spec c)) cs),
   (Z.of_nat (length (filter (fun r => negb (Z.eqb r 0)) rs)), Z.of_nat (length (filter (Z.eqb 1) rs)),
    (* cases whose OBSERVED merged tree meets the hypotheses of levels_nest (so the nesting oracle applies) *)
    Z.of_nat (length (filter (fun c => tree_regular (mc_tree (c_merge c)) && negb (is_nil (mc_tree (c_merge c)))) cs))),
   map fst (filter (fun x => existsb (Z.eqb 2) (snd x)) hs),
   (map c_id (filter (fun c => diff_mismatch (c_diff c) || mp_mismatch (c_profs c) (c_mp c)) cs),
    map fst (filter (fun x => Z.eqb (snd x) 2) js),
    Z.of_nat (length (filter (fun x => Z.eqb (snd x) 1) js)),
    (* for the rejected ones: (case id, (statement has a value, flame graph total it evaluates to)) *)
    flat_map (fun x => if Z.eqb (snd (snd x)) 2 then [(c_id (fst x), stmt_total stmts (fst x))] else []) (combine cs js))).

Definition mismatches (ws : list (list int)) : list Z := map c_id (filter case_mismatch (decoded rd_case ws)).
Definition spec_results (ws : list (list int)) : list (Z * Z) :=
  filter (fun x => negb (Z.eqb (snd x) 0)) (map (fun c => (c_id c, case_spec c)) (decoded rd_case ws)).
Definition hash_mismatches (ws : list (list int)) : list Z :=
  map h_id (filter hash_mismatch (decoded rd_hcase ws)) ++
  map (fun _ => (-1)%Z) (decode_errors_from rd_hcase 0 ws).
