(* Meaning of LogQL metric queries (C08).
   REFERENCE (metric_ref): the entries that leave the log pipeline are bucketed into windows of the
   range duration, b(ts) = (ts div range) * range; the range function is applied per (label set,
   window); then the vector aggregation grouped by the label map filtered with by/without, the
   comparison threshold, top/bottom-k per timestamp and the step re-bucketing. The reference never
   mentions fingerprints: series are label sets.
   SQL SIDE (sem): what the SQL emitted by each metric planner of LogqlPlan.v computes from the rows
   of its Main, as a function on row lists. GROUP BY is partition by key (first-occurrence order),
   aggregates see the group in table order, `any` takes a member, aliases shadow source columns
   (ClickHouse name resolution), intDiv truncates. The value expressions are interpreted from the
   same structured values (lra_val, uw_val, agg_fn, m15_val) from which LogqlPlan.v prints the SQL
   text, so a fragment and its meaning cannot drift apart silently.
   Values are exact rationals (Qc); varPop / stddevPop / quantile are oracles.
   Executable definitions only. *)
From Coq Require Import List ZArith NArith QArith Qcanon String Ascii Bool.
From Qryn Require Import lib.Strs model.Sql model.Logql model.LogqlPlan.
Import ListNotations.
Open Scope Z_scope.

Definition lmap := list (string * string).
Definition kv_eqb (a b : string * string) : bool := String.eqb (fst a) (fst b) && String.eqb (snd a) (snd b).
Fixpoint lmap_eqb (a b : lmap) : bool :=
  match a, b with
  | [], [] => true
  | x :: r, y :: r' => kv_eqb x y && lmap_eqb r r'
  | _, _ => false
  end.
Fixpoint lookup (k : string) (m : lmap) : string :=      (* labels['k'] : the default '' when absent *)
  match m with [] => EmptyString | (k', v) :: r => if String.eqb k k' then v else lookup k r end.
Definition mem_s (k : string) (l : list string) : bool := existsb (String.eqb k) l.
(* mapFilter((k,v) -> k IN (...) / NOT IN (...), labels) *)
Definition bw_map (labels : list string) (by_ : bool) (m : lmap) : lmap :=
  filter (fun kv => if by_ then mem_s (fst kv) labels else negb (mem_s (fst kv) labels)) m.

(* ---------- numbers ---------- *)
Definition qz (z : Z) : Qc := Q2Qc (inject_Z z).
Definition qfrac (n : Z) (d : positive) : Qc := Q2Qc (n # d).
Definition qsum (l : list Qc) : Qc := fold_right Qcplus (qz 0) l.
Definition qlen {A} (l : list A) : Qc := qz (Z.of_nat (List.length l)).
Definition qleb (a b : Qc) : bool := match Qccompare a b with Datatypes.Gt => false | _ => true end.
Definition qltb (a b : Qc) : bool := match Qccompare a b with Datatypes.Lt => true | _ => false end.
Definition qeqb (a b : Qc) : bool := match Qccompare a b with Datatypes.Eq => true | _ => false end.
Definition qmin (a b : Qc) : Qc := if qleb a b then a else b.
Definition qmax (a b : Qc) : Qc := if qleb a b then b else a.
Definition qmin_l (l : list Qc) : Qc := match l with [] => qz 0 | x :: r => fold_left qmin r x end.
Definition qmax_l (l : list Qc) : Qc := match l with [] => qz 0 | x :: r => fold_left qmax r x end.
Definition qavg (l : list Qc) : Qc := Qcdiv (qsum l) (qlen l).
(* the text printed by fmt %f for a non-negative value: digits '.' six digits *)
Fixpoint digits_val (s : string) (acc : Z) : Z :=
  match s with EmptyString => acc | String c r => digits_val r (acc * 10 + (Z.of_N (N_of_ascii c) - 48)) end.
Fixpoint split_dot (s : string) (acc : string) : string * string :=
  match s with
  | EmptyString => (rev_s acc "", EmptyString)
  | String c r => if Ascii.eqb c "."%char then (rev_s acc "", r) else split_dot r (String c acc)
  end.
Definition dec_value (s : string) : Qc :=
  let '(i, f) := split_dot s EmptyString in
  Qcdiv (qz (digits_val (i ++ f)%string 0)) (qz (10 ^ Z.of_nat (String.length f))).

(* the range in seconds *)
Definition secs_exact (dur_ns : Z) : Qc := qfrac dur_ns 1000000000.

(* ---------- rows ---------- *)
(* SQL side: the columns fingerprint, timestamp_ns, labels, string, value *)
Record mrow := { r_fp : N; r_ts : Z; r_labels : lmap; r_line : string; r_val : Qc }.
(* reference side: an entry leaving the log pipeline, and a sample of an instant vector *)
Record entry := { e_labels : lmap; e_ts : Z; e_line : string }.
Record vrow := { v_labels : lmap; v_ts : Z; v_val : Qc }.
Definition entry_of (r : mrow) : entry := {| e_labels := r_labels r; e_ts := r_ts r; e_line := r_line r |}.
Definition strip (r : mrow) : vrow := {| v_labels := r_labels r; v_ts := r_ts r; v_val := r_val r |}.

(* ---------- GROUP BY: partition by key, groups in order of first occurrence ---------- *)
Section GROUP.
  Context {A : Type} (same : A -> A -> bool).
  Fixpoint firsts (seen l : list A) : list A :=
    match l with
    | [] => []
    | a :: r => if existsb (same a) seen then firsts seen r else a :: firsts (a :: seen) r
    end.
  Definition group_by (l : list A) : list (list A) := map (fun a => filter (same a) l) (firsts [] l).
End GROUP.

(* window start: the SQL text says intDiv (truncation), the definition says floor *)
Definition bucket_sql_z (d ts : Z) : Z := Z.quot ts d * d.
Definition bucket (d ts : Z) : Z := (ts / d) * d.

Definition argmin_ts {A} (ts : A -> Z) (l : list A) : option A :=
  match l with [] => None | x :: r => Some (fold_left (fun best y => if Z.ltb (ts y) (ts best) then y else best) r x) end.
Definition argmax_ts {A} (ts : A -> Z) (l : list A) : option A :=
  match l with [] => None | x :: r => Some (fold_left (fun best y => if Z.ltb (ts best) (ts y) then y else best) r x) end.

Section SEM.
  Variable fp : lmap -> N.                          (* cityHash64 of a label map *)
  Variable to_float : string -> Qc.                 (* toFloat64OrZero / the reference's number parser *)
  Variable quantile_o : string -> list Qc -> Qc.    (* quantile(p)(...) for the printed parameter p *)
  Variable varpop stddevpop : list Qc -> Qc.

  (* ================= SQL side ================= *)
  Definition set_ts (t : Z) (r : mrow) : mrow :=
    {| r_fp := r_fp r; r_ts := t; r_labels := r_labels r; r_line := r_line r; r_val := r_val r |}.
  Definition same_fp_ts (a b : mrow) : bool := N.eqb (r_fp a) (r_fp b) && Z.eqb (r_ts a) (r_ts b).
  Definition same_ts (a b : mrow) : bool := Z.eqb (r_ts a) (r_ts b).
  Definition head_row (g : list mrow) : mrow :=
    match g with r :: _ => r | [] => {| r_fp := 0%N; r_ts := 0; r_labels := []; r_line := EmptyString; r_val := qz 0 |} end.
  (* one output row of a SELECT ... GROUP BY fingerprint, timestamp_ns: key columns, any(labels), '' , the aggregate *)
  Definition agg_row (v : Qc) (g : list mrow) : mrow :=
    let h := head_row g in
    {| r_fp := r_fp h; r_ts := r_ts h; r_labels := r_labels h; r_line := EmptyString; r_val := v |}.

  Definition bytes_of (g : list mrow) : Qc := qsum (map (fun r => qz (Z.of_nat (String.length (r_line r)))) g).
  Definition eval_lra (v : lra_val) (g : list mrow) : Qc :=
    match v with
    | LVCount => qlen g
    | LVCountDiv d => Qcdiv (qlen g) (secs_exact d)
    | LVBytes => bytes_of g
    | LVBytesDiv d => Qcdiv (bytes_of g) (secs_exact d)
    end.
  (* LRAPlanner: SELECT intDiv(ts, d) * d as timestamp_ns, fingerprint, <v> as value [, any(labels)] GROUP BY fingerprint, timestamp_ns *)
  Definition sem_lra (v : lra_val) (d : Z) (rows : list mrow) : list mrow :=
    map (fun g => agg_row (eval_lra v g) g) (group_by same_fp_ts (map (fun r => set_ts (bucket_sql_z d (r_ts r)) r) rows)).

  (* UnwrapPlanner: value := toFloat64OrZero(labels['l']) or toFloat64OrZero(string) *)
  Definition sem_unwrap (label : string) (rows : list mrow) : list mrow :=
    map (fun r => {| r_fp := r_fp r; r_ts := r_ts r; r_labels := r_labels r; r_line := r_line r;
                     r_val := to_float (if String.eqb label "_entry" then r_line r else lookup label (r_labels r)) |}) rows.

  (* UnwrapFunctionPlanner: the aggregates see (value, original timestamp) pairs of the group *)
  Definition eval_uw (v : uw_val) (g : list (mrow * Z)) : Qc :=
    let vals := map (fun x => r_val (fst x)) g in
    match v with
    | UVSum => qsum vals
    | UVSumDiv d => Qcdiv (qsum vals) (secs_exact d)
    | UVAvg => qavg vals
    | UVMax => qmax_l vals
    | UVMin => qmin_l vals
    | UVFirst => match argmin_ts snd g with Some x => r_val (fst x) | None => qz 0 end
    | UVLast => match argmax_ts snd g with Some x => r_val (fst x) | None => qz 0 end
    | UVVarPop => varpop vals
    | UVStddevPop => stddevpop vals
    end.
  Definition same_fp_ts2 (a b : mrow * Z) : bool := same_fp_ts (fst a) (fst b).
  Definition sem_uwfn (v : uw_val) (d : Z) (rows : list mrow) : list mrow :=
    map (fun g => agg_row (eval_uw v g) (map fst g))
        (group_by same_fp_ts2 (map (fun r => (set_ts (bucket_sql_z d (r_ts r)) r, r_ts r)) rows)).

  (* ByWithoutPlanner (both variants): labels := mapFilter(...), fingerprint := cityHash64(labels) *)
  Definition sem_bw (labels : list string) (by_ : bool) (rows : list mrow) : list mrow :=
    map (fun r => let m := bw_map labels by_ (r_labels r) in
                  {| r_fp := fp m; r_ts := r_ts r; r_labels := m; r_line := EmptyString; r_val := r_val r |}) rows.

  Definition eval_agg (f : agg_fn) (vals : list Qc) : Qc :=
    match f with
    | ASum => qsum vals
    | AMin => qmin_l vals
    | AMax => qmax_l vals
    | AAvg => qavg vals
    | AStddev => stddevpop vals
    | AStdvar => varpop vals
    | ACount => qlen vals
    end.
  Definition sem_agg (f : agg_fn) (rows : list mrow) : list mrow :=
    map (fun g => agg_row (eval_agg f (map r_val g)) g) (group_by same_fp_ts rows).

  Definition cmp_holds (fn : cmpop) (a b : Qc) : bool :=
    match fn with
    | CEq => qeqb a b | CNeq => negb (qeqb a b) | CGt => qltb b a | CGe => qleb b a | CLt => qltb a b | CLe => qleb a b
    end.
  (* ComparisonPlanner: HAVING (value) <op> (v) on the grouped select *)
  Definition sem_cmp (fn : cmpop) (v : string) (rows : list mrow) : list mrow :=
    filter (fun r => cmp_holds fn (r_val r) (dec_value v)) rows.

  (* QuantilePlanner *)
  Definition sem_quantile (param : string) (d : Z) (rows : list mrow) : list mrow :=
    map (fun g => agg_row (quantile_o param (map r_val g)) g)
        (group_by same_fp_ts (map (fun r => set_ts (bucket_sql_z d (r_ts r)) r) rows)).

  (* StepFixPlanner (step > range): GROUP BY intDiv(ts, step) * step, fingerprint; argMin(value, ts) *)
  Definition sem_stepfix (step : Z) (rows : list mrow) : list mrow :=
    map (fun g => agg_row (match argmin_ts snd g with Some x => r_val (fst x) | None => qz 0 end) (map fst g))
        (group_by same_fp_ts2 (map (fun r => (set_ts (bucket_sql_z step (r_ts r)) r, r_ts r)) rows)).

  (* TopKPlanner: per timestamp, arraySort by (-value, fingerprint) resp. (value, fingerprint), first k, ARRAY JOIN *)
  Definition tk_before (top : bool) (a b : mrow) : bool :=      (* a sorts strictly before or equal to b *)
    let va := if top then Qcopp (r_val a) else r_val a in
    let vb := if top then Qcopp (r_val b) else r_val b in
    qltb va vb || (qeqb va vb && N.leb (r_fp a) (r_fp b)).
  Fixpoint insert_by (le : mrow -> mrow -> bool) (x : mrow) (l : list mrow) : list mrow :=
    match l with [] => [x] | y :: r => if le x y then x :: l else y :: insert_by le x r end.
  Definition sort_by (le : mrow -> mrow -> bool) (l : list mrow) : list mrow := fold_right (insert_by le) [] l.
  Definition sem_topk (k : Z) (top : bool) (rows : list mrow) : list mrow :=
    flat_map (fun g => map (fun r => {| r_fp := r_fp r; r_ts := r_ts r; r_labels := r_labels r; r_line := EmptyString; r_val := r_val r |})
                           (firstn (Z.to_nat k) (sort_by (tk_before top) g)))
             (group_by same_ts rows).

  (* Metrics15ShortcutPlanner over the roll-up table. The table as a row list: every line of samples contributes one
     count to the slot floor15(ts) of its stream (countMerge over a set of slots = the number of lines in them); the
     select groups the slots by (fingerprint, intDiv(slot, range) * range). *)
  Definition floor15 (x : Z) : Z := Z.quot x 15000000000 * 15000000000.
  Definition m15_rows (rows : list mrow) : list mrow := map (fun r => set_ts (floor15 (r_ts r)) r) rows.
  Definition eval_m15 (v : m15_val) (g : list mrow) : Qc :=
    match v with MVCount => qlen g | MVCountDiv d => Qcdiv (qlen g) (secs_exact d) end.
  Definition sem_m15 (v : m15_val) (d : Z) (slots : list mrow) : list mrow :=
    map (fun g => agg_row (eval_m15 v g) g) (group_by same_fp_ts (map (fun r => set_ts (bucket_sql_z d (r_ts r)) r) slots)).
  Definition sem_m15_rows (v : m15_val) (d : Z) (rows : list mrow) : list mrow := sem_m15 v d (m15_rows rows).

  (* the chain: a metric planner applied to what its Main yields; every planner of the log part
     (stream selection, filters, parsers, joins) is summarised by [base], the rows leaving the log pipeline *)
  Fixpoint sem (p : planner) (c : pctx) (base : list mrow) {struct p} : option (list mrow) :=
    match p with
    | PLraP f d _ m => match sem m c base, lra_val_of f d with Some rows, Some v => Some (sem_lra v d rows) | _, _ => None end
    | PUnwrapP label m => match sem m c base with Some rows => Some (sem_unwrap label rows) | None => None end
    | PUnwrapFnP f d m => match sem m c base, uw_val_of f d with Some rows, Some v => Some (sem_uwfn v d rows) | _, _ => None end
    | PByWithoutP labels by_ _ m => match sem m c base with Some rows => Some (sem_bw labels by_ rows) | None => None end
    | PAggOpP f _ m => match sem m c base with Some rows => Some (sem_agg f rows) | None => None end
    | PComparisonP fn v m => match sem m c base with Some rows => Some (sem_cmp fn v rows) | None => None end
    | PTopKP k top m => match sem m c base with Some rows => Some (sem_topk k top rows) | None => None end
    | PQuantileP param d m => match sem m c base with Some rows => Some (sem_quantile param d rows) | None => None end
    | PStepFixP d m =>
      match sem m c base with
      | Some rows => Some (if Z.leb (c_step_ns c) d then rows else sem_stepfix (c_step_ns c) rows)
      | None => None end
    | PLabelsJoin m _ _ _ => sem m c base              (* labels by fingerprint: already carried in the rows *)
    | PMainFinalizer m _ _ => sem m c base             (* column selection and ORDER BY only *)
    (* the shortcut: FingerprintFilter over Metrics15Shortcut reads the 15-second roll-up of the selected streams' lines *)
    | PFingerprintFilter _ (PMetrics15 f d) =>
      match m15_val_of f d with Some v => Some (sem_m15_rows v d base) | None => None end
    | PMetrics15 _ _ => None
    | _ => Some base
    end.

  (* ================= reference ================= *)
  Definition same_lbl_ts_e (d : Z) (a b : entry) : bool :=
    lmap_eqb (e_labels a) (e_labels b) && Z.eqb (bucket d (e_ts a)) (bucket d (e_ts b)).
  Definition same_lbl_ts (a b : vrow) : bool := lmap_eqb (v_labels a) (v_labels b) && Z.eqb (v_ts a) (v_ts b).
  Definition same_vts (a b : vrow) : bool := Z.eqb (v_ts a) (v_ts b).
  Definition head_entry (g : list entry) : entry :=
    match g with e :: _ => e | [] => {| e_labels := []; e_ts := 0; e_line := EmptyString |} end.
  Definition head_vrow (g : list vrow) : vrow :=
    match g with e :: _ => e | [] => {| v_labels := []; v_ts := 0; v_val := qz 0 |} end.

  (* log range aggregations over the entries of one (series, window) *)
  Definition range_fn (f : lra_fn) (d : Z) (w : list entry) : option Qc :=
    let bytes := qsum (map (fun e => qz (Z.of_nat (String.length (e_line e)))) w) in
    match f with
    | FRate => Some (Qcdiv (qlen w) (secs_exact d))
    | FCountOverTime => Some (qlen w)
    | FBytesRate => Some (Qcdiv bytes (secs_exact d))
    | FBytesOverTime => Some bytes
    | _ => None
    end.
  Definition ref_range (f : lra_fn) (d : Z) (es : list entry) : option (list vrow) :=
    match range_fn f d [] with
    | None => None
    | Some _ =>
      Some (map (fun w => {| v_labels := e_labels (head_entry w); v_ts := bucket d (e_ts (head_entry w));
                             v_val := match range_fn f d w with Some x => x | None => qz 0 end |})
                (group_by (same_lbl_ts_e d) es))
    end.

  (* unwrapped range aggregations: the sample value is the number held by the unwrap label (or the line) *)
  Definition unwrap_value (label : string) (e : entry) : Qc :=
    to_float (if String.eqb label "_entry" then e_line e else lookup label (e_labels e)).
  Definition urange_fn (f : lra_fn) (d : Z) (w : list (Z * Qc)) : option Qc :=      (* (timestamp, value) samples *)
    let vals := map snd w in
    match f with
    | FRate => Some (Qcdiv (qsum vals) (secs_exact d))
    | FSumOverTime => Some (qsum vals)
    | FAvgOverTime => Some (qavg vals)
    | FMaxOverTime => Some (qmax_l vals)
    | FMinOverTime => Some (qmin_l vals)
    | FFirstOverTime => Some (match argmin_ts fst w with Some x => snd x | None => qz 0 end)
    | FLastOverTime => Some (match argmax_ts fst w with Some x => snd x | None => qz 0 end)
    | FStdvarOverTime => Some (varpop vals)
    | FStddevOverTime => Some (stddevpop vals)
    | _ => None
    end.
  (* grouping of an unwrapped range aggregation / quantile: the series of an entry is its label map under by/without *)
  Definition regroup (g : option by_without) (m : lmap) : lmap :=
    match g with Some b => bw_map (bw_labels b) (bw_by b) m | None => m end.
  Record usample := { u_labels : lmap; u_ts : Z; u_val : Qc }.
  Definition same_u (d : Z) (a b : usample) : bool :=
    lmap_eqb (u_labels a) (u_labels b) && Z.eqb (bucket d (u_ts a)) (bucket d (u_ts b)).
  Definition head_u (g : list usample) : usample :=
    match g with e :: _ => e | [] => {| u_labels := []; u_ts := 0; u_val := qz 0 |} end.
  Definition usamples (label : string) (g : option by_without) (es : list entry) : list usample :=
    map (fun e => {| u_labels := regroup g (e_labels e); u_ts := e_ts e; u_val := unwrap_value label e |}) es.
  Definition ref_urange (f : lra_fn) (d : Z) (us : list usample) : option (list vrow) :=
    match urange_fn f d [] with
    | None => None
    | Some _ =>
      Some (map (fun w => {| v_labels := u_labels (head_u w); v_ts := bucket d (u_ts (head_u w));
                             v_val := match urange_fn f d (map (fun u => (u_ts u, u_val u)) w) with Some x => x | None => qz 0 end |})
                (group_by (same_u d) us))
    end.
  Definition ref_quantile (param : string) (d : Z) (us : list usample) : list vrow :=
    map (fun w => {| v_labels := u_labels (head_u w); v_ts := bucket d (u_ts (head_u w));
                     v_val := quantile_o param (map u_val w) |})
        (group_by (same_u d) us).

  (* vector aggregation: group the instant vector by the label map filtered with by/without (no grouping clause: every
     sample keeps its own label map, as this implementation defines it) *)
  Definition ref_agg (f : agg_fn) (g : option by_without) (v : list vrow) : list vrow :=
    map (fun w => {| v_labels := v_labels (head_vrow w); v_ts := v_ts (head_vrow w); v_val := eval_agg f (map v_val w) |})
        (group_by same_lbl_ts (map (fun r => {| v_labels := regroup g (v_labels r); v_ts := v_ts r; v_val := v_val r |}) v)).
  Definition ref_cmp (c : option comparison) (v : list vrow) : list vrow :=
    match c with
    | None => v
    | Some x => filter (fun r => cmp_holds (cmp_fn x) (v_val r) (dec_value (cmp_val x))) v
    end.
  (* step re-bucketing when the step is longer than the range: per series and step window the earliest range window *)
  Definition same_step (step : Z) (a b : vrow) : bool :=
    lmap_eqb (v_labels a) (v_labels b) && Z.eqb (bucket step (v_ts a)) (bucket step (v_ts b)).
  Definition ref_step (step d : Z) (v : list vrow) : list vrow :=
    if Z.leb step d then v else
    map (fun w => {| v_labels := v_labels (head_vrow w); v_ts := bucket step (v_ts (head_vrow w));
                     v_val := match argmin_ts v_ts w with Some x => v_val x | None => qz 0 end |})
        (group_by (same_step step) v).

  (* the grouping clause in force: the suffix one when both are written (planByWithout keeps the last non-nil) *)
  Definition grouping (pre suf : option by_without) : option by_without := match suf with Some b => Some b | None => pre end.
  Definition unwrap_label (sel : strsel) : option string :=
    match rev (sel_pipeline sel) with PUnwrap l :: _ => Some l | _ => None end.

  Definition ref_lra (l : lra) (es : list entry) : option (list vrow) :=
    match (match unwrap_label (lra_sel l) with
           | Some label => ref_urange (lra_f l) (lra_dur_ns l) (usamples label (grouping (lra_prefix l) (lra_suffix l)) es)
           | None => ref_range (lra_f l) (lra_dur_ns l) es
           end) with
    | Some v => Some (ref_cmp (lra_cmp l) v)
    | None => None
    end.
  Definition ref_aggop (a : aggop) (es : list entry) : option (list vrow) :=
    match ref_lra (agg_lra a) es with
    | Some v => Some (ref_cmp (agg_cmp a) (ref_agg (agg_f a) (grouping (agg_prefix a) (agg_suffix a)) v))
    | None => None
    end.
  Definition ref_quant (q : quantile) (es : list entry) : list vrow :=
    ref_cmp (q_cmp q)
      (ref_quantile (q_param q) (q_dur_ns q)
         (usamples (match unwrap_label (q_sel q) with Some l => l | None => EmptyString end) (grouping (q_prefix q) (q_suffix q)) es)).

  (* top/bottom-k is specified as a relation (ties are broken arbitrarily by the definition): see LogqlMetricProofs *)
  Definition metric_ref (s : script) (c : pctx) (es : list entry) : option (list vrow) :=
    match (match s with
           | SLra l => ref_lra l es
           | SAgg a => ref_aggop a es
           | SQuantile q => Some (ref_quant q es)
           | _ => None
           end) with
    | Some v => Some (ref_step (c_step_ns c) (get_duration s) v)
    | None => None
    end.

  (* THE DEFINITION of a vector aggregation WITHOUT a grouping clause (LogQL / PromQL: `sum(rate(...))` aggregates over all
     series of the inner vector into ONE series with the empty label set). metric_ref above follows the code, which keeps one
     series per stream for such a query in both engines (finding agg-without-grouping-keeps-streams); the two references
     coincide for every script whose vector aggregation carries a by/without clause (metric_ref_def_grouped). *)
  Definition regroup_def (g : option by_without) (m : lmap) : lmap :=
    match g with Some b => bw_map (bw_labels b) (bw_by b) m | None => [] end.
  Definition ref_agg_def (f : agg_fn) (g : option by_without) (v : list vrow) : list vrow :=
    map (fun w => {| v_labels := v_labels (head_vrow w); v_ts := v_ts (head_vrow w); v_val := eval_agg f (map v_val w) |})
        (group_by same_lbl_ts (map (fun r => {| v_labels := regroup_def g (v_labels r); v_ts := v_ts r; v_val := v_val r |}) v)).
  Definition ref_aggop_def (a : aggop) (es : list entry) : option (list vrow) :=
    match ref_lra (agg_lra a) es with
    | Some v => Some (ref_cmp (agg_cmp a) (ref_agg_def (agg_f a) (grouping (agg_prefix a) (agg_suffix a)) v))
    | None => None
    end.
  Definition metric_ref_def (s : script) (c : pctx) (es : list entry) : option (list vrow) :=
    match s with
    | SAgg a => match ref_aggop_def a es with
                | Some v => Some (ref_step (c_step_ns c) (get_duration s) v)
                | None => None end
    | _ => metric_ref s c es
    end.
End SEM.

(* every vector aggregation of the script carries a grouping clause *)
Definition agg_grouped (s : script) : bool :=
  match s with
  | SAgg a => match agg_suffix a, agg_prefix a with None, None => false | _, _ => true end
  | _ => true
  end.

(* ================= the 15-second shortcut ================= *)
(* The roll-up table metrics_15s holds, per stream and 15-second slot, the number of lines: it has no line
   and no extracted label to evaluate a stage on. A stage is answerable from it iff it keeps every line
   and every label set (a line filter matching every line), or restricts the streams by their own
   labels (a label filter: there is no parser before it in such a pipeline, and the plan applies it to
   the fingerprint selection). A parser / label_format / drop changes label sets, != "" and !~ "" drop
   every line, unwrap changes the function, line_format is answered by the in-process engine. *)
Definition stage_transparent (st : stage) : bool :=
  match st with
  | PLineFilter LFContains v _ => String.eqb v ""
  | PLineFilter LFRe v _ => String.eqb v ""
  | _ => false
  end.
Definition is_stream_label_filter (st : stage) : bool := match st with PLabelFilter _ => true | _ => false end.
Definition m15_representable (s : script) : bool :=
  match first_lra s with
  | None => false
  | Some l =>
    (match lra_f l with FRate | FCountOverTime => true | _ => false end)
    && Z.leb 15000000000 (lra_dur_ns l) && Z.eqb ((lra_dur_ns l) mod 15000000000) 0      (* windows made of whole slots *)
    && forallb (fun st => stage_transparent st || is_stream_label_filter st) (sel_pipeline (lra_sel l))
  end.
(* the label filters a plan applies to the fingerprint selection *)
Fixpoint fp_label_filters (p : planner) : list label_filter :=
  match p with
  | PSimpleLabelFilter f fpsel => (fp_label_filters fpsel ++ [f])%list
  | _ => []
  end.
Definition pipeline_label_filters (ppl : list stage) : list label_filter :=
  flat_map (fun st => match st with PLabelFilter f => [f] | _ => [] end) ppl.
Definition n_label_filters (s : script) : nat := List.length (pipeline_label_filters (sel_pipeline (stream_selector s))).
(* the time window of the shortcut select *)
Definition m15_in_window (c : pctx) (ts : Z) : bool := Z.leb (floor15 (c_from_ns c)) ts && Z.ltb ts (floor15 (c_to_ns c)).

(* ================= Go post-processors (planner_zero_eater.go, planner_from_fix.go) ================= *)
(* time.Time.Truncate(d): multiples of d counted from the zero Time (0001-01-01T00:00:00Z), d > 0 *)
Definition zero_time_ns : Z := 62135596800 * 1000000000.
Definition go_truncate (t d : Z) : Z := t - (t + zero_time_ns) mod d.

(* generic in the value type: the post-processors only test a value for being zero *)
Section POST.
  Context {V : Type} (is_zero : V -> bool) (zero : V).
  Record pentry := { pe_ts : Z; pe_fp : N; pe_val : V }.
  (* ZeroEaterPlanner: per input batch the entries whose value is not 0; empty batches are not forwarded *)
  Definition zero_eater (batches : list (list pentry)) : list (list pentry) :=
    filter (fun b => negb (match b with [] => true | _ => false end))
           (map (filter (fun e => negb (is_zero (pe_val e)))) batches).

  (* FixPeriodPlanner: per series (run of equal fingerprints) an array of (to-from)/step+1 slots starting at `from`;
     an entry of window [b, b+d) fills slots (b-from)/step .. (b+d-from)/step (Go division: truncation), clamped *)
  Fixpoint fill (vals : list V) (i lo hi : Z) (v : V) : list V :=
    match vals with
    | [] => []
    | x :: r => (if Z.leb lo i && Z.leb i hi then v else x) :: fill r (i + 1) lo hi v
    end.
  Definition fix_place (from step d : Z) (n : Z) (vals : list V) (e : pentry) : list V :=
    let b := Z.quot (pe_ts e) d * d in
    let i0 := Z.quot (b - from) step in
    let i1 := Z.quot (Z.quot (pe_ts e) d * d + d - from) step in
    if Z.ltb i1 0 || Z.leb n i0 then vals
    else fill vals 0 (Z.max i0 0) (if Z.leb n i1 then n - 1 else i1) (pe_val e).
  Fixpoint zrange (k : nat) (i : Z) : list Z := match k with O => [] | S k' => i :: zrange k' (i + 1) end.
  Definition fix_export (from step : Z) (fp : N) (vals : list V) : list (list pentry) :=
    let es := flat_map (fun iv => if is_zero (snd iv) then [] else [{| pe_ts := from + fst iv * step; pe_fp := fp; pe_val := snd iv |}])
                       (combine (zrange (List.length vals) 0) vals) in
    match es with [] => [] | _ => [es] end.
  (* state: None before the first entry, else (fingerprint, slots) *)
  Fixpoint fix_run (from step d n : Z) (st : option (N * list V)) (es : list pentry) : list (list pentry) :=
    match es with
    | [] => match st with Some (f, vals) => fix_export from step f vals | None => [] end
    | e :: r =>
      match st with
      | Some (f, vals) =>
        if N.eqb (pe_fp e) f then fix_run from step d n (Some (f, fix_place from step d n vals e)) r
        else (fix_export from step f vals ++
              fix_run from step d n (Some (pe_fp e, fix_place from step d n (repeat zero (Z.to_nat n)) e)) r)%list
      | None => fix_run from step d n (Some (pe_fp e, fix_place from step d n (repeat zero (Z.to_nat n)) e)) r
      end
    end.
  Definition fix_period (from to step d : Z) (batches : list (list pentry)) : list (list pentry) :=
    fix_run from step d (Z.quot (to - from) step + 1) None (List.concat batches).
End POST.
Arguments pentry : clear implicits.
(* the window handed to the SQL planners: whole range windows counted from the Unix epoch (Go division on non-negative
   nanoseconds). go_truncate above is what Time.Truncate computed before the fix. *)
Definition fix_from (from d : Z) : Z := Z.quot from d * d.
Definition fix_to (to d : Z) : Z := Z.quot to d * d + d.

(* ================= specification oracle on the implementation's observations ================= *)
(* The check extracts, from the SQL text the REAL planners produced, the aggregate fragment and the window
   divisor of the range-aggregation / vector-aggregation select, reads them back with the parsers below
   (the inverse of lra_val_sql / uw_val_sql / agg_val_sql / m15_val_sql, with an arbitrary decimal divisor), and
   compares their value on a fixed witness window with the reference function. A fragment that reads back
   to a different function yields a concrete failing input (query + witness rows). *)
Inductive obs_fn := OCount | OBytes | OSum | OAvg | OMax | OMin | OFirst | OLast | OVar | OStd | OCountMerge.
Fixpoint split_at (sep s : string) (fuel : nat) (acc : string) : option (string * string) :=
  if prefixb sep s then Some (rev_s acc "", substring (String.length sep) (String.length s) s) else
  match fuel, s with
  | S f, String c r => split_at sep r f (String c acc)
  | _, _ => None
  end.
Definition obs_fn_of (s : string) : option obs_fn :=
  if String.eqb s "toFloat64(COUNT())" then Some OCount
  else if String.eqb s "toFloat64(sum(length(_string)))" then Some OBytes
  else if String.eqb s "sum(unwrap_1.value)" then Some OSum
  else if String.eqb s "avg(unwrap_1.value)" then Some OAvg
  else if String.eqb s "max(unwrap_1.value)" then Some OMax
  else if String.eqb s "min(unwrap_1.value)" then Some OMin
  else if String.eqb s "argMin(unwrap_1.value, unwrap_1.timestamp_ns)" then Some OFirst
  else if String.eqb s "argMax(unwrap_1.value, unwrap_1.timestamp_ns)" then Some OLast
  else if String.eqb s "varPop(unwrap_1.value)" then Some OVar
  else if String.eqb s "stddevPop(unwrap_1.value)" then Some OStd
  else if String.eqb s "toFloat64(countMerge(count))" then Some OCountMerge
  else if String.eqb s "countMerge(count)" then Some OCountMerge
  else None.
Definition parse_obs (s : string) : option (obs_fn * option Qc) :=
  match split_at " / " s (String.length s) EmptyString with
  | Some (h, t) => match obs_fn_of h with Some f => Some (f, Some (dec_value t)) | None => None end
  | None => match obs_fn_of s with Some f => Some (f, None) | None => None end
  end.
Definition obs_agg_of (s : string) : option agg_fn :=
  if String.eqb s "sum(lra_main.value)" then Some ASum
  else if String.eqb s "min(lra_main.value)" then Some AMin
  else if String.eqb s "max(lra_main.value)" then Some AMax
  else if String.eqb s "avg(lra_main.value)" then Some AAvg
  else if String.eqb s "stddevPop(lra_main.value)" then Some AStddev
  else if String.eqb s "varPop(lra_main.value)" then Some AStdvar
  else if String.eqb s "count()" then Some ACount
  else None.

(* the witness window: four lines / samples of one series; every function takes a different value on it *)
Definition wit_entries : list entry :=
  [ {| e_labels := [("a", "b")]%string; e_ts := 10; e_line := "abc" |}; {| e_labels := [("a", "b")]%string; e_ts := 20; e_line := "" |};
    {| e_labels := [("a", "b")]%string; e_ts := 30; e_line := "defgh" |}; {| e_labels := [("a", "b")]%string; e_ts := 40; e_line := "ij" |} ].
Definition wit_samples : list (Z * Qc) := [(10, qz 3); (20, qz 1); (30, qz 7); (40, qz 2)].
Definition wit_var (_ : list Qc) : Qc := qz 1001.
Definition wit_std (_ : list Qc) : Qc := qz 1002.
Definition obs_eval (o : obs_fn * option Qc) : Qc :=
  let vals := map snd wit_samples in
  let base := match fst o with
              | OCount | OCountMerge => qlen wit_entries
              | OBytes => qsum (map (fun e => qz (Z.of_nat (String.length (e_line e)))) wit_entries)
              | OSum => qsum vals | OAvg => qavg vals | OMax => qmax_l vals | OMin => qmin_l vals
              | OFirst => match argmin_ts fst wit_samples with Some x => snd x | None => qz 0 end
              | OLast => match argmax_ts fst wit_samples with Some x => snd x | None => qz 0 end
              | OVar => wit_var vals | OStd => wit_std vals
              end in
  match snd o with Some dv => Qcdiv base dv | None => base end.
Definition spec_eval (unwrapped : bool) (f : lra_fn) (d : Z) : option Qc :=
  if unwrapped then urange_fn wit_var wit_std f d wit_samples else range_fn f d wit_entries.

(* one observation of a range aggregation: verdicts 0 = agrees with the reference, 1 = fragment not recognised,
   2 = the fragment computes another value than the reference on the witness window, 3 = the window divisor is not the range *)
Record lra_obs := { lo_id : Z; lo_unwrapped : bool; lo_f : lra_fn; lo_dur : Z; lo_bucket : Z; lo_value : string }.
Definition lra_obs_verdict (o : lra_obs) : Z :=
  if negb (Z.eqb (lo_bucket o) (lo_dur o)) then 3 else
  match parse_obs (lo_value o), spec_eval (lo_unwrapped o) (lo_f o) (lo_dur o) with
  | Some p, Some want => if qeqb (obs_eval p) want then 0 else 2
  | _, _ => 1
  end.
Definition lra_obs_bad (os : list lra_obs) : list (Z * Z) :=
  flat_map (fun o => let v := lra_obs_verdict o in if Z.eqb v 0 then [] else [(lo_id o, v)]) os.
Record agg_obs := { ao_id : Z; ao_f : agg_fn; ao_value : string }.
Definition agg_obs_verdict (o : agg_obs) : Z :=
  match obs_agg_of (ao_value o) with
  | None => 1
  | Some g => if qeqb (eval_agg wit_var wit_std g (map snd wit_samples)) (eval_agg wit_var wit_std (ao_f o) (map snd wit_samples)) then 0 else 2
  end.
Definition agg_obs_bad (os : list agg_obs) : list (Z * Z) :=
  flat_map (fun o => let v := agg_obs_verdict o in if Z.eqb v 0 then [] else [(ao_id o, v)]) os.

(* post-processor cases: the real FixPeriodPlanner / ZeroEaterPlanner on scripted batches; values are quarters, kept as
   their integer numerators (the post-processors only test values for zero and copy them) *)
Record pcase := { pc_id : Z; pc_zero : bool (* ZeroEater, else FixPeriod *); pc_from : Z; pc_to : Z; pc_step : Z; pc_dur : Z;
                  pc_sqlfrom : Z; pc_sqlto : Z;     (* ctx.From / ctx.To as the upstream (the SQL planners) saw them *)
                  pc_in : list (list (Z * N * Z)); pc_out : list (list (Z * N * Z)) }.
Definition zentry := pentry Z.
Definition pe_of (x : Z * N * Z) : zentry := {| pe_ts := fst (fst x); pe_fp := snd (fst x); pe_val := snd x |}.
Definition pe_eqb (a b : zentry) : bool := Z.eqb (pe_ts a) (pe_ts b) && N.eqb (pe_fp a) (pe_fp b) && Z.eqb (pe_val a) (pe_val b).
Fixpoint list_eqb {A} (eqb : A -> A -> bool) (a b : list A) : bool :=
  match a, b with [], [] => true | x :: r, y :: r' => eqb x y && list_eqb eqb r r' | _, _ => false end.
Definition pcase_mismatch (c : pcase) : bool :=
  let inp := map (map pe_of) (pc_in c) in
  let model := if pc_zero c then zero_eater (Z.eqb 0) inp else fix_period (Z.eqb 0) 0 (pc_from c) (pc_to c) (pc_step c) (pc_dur c) inp in
  negb (list_eqb (list_eqb pe_eqb) model (map (map pe_of) (pc_out c))
        && (if pc_zero c then Z.eqb (pc_sqlfrom c) (pc_from c) && Z.eqb (pc_sqlto c) (pc_to c)
            else Z.eqb (pc_sqlfrom c) (fix_from (pc_from c) (pc_dur c)) && Z.eqb (pc_sqlto c) (fix_to (pc_to c) (pc_dur c)))).
Definition post_mismatches (cs : list pcase) : list Z := map pc_id (filter pcase_mismatch cs).
(* what any step-fixed matrix must look like, judged on the OBSERVED output of FixPeriodPlanner: points lie on the
   grid from + i*step inside the array, ascend within a batch, carry no zero, one batch per run of a fingerprint,
   and every value is the value of an input entry of that series whose range window [b, b+d) covers or touches the slot *)
Fixpoint ascending (l : list zentry) : bool :=
  match l with a :: ((b :: _) as r) => Z.ltb (pe_ts a) (pe_ts b) && N.eqb (pe_fp a) (pe_fp b) && ascending r | _ => true end.
Definition fix_out_ok (c : pcase) : bool :=
  let from := pc_from c in let step := pc_step c in let d := pc_dur c in
  let inp := map (fun i => let b := Z.quot (pe_ts i) d * d in (pe_fp i, pe_val i, Z.quot (b - from) step, Z.quot (b + d - from) step))
                 (List.concat (map (map pe_of) (pc_in c))) in
  let n := Z.quot (pc_to c - from) step + 1 in
  forallb (fun b => negb (match b with [] => true | _ => false end) && ascending b &&
             forallb (fun e => let k := Z.quot (pe_ts e - from) step in
                               Z.eqb (Z.rem (pe_ts e - from) step) 0 && Z.leb from (pe_ts e) && Z.ltb k n && negb (Z.eqb (pe_val e) 0)
                               && existsb (fun x => match x with (f, v, i0, i1) => N.eqb f (pe_fp e) && Z.eqb v (pe_val e) && Z.leb i0 k && Z.leb k i1 end) inp) b)
          (map (map pe_of) (pc_out c)).
Definition zero_out_ok (c : pcase) : bool :=
  list_eqb pe_eqb (List.concat (map (map pe_of) (pc_out c)))
                  (filter (fun e => negb (Z.eqb (pe_val e) 0)) (List.concat (map (map pe_of) (pc_in c)))).
(* the window the SQL is asked for must consist of whole range windows as the SQL buckets them (multiples of the range)
   and cover [from, to]: otherwise the first / last reported window is computed from a part of its lines *)
Definition fix_window_ok (c : pcase) : bool :=
  let d := pc_dur c in
  Z.eqb (Z.rem (pc_sqlfrom c) d) 0 && Z.eqb (Z.rem (pc_sqlto c) d) 0
  && Z.leb (pc_sqlfrom c) (pc_from c) && Z.ltb (pc_from c) (pc_sqlfrom c + d)
  && Z.ltb (pc_to c) (pc_sqlto c) && Z.leb (pc_sqlto c) (pc_to c + d).
Definition post_spec_violations (cs : list pcase) : list Z :=
  map pc_id (filter (fun c => negb (if pc_zero c then zero_out_ok c else fix_out_ok c && fix_window_ok c)) cs).
