(* C02, correspondence cases of harness ingest --level 4 ("cells"): the real parserDoer with the real onSpan / onEntries
   behind a scripted decoder whose values carry the identity of the call (and of the position inside the call) they belong
   to.  What the parser sent is read back as one observed cell (call, position) per element of every slice field; -2 = the
   column cannot tell (a constant column, or a per-call value inside a per-attribute row).  The model side is
   items_of_model of model/IngestBridge.v; its row identities are counter values, mapped to (call, position) by the same
   counting (span_tab / logs_tab).  Executable definitions only. *)
From Coq Require Import List String ZArith NArith Bool.
From Qryn Require Import model.IngestRobust model.IngestPipe.
From Qryn Require Import model.Ingest model.PushHandler model.IngestSpec model.IngestBridge.
Import ListNotations.

Definition ocell := (Z * Z)%type.
Definition osub := (kind * list (list ocell))%type.
Record cellcase := {
  k_id : Z;
  k_spans : option (list span_ev);      (* Some: a span stream; None: a stream of onEntries calls *)
  k_logs : list ent_ev;
  k_end : IngestPipe.pend;              (* how Decode ends after the calls *)
  k_obs : list (option (list osub))     (* per response: None = an error response, Some = the sub-requests in doPush order *)
}.

Definition cells_wiring : wiring :=
  {| w_series := 0; w_samples := 1; w_samples_kind := KSamples; w_tags := 2; w_spans := 3; w_profile := 4 |}.

(* row identity (counter value) -> (call, position): a span row is (n, -1), its attribute rows (n, i); the sample rows of a
   call (n, r), its series rows (n, -3) *)
Fixpoint span_tab (c : N) (n : Z) (evs : list span_ev) : list (N * ocell) :=
  match evs with
  | [] => []
  | s :: r => ((c, (n, -1)%Z) :: map (fun i => ((c + 1 + N.of_nat i)%N, (n, Z.of_nat i))) (seq 0 (se_keys s)))
              ++ span_tab (c + 1 + N.of_nat (se_keys s))%N (n + 1)%Z r
  end.
Fixpoint logs_tab (c : N) (n : Z) (evs : list ent_ev) : list (N * ocell) :=
  match evs with
  | [] => []
  | e :: r => map (fun i => ((c + N.of_nat i)%N, (n, Z.of_nat i))) (seq 0 (ent_span e))
              ++ map (fun j => ((c + N.of_nat (ent_span e) + N.of_nat j)%N, (n, -3)%Z)) (seq 0 (en_series e))
              ++ logs_tab (c + N.of_nat (ent_span e) + N.of_nat (en_series e))%N (n + 1)%Z r
  end.
Fixpoint tab_find (x : N) (t : list (N * ocell)) : option ocell :=
  match t with [] => None | (y, v) :: r => if N.eqb x y then Some v else tab_find x r end.

Definition part_ok (o m : Z) : bool := (o =? -2)%Z || (o =? m)%Z.
Definition cell_ok (t : list (N * ocell)) (x : cell) (o : ocell) : bool :=
  match tab_find (fst x) t with Some m => part_ok (fst o) (fst m) && part_ok (snd o) (snd m) | None => false end.
Fixpoint all2 {A B} (f : A -> B -> bool) (a : list A) (b : list B) : bool :=
  match a, b with [], [] => true | x :: a', y :: b' => f x y && all2 f a' b' | _, _ => false end.
Definition sub_ok (t : list (N * ocell)) (m : nat * kind * req * Z) (o : osub) : bool :=
  kind_eqb (snd (fst (fst m))) (fst o) && all2 (all2 (cell_ok t)) (snd (fst m)) (snd o).
Definition resp_ok (t : list (N * ocell)) (it : item) (o : option (list osub)) : bool :=
  match it, o with
  | IError, None => true
  | IChunk c, Some subs => all2 (sub_ok t) c subs
  | _, _ => false
  end.

Definition cell_parsed (c : cellcase) : parsed :=
  match k_spans c with
  | Some evs => PSpans cells_wiring 0 (map CvSpan evs ++ pend_event (k_end c))
  | None => PLogs cells_wiring 0 (map LcEntries (k_logs c) ++ lend_event (k_end c))
  end.
Definition cell_tab (c : cellcase) : list (N * ocell) :=
  match k_spans c with Some evs => span_tab 0 0 evs | None => logs_tab 0 0 (k_logs c) end.
(* doParse stops receiving at the first error response *)
Definition cell_mismatch (c : cellcase) : bool := negb (all2 (resp_ok (cell_tab c)) (items_of_model (cell_parsed c)) (k_obs c)).

(* the property on what was OBSERVED: every sub-request the real parser sent is a table of whole rows -- all its columns
   have one length, and at every position the columns agree on the call and on the position inside the call wherever they
   can tell; demanded of an onEntries stream only when the scripted decoder kept the equal-length contract *)
Fixpoint agree (known : Z) (l : list Z) : bool :=
  match l with
  | [] => true
  | x :: r => if (x =? -2)%Z then agree known r
              else if (known =? -2)%Z then agree x r else (x =? known)%Z && agree known r
  end.
Fixpoint heads_tails {A} (d : A) (cols : list (list A)) : list A * list (list A) :=
  match cols with
  | [] => ([], [])
  | c :: r => let '(h, t) := heads_tails d r in (hd d c :: h, tl c :: t)
  end.
Fixpoint rows_agree (fuel : nat) (cols : list (list ocell)) : bool :=
  match fuel with
  | O => true
  | S f =>
      if forallb (fun c => match c with [] => true | _ => false end) cols then true
      else let '(h, t) := heads_tails ((-2)%Z, (-2)%Z) cols in
           agree (-2) (map fst h) && agree (-2) (map snd h) && rows_agree f t
  end.
Definition same_len (cols : list (list ocell)) : bool :=
  match cols with [] => true | c :: r => forallb (fun d => Nat.eqb (List.length d) (List.length c)) r end.
Definition osub_table (s : osub) : bool := same_len (snd s) && rows_agree (S (List.length (hd [] (snd s)))) (snd s).
Definition cell_violation (c : cellcase) : bool :=
  let contract := match k_spans c with Some _ => true | None => forallb ent_consistent (k_logs c) end in
  contract && negb (forallb (fun o => match o with Some subs => forallb osub_table subs | None => true end) (k_obs c)).

Definition cell_mismatches (cs : list cellcase) : list Z := map k_id (filter cell_mismatch cs).
Definition cell_violations (cs : list cellcase) : list Z := map k_id (filter cell_violation cs).
(* how many responses carried requests, how many chunks a case has (for the evidence) *)
Definition cell_chunks (c : cellcase) : nat := List.length (filter (fun o => match o with Some _ => true | None => false end) (k_obs c)).
