(* C09, round 8: reader/logql/logql_transpiler_v2/internal_planner/planner.go planAggregators / planByWithout and the
   entry point's groupByNothing (logql_transpiler_v2/planner.go) -- WHICH aggregator stages a parsed metric query becomes
   and IN WHICH ORDER.  Until this round the chain of a correspondence case was read off the planned structs, so the model
   and the specification oracle followed whatever order the planner had chosen (seed C09-h: the by/without regrouping of
   `sum by (..) (count_over_time(..) > 1)` planned BEFORE the range aggregation went unseen).  Here the aggregator part of
   the chain is a function of the parsed query alone (the harness reads it off a second, independent parse of the query
   text); the specification oracle judges the observed output against the chain THIS function prescribes.
   Definitions only.                                                                                                   *)
From Coq Require Import List ZArith NArith Bool String Ascii Floats.
From Qryn Require Import model.InternalEngine.
Import ListNotations.
Open Scope Z_scope.

(* a by / without clause as written: (is it `by`, the label names) *)
Definition bwq := option (bool * list string).
(* planByWithout(init, prefix, suffix): the LAST clause that is written decides *)
Definition bw_pick (pre suf : bwq) : bwq := match suf with Some _ => suf | None => pre end.

Section PLAN.
  Variable V : Type.
  Definition bw_stage (b : bwq) : list (stage V) :=
    match b with None => [] | Some (by_, names) => [SByWithout V by_ names] end.
  Definition cmp_stage (c : option (cmp * V)) : list (stage V) :=
    match c with None => [] | Some (op, v) => [SComparison V op v] end.

  (* LRAOrUnwrap: rq_unwrap = the last pipeline stage of its selector is `| unwrap l` *)
  Record rangeq := {
    rq_unwrap : bool;
    rq_lra : lra_fn;
    rq_uagg : uagg_fn;
    rq_dur : Z;                          (* time.ParseDuration(Time + TimeUnit), nanoseconds *)
    rq_pre : bwq; rq_suf : bwq;
    rq_cmp : option (cmp * V)
  }.
  (* AggOperator *)
  Record aggq := {
    aq_fn : aggop_fn;
    aq_pre : bwq; aq_suf : bwq;
    aq_cmp : option (cmp * V);
    aq_range : rangeq
  }.
  Inductive topq := QLog | QRange (r : rangeq) | QAgg (a : aggq).

  (* case *logql_parser.LRAOrUnwrap: a range aggregation over unwrapped values regroups FIRST (its own by/without clause),
     one over lines does not read its clause at all; the comparison written behind it follows it directly *)
  Definition plan_range (r : rangeq) : list (stage V) :=
    (if rq_unwrap r
     then bw_stage (bw_pick (rq_pre r) (rq_suf r)) ++ [SAgg V (KUnwrap (rq_uagg r)) (rq_dur r)]
     else [SAgg V (KLra (rq_lra r)) (rq_dur r)])
    ++ cmp_stage (rq_cmp r).

  (* groupByNothing: a vector aggregation without a clause is `by ()` *)
  Definition agg_bw (a : aggq) : bwq :=
    match bw_pick (aq_pre a) (aq_suf a) with None => Some (true, []) | b => b end.

  (* case *logql_parser.AggOperator: the inner range aggregation (with ITS comparison), THEN the regrouping, the vector
     aggregation over the inner range's duration, the outer comparison *)
  Definition plan_agg (a : aggq) : list (stage V) :=
    plan_range (aq_range a) ++ bw_stage (agg_bw a) ++ [SAgg V (KAggOp (aq_fn a)) (rq_dur (aq_range a))] ++ cmp_stage (aq_cmp a).

  (* Plan: `if !in.IsMatrix() { LimitPlanner; ResponseOptimizerPlanner }` *)
  Definition plan_aggs (q : topq) : list (stage V) :=
    match q with
    | QLog => [SLimit V; SOptimizer V]
    | QRange r => plan_range r
    | QAgg a => plan_agg a
    end.

  (* the seed's variant (C09-h), kept for the refutation: for sum over count_over_time / bytes_over_time the regrouping is
     planned before the range aggregation *)
  Definition group_first (a : aggq) : bool :=
    match aq_fn a, rq_unwrap (aq_range a), rq_lra (aq_range a) with
    | ASum, false, LCount | ASum, false, LBytesOver => true
    | _, _, _ => false
    end.
  Definition plan_agg_group_first (a : aggq) : list (stage V) :=
    if group_first a
    then bw_stage (agg_bw a) ++ plan_range (aq_range a) ++ [SAgg V (KAggOp (aq_fn a)) (rq_dur (aq_range a))] ++ cmp_stage (aq_cmp a)
    else plan_agg a.

  (* the pipeline stages of a planned chain (Plan's loop over strSelector.Pipelines: tied stage by stage through the
     planned structs and, in kind, through plan_mismatches) *)
  Definition is_pipe_stage (s : stage V) : bool :=
    match s with
    | SByWithout _ _ _ | SAgg _ _ _ | SComparison _ _ _ | SLimit _ | SOptimizer _ => false
    | _ => true
    end.
  Fixpoint pipe_prefix (ch : list (stage V)) : list (stage V) :=
    match ch with
    | [] => []
    | s :: r => if is_pipe_stage s then s :: pipe_prefix r else []
    end.
  Definition ref_chain (q : topq) (ch : list (stage V)) : list (stage V) := pipe_prefix ch ++ plan_aggs q.
End PLAN.

Arguments rq_unwrap {V}. Arguments rq_lra {V}. Arguments rq_uagg {V}. Arguments rq_dur {V}. Arguments rq_pre {V}.
Arguments rq_suf {V}. Arguments rq_cmp {V}. Arguments aq_fn {V}. Arguments aq_pre {V}. Arguments aq_suf {V}.
Arguments aq_cmp {V}. Arguments aq_range {V}.

(* ------------------------------------------------------------------------------------------------------------------ *)
(* correspondence cases: the case as observed + the aggregators of its query as parsed *)
Definition ftopq := topq float.
Definition ref_case (q : ftopq) (k : fcase) : fcase :=
  {| f_id := f_id k; f_tab := f_tab k; f_ctx := f_ctx k; f_chain := ref_chain float q (f_chain k); f_in := f_in k;
     f_kills := f_kills k; f_obs := f_obs k; f_cancel := f_cancel k |}.
Definition ref_cases (qs : list ftopq) (cs : list fcase) : list fcase :=
  map (fun p => ref_case (fst p) (snd p)) (combine qs cs).

(* the aggregator stages compared structurally (everything but the pipeline stages: those carry filters and are tied through
   run_chain stage by stage) *)
Definition lra_code (f : lra_fn) : Z := match f with LRate => 0 | LCount => 1 | LBytesRate => 2 | LBytesOver => 3 | LAbsent => 4 | LOther => 5 end.
Definition uagg_code (f : uagg_fn) : Z :=
  match f with URate => 0 | USum => 1 | UAvg => 2 | UMax => 3 | UMin => 4 | UFirst => 5 | ULast => 6 | UOther => 7 end.
Definition aggop_code (f : aggop_fn) : Z :=
  match f with ASum => 0 | AMin => 1 | AMax => 2 | AAvg => 3 | ACount => 4 | AUnsupported => 5 | AOther => 6 end.
Definition cmp_code (c : cmp) : Z := match c with CGt => 0 | CGe => 1 | CLt => 2 | CLe => 3 | CEq => 4 | CNe => 5 end.
Fixpoint strs_eqb (a b : list string) : bool :=
  match a, b with
  | [], [] => true
  | x :: r, y :: s => String.eqb x y && strs_eqb r s
  | _, _ => false
  end.
Definition agg_stage_eqb (a b : fstage) : bool :=
  match a, b with
  | SByWithout _ x xs, SByWithout _ y ys => Bool.eqb x y && strs_eqb xs ys
  | SAgg _ (KLra f) d, SAgg _ (KLra g) e => (lra_code f =? lra_code g) && (d =? e)
  | SAgg _ (KUnwrap f) d, SAgg _ (KUnwrap g) e => (uagg_code f =? uagg_code g) && (d =? e)
  | SAgg _ (KAggOp f) d, SAgg _ (KAggOp g) e => (aggop_code f =? aggop_code g) && (d =? e)
  | SComparison _ o v, SComparison _ p w => (cmp_code o =? cmp_code p) && PrimFloat.eqb v w
  | SLimit _, SLimit _ | SOptimizer _, SOptimizer _ => true
  | _, _ => false
  end.
Fixpoint agg_stages_eqb (a b : list fstage) : bool :=
  match a, b with
  | [], [] => true
  | x :: r, y :: s => agg_stage_eqb x y && agg_stages_eqb r s
  | _, _ => false
  end.
Definition agg_suffix (ch : list fstage) : list fstage := skipn (List.length (pipe_prefix float ch)) ch.
(* the planner built other aggregator stages (or another order) than planAggregators as modelled *)
Definition agg_plan_mismatch (q : ftopq) (k : fcase) : bool :=
  negb (agg_stages_eqb (agg_suffix (f_chain k)) (plan_aggs float q)).
Definition agg_plan_mismatches (qs : list ftopq) (cs : list fcase) : list Z :=
  map (fun p => f_id (snd p)) (filter (fun p => agg_plan_mismatch (fst p) (snd p)) (combine qs cs)).
(* the specification oracle over the chain the parsed query prescribes *)
Definition ref_spec_violations (qs : list ftopq) (cs : list fcase) : list (Z * Z) := spec_violations (ref_cases qs cs).
