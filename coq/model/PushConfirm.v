(* C01: unmarshal.ConfirmSeries (/repo 00ba95e) inside the model.  doParse of writer/controller/builder.go, after the
   in-order Get() loop over `promises` returned no error and BEFORE it returns nil (the status is written afterwards by
   the PostRequest withOkStatusAndBody), calls ConfirmSeries(ts, fpCache) for every TimeSeriesData the parser emitted:
   for i, d := range ts.MDate the key (d, ts.MFingerprint[i], ts.MType[i]) is entered into the announcement cache
   (CheckAndSet).  The parsers consult that cache (Has) and leave out the time_series row of a key it holds.  On every
   error path -- a parser error, a failed sub-push -- doParse returns before that loop: nothing is confirmed.

   The system of model/PushHandler.v is wrapped, its state is untouched: cstate = the gstate, the cache (row ids of the
   confirmed series rows: a row of a series request is identified by the id in its date column, column 1, the column
   ConfirmSeries ranges over) and the pushes that have run their confirmation loop.  CConfirm h is that loop; the answer
   step GAnswer h with a success verdict is only enabled after it.  Executable definitions only. *)
From Coq Require Import List NArith ZArith Bool.
From Qryn Require Import model.Ingest model.PushHandler.
Import ListNotations.

Record cstate := { base : gstate; fpcache : list N; confirmed : list nat }.
Inductive cact := CBase (a : gact) | CConfirm (h : nat).
Inductive cevent := CE (e : event) | EConfirm (h : nat) (keys : list N).

(* ts.MDate[i] / MFingerprint[i] / MType[i]: columns 1, 2, 0 of the series request; a shorter MFingerprint or MType is an
   index-out-of-range panic in the handler goroutine (no trace) *)
Definition confirm_keys (r : req) : option (list N) :=
  let d := nth 1 r [] in
  if Nat.ltb (length (nth 2 r [])) (length d) || Nat.ltb (length (nth 0 r [])) (length d) then None
  else Some (map fst d).
Fixpoint series_keys (reqs : list (kind * req)) : option (list N) :=
  match reqs with
  | [] => Some []
  | (KSeries, r) :: t =>
      match confirm_keys r, series_keys t with
      | Some a, Some b => Some (a ++ b)
      | _, _ => None
      end
  | _ :: t => series_keys t
  end.
Definition mem_nat (h : nat) (l : list nat) : bool := existsb (Nat.eqb h) l.

Definition cstep (c : cstate) (a : cact) : option (cstate * list cevent) :=
  match a with
  | CConfirm h =>
      match nth_error (hs (base c)) h with
      | None => None
      | Some hd =>
          match h_items hd, h_answer hd, verdict (h_subs hd) with
          | [], None, Some true =>
              if mem_nat h (confirmed c) then None
              else match series_keys (reqs_of (h_subs hd)) with
                   | None => None
                   | Some keys => Some ({| base := base c; fpcache := fpcache c ++ keys; confirmed := h :: confirmed c |},
                                        [EConfirm h keys])
                   end
          | _, _, _ => None
          end
      end
  | CBase b =>
      let gate := match b with
                  | GAnswer h => match nth_error (hs (base c)) h with
                                 | Some hd => match verdict (h_subs hd) with
                                              | Some true => mem_nat h (confirmed c)
                                              | _ => true
                                              end
                                 | None => true
                                 end
                  | _ => true
                  end in
      if gate then
        match gstep (base c) b with
        | Some (g', es) => Some ({| base := g'; fpcache := fpcache c; confirmed := confirmed c |}, map CE es)
        | None => None
        end
      else None
  end.

Fixpoint crun (c : cstate) (tr : list cact) : option (cstate * list cevent) :=
  match tr with
  | [] => Some (c, [])
  | a :: tr' =>
      match cstep c a with
      | None => None
      | Some (c', e1) => match crun c' tr' with None => None | Some (c'', e2) => Some (c'', e1 ++ e2) end
      end
  end.

Definition cinit (cfg : list (kind * nat * Z)) (n : N) : cstate := {| base := ginit cfg n; fpcache := []; confirmed := [] |}.

(* the projection onto the system without the cache *)
Fixpoint base_trace (tr : list cact) : list gact :=
  match tr with [] => [] | CBase a :: t => a :: base_trace t | CConfirm _ :: t => base_trace t end.
Fixpoint base_events (es : list cevent) : list event :=
  match es with [] => [] | CE e :: t => e :: base_events t | EConfirm _ _ :: t => base_events t end.
Fixpoint confirm_events (es : list cevent) : list (nat * list N) :=
  match es with [] => [] | EConfirm h k :: t => (h, k) :: confirm_events t | CE _ :: t => confirm_events t end.

(* what a success answer implies for the cache, as a function of the event: used by the correspondence *)
Definition confirms_of_event (e : event) : list (nat * list N) :=
  match e with
  | EAnswer h reqs true => match series_keys reqs with Some keys => [(h, keys)] | None => [] end
  | _ => []
  end.
