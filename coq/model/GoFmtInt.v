(* C10 (round 8) -- package fmt's doPrintf (Go 1.24, fmt/print.go) for operands that are STRINGS or INTEGERS (int, int64, ...), on the
   fragment of formats without flags, argument indexes, width and precision: GoFmt.v with the numeric verb %d inside the model.
   Until round 7 the numeric sites of the census rested on go/types ("the operand of %d is a basic integer") plus numeric_sites_safe
   (a text over the numeric alphabet is harmless): that fmt prints, for an integer under %d, a text over that alphabet was not modelled.
   Outside the fragment the model answers None (never a guess).  Executable definitions only. *)
From Coq Require Import List String Ascii Bool NArith ZArith DecimalString.
From Qryn Require Import model.GoFmt.
Import ListNotations.
Open Scope string_scope.

(* an operand: a string, or an integer of the Go type named ty ("int", "int64", ...) *)
Inductive operand := OStr (s : string) | OInt (ty : string) (z : Z).

(* strconv's decimal text of an integer (fmtInteger base 10, no flags): a minus sign for negative numbers, then the digits *)
Definition dec (z : Z) : string := NilZero.string_of_int (Z.to_int z).

(* %v of the operand *)
Definition show (o : operand) : string := match o with OStr s => s | OInt _ z => dec z end.
Definition ty_of (o : operand) : string := match o with OStr _ => "string" | OInt ty _ => ty end.

(* "%!(EXTRA string=a, int=5)" : operands no verb consumed *)
Fixpoint extra_list2 (args : list operand) : string :=
  match args with
  | [] => ""
  | [a] => ty_of a ++ "=" ++ show a
  | a :: r => ty_of a ++ "=" ++ show a ++ ", " ++ extra_list2 r
  end.
Definition extra2 (args : list operand) : string :=
  match args with [] => "" | _ => "%!(EXTRA " ++ extra_list2 args ++ ")" end.

(* verbs that print an INTEGER in another notation: outside the fragment *)
Definition int_other_notation (c : ascii) : bool :=
  existsb (Ascii.eqb c) ["b"; "o"; "O"; "c"; "U"]%char.

(* is verb v good for the operand?  strings: %s %v; integers: %d %v *)
Definition good_verb (v : ascii) (o : operand) : bool :=
  match o with
  | OStr _ => plain_verb v
  | OInt _ _ => Ascii.eqb v "d" || Ascii.eqb v "v"
  end.

(* one verb over the next operand; None: outside the fragment *)
Definition print_verb2 (v : ascii) (args : list operand) : option (string * list operand) :=
  match args with
  | [] => Some ("%!" ++ c2s v ++ "(MISSING)", [])
  | a :: r =>
    if good_verb v a then Some (show a, r)
    else match a with
         | OInt _ _ => if int_other_notation v then None else Some ("%!" ++ c2s v ++ "(" ++ ty_of a ++ "=" ++ show a ++ ")", r)
         | OStr _ => Some ("%!" ++ c2s v ++ "(" ++ ty_of a ++ "=" ++ show a ++ ")", r)
         end
  end.

Fixpoint fmt_go2 (f : string) (args : list operand) : option string :=
  match f with
  | EmptyString => Some (extra2 args)
  | String c r =>
    if is_pct c then
      match r with
      | EmptyString => Some ("%!(NOVERB)" ++ extra2 args)
      | String v r' =>
        if spec_byte v || other_notation v || (128 <=? N_of_ascii v)%N then None
        else if is_pct v then option_map (fun o => "%" ++ o) (fmt_go2 r' args)
        else match print_verb2 v args with
             | None => None
             | Some (txt, rest) => option_map (fun o => txt ++ o) (fmt_go2 r' rest)
             end
      end
    else option_map (fun o => String c o) (fmt_go2 r args)
  end.

(* the verb the census expects for an operand, and the format it reads as  text / operand / text ... *)
Definition verb_of (o : operand) : string := match o with OStr _ => "%s" | OInt _ _ => "%d" end.
Fixpoint mkformat2 (texts : list string) (ops : list operand) : string :=
  match texts with
  | [] => ""
  | [t] => t
  | t :: ts => match ops with o :: r => t ++ verb_of o ++ mkformat2 ts r | [] => t end
  end.

(* bytes of a decimal integer text *)
Definition dec_alphabet : string := "-0123456789".

(* correspondence cases (checks/c10.py): format, operands, what package fmt printed *)
Definition fmt_case2 := (string * list operand * string)%type.
Definition fmt_verdict2 (c : fmt_case2) : nat :=
  let '(f, args, out) := c in
  match fmt_go2 f args with
  | None => 2                                  (* outside the fragment *)
  | Some o => if String.eqb o out then 0 else 1
  end.
