(* C13: the label-values and series planners of the LogQL transpiler, used by /loki/api/v1/label/{name}/values,
   /loki/api/v1/series, /api/v1/label/{name}/values and /api/v1/series (QueryLabelsService):
   reader/logql/logql_transpiler_v2/clickhouse_planner/{planner_values.go, planner_series.go,
   planner_multi_stream_select.go}.  The stream selector below them is LogqlPlan.stream_select.
   Tied to the code by text equality with the statements recorded from the real router (checks/c13.py).
   Executable definitions only. *)
From Coq Require Import List ZArith NArith String Ascii Bool.
From Qryn Require Import lib.Strs lib.CivilDate model.Sql model.SqlRender model.Logql model.LogqlPlan.
Import ListNotations.
Open Scope string_scope.

(* ctx.To.UTC().Format("2006-01-02") as a day number *)
Definition to_day (c : pctx) : expr := DateV (c_to_ns c / (86400 * 1000000000)).

(* MultiStreamSelectPlanner.Process: one selector alone, several as UNION ALL (no selector: index out of range) *)
Definition multi_stream_select (c : pctx) (sels : list (list matcher)) : option select :=
  match sels with
  | [] => None
  | [ms] => Some (stream_select c ms)
  | ms :: rest => Some (set_unions (map (stream_select c) rest) (stream_select c ms))
  end.

Definition with_limit (c : pctx) (s : select) : select :=
  if (0 <? c_limit c)%Z then set_limit (Some (IntV (c_limit c))) s else s.

(* ValuesPlanner.Process *)
Definition values_planner (c : pctx) (key : string) (fp : option select) : select :=
  let base := and_where [Ge (Id "date") (format_from_date c); Le (Id "date") (to_day c); Eq (Id "key") (StrV key); get_types c]
                (set_from (Id (t_gin c)) (set_distinct true (set_cols [Id "val"] empty_select))) in
  with_limit c
    match fp with
    | Some q => and_where [In (Id "fingerprint") [WRef "fp_sel" q]] (with_ [("fp_sel", q)] base)
    | None => base
    end.

(* SeriesPlanner.Process *)
Definition series_planner (c : pctx) (fp : select) : select :=
  with_limit c
    (and_where [Ge (Id "date") (format_from_date c); Le (Id "date") (to_day c);
                In (Id "fingerprint") [WRef "fp_sel" fp]; get_types c]
      (set_from (SimpleCol (if c_cluster c then t_ts_dist c else t_ts c) "time_series")
        (set_cols [SimpleCol "labels" "labels"] (set_distinct true (with_ [("fp_sel", fp)] empty_select))))).

(* what QueryLabelsService sends: query.String(ctx) without options (WITH never inlined) *)
Definition values_sql (c : pctx) (key : string) (sels : list (list matcher)) : option string :=
  match sels with
  | [] => render (values_planner c key None) false
  | _ => match multi_stream_select c sels with Some q => render (values_planner c key (Some q)) false | None => None end
  end.
Definition series_sql (c : pctx) (sels : list (list matcher)) : option string :=
  match multi_stream_select c sels with Some q => render (series_planner c q) false | None => None end.

Record lv_case := { lv_id : Z; lv_ctx : pctx; lv_key : option string; lv_sels : list (list matcher); lv_sql : string }.
Definition lv_mismatch (x : lv_case) : bool :=
  match (match lv_key x with Some k => values_sql (lv_ctx x) k (lv_sels x) | None => series_sql (lv_ctx x) (lv_sels x) end) with
  | Some t => negb (String.eqb t (lv_sql x))
  | None => true
  end.
Definition lv_mismatches (cs : list lv_case) : list Z := map lv_id (filter lv_mismatch cs).
