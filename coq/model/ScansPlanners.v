(* C13: the label-values and series planners of the LogQL transpiler, used by /loki/api/v1/label/{name}/values,
   /loki/api/v1/series, /api/v1/label/{name}/values and /api/v1/series (QueryLabelsService):
   reader/logql/logql_transpiler_v2/clickhouse_planner/{planner_values.go, planner_series.go,
   planner_multi_stream_select.go}.  The stream selector below them is LogqlPlan.stream_select.
   Tied to the code by text equality with the statements recorded from the real router (checks/c13.py).
   Executable definitions only. *)
From Coq Require Import List ZArith NArith String Ascii Bool.
From Qryn Require Import lib.Strs lib.CivilDate model.Sql model.SqlRender model.Logql model.LogqlPlan model.PromSel.
Import ListNotations.
Open Scope string_scope.

(* ctx.To.UTC().Format("2006-01-02") as a day number *)
Definition to_day (c : pctx) : expr := DateV (c_to_ns c / (86400 * 1000000000)).

(* MultiStreamSelectPlanner.Process: one selector alone, several as UNION ALL (no selector: index out of range) *)
Definition multi_stream_select (c : pctx) (sels : list (list matcher)) : option select :=
  match sels with
  | [] => None
  | [ms] => Some (stream_select c ms)
  | ms :: rest => Some (set_unions (map (stream_select c) rest) (stream_select c ms))
  end.

Definition with_limit (c : pctx) (s : select) : select :=
  if (0 <? c_limit c)%Z then set_limit (Some (IntV (c_limit c))) s else s.

(* ValuesPlanner.Process *)
Definition values_planner (c : pctx) (key : string) (fp : option select) : select :=
  let base := and_where [Ge (Id "date") (format_from_date c); Le (Id "date") (to_day c); Eq (Id "key") (StrV key); get_types c]
                (set_from (Id (t_gin c)) (set_distinct true (set_cols [Id "val"] empty_select))) in
  with_limit c
    match fp with
    | Some q => and_where [In (Id "fingerprint") [WRef "fp_sel" q]] (with_ [("fp_sel", q)] base)
    | None => base
    end.

(* SeriesPlanner.Process *)
Definition series_planner (c : pctx) (fp : select) : select :=
  with_limit c
    (and_where [Ge (Id "date") (format_from_date c); Le (Id "date") (to_day c);
                In (Id "fingerprint") [WRef "fp_sel" fp]; get_types c]
      (set_from (SimpleCol (if c_cluster c then t_ts_dist c else t_ts c) "time_series")
        (set_cols [SimpleCol "labels" "labels"] (set_distinct true (with_ [("fp_sel", fp)] empty_select))))).

(* what QueryLabelsService sends: query.String(ctx) without options (WITH never inlined) *)
Definition values_sql (c : pctx) (key : string) (sels : list (list matcher)) : option string :=
  match sels with
  | [] => render (values_planner c key None) false
  | _ => match multi_stream_select c sels with Some q => render (values_planner c key (Some q)) false | None => None end
  end.
Definition series_sql (c : pctx) (sels : list (list matcher)) : option string :=
  match multi_stream_select c sels with Some q => render (series_planner c q) false | None => None end.

(* QueryLabelsService.Labels (reader/service/queryLabelsService.go): the label names of /loki/api/v1/labels and
   /api/v1/labels; start / end arrive in milliseconds and are cut to whole seconds (time.Unix(ms/1000, 0)) *)
Definition labels_query (table : string) (ty start_ms end_ms : Z) : select :=
  and_where [In (Id "type") [IntV ty; IntV 0];
             Ge (Id "date") (DateV (from_day (start_ms / 1000 * 1000000000)));
             Le (Id "date") (DateV (end_ms / 1000 / 86400))]
    (set_from (SimpleCol table "samples") (set_cols [Id "key"] (set_distinct true empty_select))).
Definition labels_sql (table : string) (ty start_ms end_ms : Z) : option string := render (labels_query table ty start_ms end_ms) false.

Record ln_case := { ln_id : Z; ln_table : string; ln_ty : Z; ln_start_ms : Z; ln_end_ms : Z; ln_sql : string }.
Definition ln_mismatch (x : ln_case) : bool :=
  match labels_sql (ln_table x) (ln_ty x) (ln_start_ms x) (ln_end_ms x) with
  | Some t => negb (String.eqb t (ln_sql x))
  | None => true
  end.
Definition ln_mismatches (cs : list ln_case) : list Z := map ln_id (filter ln_mismatch cs).

Record lv_case := { lv_id : Z; lv_ctx : pctx; lv_key : option string; lv_sels : list (list matcher); lv_sql : string }.
Definition lv_mismatch (x : lv_case) : bool :=
  match (match lv_key x with Some k => values_sql (lv_ctx x) k (lv_sels x) | None => series_sql (lv_ctx x) (lv_sels x) end) with
  | Some t => negb (String.eqb t (lv_sql x))
  | None => true
  end.
Definition lv_mismatches (cs : list lv_case) : list Z := map lv_id (filter lv_mismatch cs).

(* ---------- Prometheus Select and label fetch: text of C17's model (PromSel.select_sql = what CLokiQuerier.Select sends,
   PromSel.labels_fetch = labelsGetter.getFetchRequest) vs the statements recorded from /api/v1/query(_range) in C13's own
   run.  The hint record of a Select call is rebuilt from the request (step, function, range: per endpoint) and the two
   timestamp literals of the recorded statement; every other byte - tables, matchers, exclusion sub-queries, type and date
   conjuncts, bucket expressions - comes from the model.  No matcher of the sweep accepts the empty string through a
   regular expression, so the oracle answers false. ---------- *)
Record ps_case := { ps_id : Z; ps_cluster : bool; ps_db : string; ps_h : PromSel.hints; ps_ms : list matcher; ps_sql : string }.
Definition ps_mismatches (cs : list ps_case) : list Z :=
  flat_map (fun c => match PromSel.select_sql (fun _ _ => false) (ps_cluster c) (ps_db c) (ps_h c) (ps_ms c) with
                     | Some t => if String.eqb t (ps_sql c) then [] else [ps_id c]
                     | None => [ps_id c] end) cs.
Definition ps_texts (cs : list ps_case) : list (option string) :=
  map (fun c => PromSel.select_sql (fun _ _ => false) (ps_cluster c) (ps_db c) (ps_h c) (ps_ms c)) cs.
Record pf_case := { pf_id : Z; pf_cluster : bool; pf_fps : list N; pf_from_ms : Z; pf_to_ms : Z; pf_sql : string }.
Definition pf_mismatches (cs : list pf_case) : list Z :=
  flat_map (fun c => match render (PromSel.labels_fetch (pf_cluster c) (pf_fps c) (pf_from_ms c) (pf_to_ms c)) false with
                     | Some t => if String.eqb t (pf_sql c) then [] else [pf_id c]
                     | None => [pf_id c] end) cs.
