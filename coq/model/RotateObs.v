(* Comparison of model/Rotate.v with the implementation's observations (property C19): the case records used by the
   generated case files, `mismatches` (model run vs observed run), `spec_violations` (the property's boolean oracle on
   the observed logs and states alone).  Executable definitions only. *)
From Coq Require Import List ZArith Bool String Ascii.
From Qryn Require Import model.Rotate model.RotateCfg model.RotateConc.
Import ListNotations.
Open Scope string_scope.
Open Scope Z_scope.

(* ------------------------------------------------------------------ comparison with the implementation *)
Definition oarg_eqb (a b : oarg) : bool :=
  match a, b with AS x, AS y => String.eqb x y | AN x, AN y => x =? y | _, _ => false end.
Fixpoint list_eqb {A} (eqb : A -> A -> bool) (a b : list A) : bool :=
  match a, b with
  | [], [] => true
  | x :: r, y :: r' => eqb x y && list_eqb eqb r r'
  | _, _ => false
  end.
Definition ocall_eqb (a b : ocall) : bool :=
  Bool.eqb (o_q a) (o_q b) && String.eqb (o_sql a) (o_sql b) && list_eqb oarg_eqb (o_args a) (o_args b) &&
  Bool.eqb (o_ok a) (o_ok b).

(* one observed run: configuration, fault, and what the harness saw *)
(* how the run was started: maintenance.Rotate directly, RotateAll over configuration objects (rotateDB for each), or
   portCHEnv on an environment (and the DATABASE_DATA a configuration file left) followed by RotateAll; for the last
   one the harness reports whether portCHEnv returned an error and DATABASE_DATA afterwards *)
(* func initDB of package main (verbatim copy) with ctrl.Init recorded and the real ctrl.Rotate: what it did, and the
   state of every database with a name of its own afterwards *)
Record oinit := {
  oi_panicked : bool; oi_init_calls : nat; oi_rotate_calls : nat;
  oi_init_first : bool;        (* ctrl.Init had returned when ctrl.Rotate was called *)
  oi_same_cfg : bool;          (* both were given the configuration initDB was given *)
  oi_projects_ok : bool }.     (* every call named the project "qryn" *)
Record ostate := { os_db : nat; os_ttl : list string; os_policy : list string; os_settings : list (Z * string) }.
Inductive rkind :=
| KDirect
| KAll (os : list dbobj)
| KEnv (e : environ) (preset : list dbobj) (oerr : bool) (oout : list dbobj)
| KInit (e : environ) (init_fails : bool) (os : list (nat * dbobj)) (o : oinit) (sts : list ostate).

Record orun := {
  r_cfg : config; r_fault : fault;
  r_kind : rkind;
  r_parse : list (string * option Z);     (* what time.ParseDuration returned for the timeouts of this run *)
  r_log : list ocall; r_err : bool;
  r_ttl : list string;          (* TTL of the seven tables after the run, in the order of all_tables *)
  r_policy : list string;
  r_settings : list (Z * string) }.
(* observed concurrent instances (real Rotate goroutines on one connection, statements granted one at a time) *)
Record oconc := {
  cc_cfgs : list config;
  cc_eff : list nat;                        (* the instance of every granted statement, in order *)
  cc_evs : list sev;                        (* the same sequence with the statements that were made to fail *)
  cc_log : list (nat * ocall);
  cc_errs : list bool;
  cc_done : list bool;                      (* per instance: its Rotate returned (crashed instances stop where the schedule ends) *)
  cc_ttl : list string; cc_policy : list string; cc_settings : list (Z * string) }.
Record case := {
  c_id : Z;
  c_init : list (Z * string);               (* settings rows before the first run *)
  c_init_ttl : list string; c_init_policy : list string;   (* table state before the first run, order of all_tables *)
  c_runs : list orun;
  c_conc : option oconc;                    (* after the runs: concurrent instances *)
  c_after : list orun }.                    (* sequential runs after those *)

Fixpoint lookup (l : list (Z * string)) (k : Z) : string :=
  match l with [] => "" | (k', v) :: r => if k =? k' then v else lookup r k end.
Definition table_idx (t : table) : nat :=
  match t with TimeSeries => 0 | TimeSeriesGin => 1 | SamplesV3 => 2 | TempoTraces => 3 | TempoAttrsGin => 4
             | TempoKv => 5 | Metrics15s => 6 end%nat.
Definition db_of (ttl pol : list string) (s : list (Z * string)) : db :=
  {| d_ttl := fun t => nth (table_idx t) ttl ""; d_policy := fun t => nth (table_idx t) pol "";
     d_settings := lookup s |}.
Definition init_db (c : case) : db := db_of (c_init_ttl c) (c_init_policy c) (c_init c).
Definition obs_db (r : orun) : db := db_of (r_ttl r) (r_policy r) (r_settings r).

(* model state = observed state: the seven tables, every reported settings row, and the eight keys *)
Definition state_eqb3 (d : db) (ttl pol : list string) (sett : list (Z * string)) : bool :=
  let o := db_of ttl pol sett in
  forallb (fun t => String.eqb (d_ttl d t) (d_ttl o t) && String.eqb (d_policy d t) (d_policy o t)) all_tables &&
  forallb (fun kv => String.eqb (d_settings d (fst kv)) (snd kv)) sett &&
  forallb (fun g => String.eqb (recd d g) (recd o g)) groups &&
  (Nat.eqb (List.length ttl) 7) && (Nat.eqb (List.length pol) 7).
Definition state_eqb (d : db) (r : orun) : bool := state_eqb3 d (r_ttl r) (r_policy r) (r_settings r).
Definition ostate_db (st : ostate) : db := db_of (os_ttl st) (os_policy st) (os_settings st).

Fixpoint lookup_parse (tbl : list (string * option Z)) (s : string) : option Z :=
  match tbl with [] => None | (k, v) :: r => if String.eqb s k then v else lookup_parse r s end.
Definition elem_eqb (a b : ttl_elem) : bool := String.eqb (e_timeout a) (e_timeout b) && String.eqb (e_move_to a) (e_move_to b).
Definition dbobj_eqb (a b : dbobj) : bool :=
  String.eqb (o_cluster a) (o_cluster b) && list_eqb elem_eqb (o_ttl_policy a) (o_ttl_policy b) &&
  (o_ttl_days a =? o_ttl_days b) && String.eqb (o_storage_policy a) (o_storage_policy b).

(* the model's run: rendered log (oldest first), success, databases afterwards, agreement on the other observations
   (portCHEnv's result; what initDB did and the named databases).  Database 0 is the history's only database for the
   kinds that do not distinguish databases. *)
Definition model_run (ds : nat -> db) (r : orun) : list ocall * bool * (nat -> db) * bool :=
  let d := ds 0%nat in
  match r_kind r with
  | KDirect => let '(w, ok) := run (r_cfg r) (r_fault r) d in (map (render (r_cfg r)) (rev (w_log w)), ok, upd ds 0 (w_db w), true)
  | KAll os => let '(l, ok, d') := rotate_all (lookup_parse (r_parse r)) os (r_fault r) d in (l, ok, upd ds 0 d', true)
  | KEnv e preset oerr oout =>
    match port_ch_env e preset with
    | None => ([], false, ds, oerr)
    | Some os => let '(l, ok, d') := rotate_all (lookup_parse (r_parse r)) os (r_fault r) d in
                 (l, ok, upd ds 0 d', negb oerr && list_eqb dbobj_eqb os oout)
    end
  | KInit e ifails os o sts =>
    let '(panicked, called, l, ds') := RotateCfg.init_db (lookup_parse (r_parse r)) e ifails os (r_fault r) ds in
    let rotated := called && negb ifails in
    (l, negb panicked, ds',
     Bool.eqb (oi_panicked o) panicked && Nat.eqb (oi_init_calls o) (if called then 1 else 0) &&
     Nat.eqb (oi_rotate_calls o) (if rotated then 1 else 0) && (negb rotated || oi_init_first o) &&
     oi_same_cfg o && oi_projects_ok o &&
     forallb (fun st => state_eqb3 (ds' (os_db st)) (os_ttl st) (os_policy st) (os_settings st)) sts &&
     forallb (fun x => existsb (fun st => Nat.eqb (os_db st) (fst x)) sts) (if rotated then os else []))
  end.

Definition run_matches (ds : nat -> db) (r : orun) : bool * (nat -> db) :=
  let '(l, ok, ds', agree) := model_run ds r in
  (list_eqb ocall_eqb l (r_log r) && Bool.eqb (negb ok) (r_err r) && state_eqb (ds' 0%nat) r && agree, ds').

Fixpoint runs_match (ds : nat -> db) (rs : list orun) : bool * (nat -> db) :=
  match rs with
  | [] => (true, ds)
  | r :: rest => let '(b, ds') := run_matches ds r in let '(b', ds'') := runs_match ds' rest in (b && b', ds'')
  end.

(* the concurrent part: the model's scheduler on the granted sequence = the observed interleaved log, every
   instance finished, final state *)
Definition conc_as_run (o : oconc) : orun :=
  {| r_cfg := {| cluster := ""; distributed := false; days := []; drop_days := 0; storage_policy := "" |};
     r_fault := None; r_kind := KDirect; r_parse := []; r_log := []; r_err := false;
     r_ttl := cc_ttl o; r_policy := cc_policy o; r_settings := cc_settings o |}.
Definition conc_matches (d : db) (o : oconc) : bool * db :=
  let fs := fsched_run (cc_evs o) (finit d (cc_cfgs o)) in
  let s := f_sys fs in
  let n := List.length (cc_cfgs o) in
  (list_eqb (fun a b => Nat.eqb (fst a) (fst b) && ocall_eqb (snd a) (snd b))
            (map (render_fconc (cc_cfgs o)) (rev (f_log fs))) (cc_log o) &&
   (* an instance's Rotate has returned when it is done or its statement failed; it reports an error exactly then *)
   list_eqb Bool.eqb (map (fun k => done (nth k (s_insts s) (start (nth 0 (cc_cfgs o) (i_cfg (start {| cluster := ""; distributed := false; days := []; drop_days := 0; storage_policy := "" |}))))) || is_dead (f_dead fs) k) (seq 0 n)) (cc_done o) &&
   list_eqb Bool.eqb (map (is_dead (f_dead fs)) (seq 0 n)) (cc_errs o) &&
   list_eqb Nat.eqb (map sev_inst (cc_evs o)) (cc_eff o) &&
   state_eqb (s_db s) (conc_as_run o), s_db s).

(* every database with a name of its own starts fresh *)
Definition fresh_db : db := {| d_ttl := fun _ => "<initial>"; d_policy := fun _ => "<initial>"; d_settings := fun _ => "" |}.
Definition init_dbs (c : case) : nat -> db := upd (fun _ => fresh_db) 0 (init_db c).
Definition model_mismatch (c : case) : bool :=
  let '(b, ds) := runs_match (init_dbs c) (c_runs c) in
  let '(b2, d2) := match c_conc c with None => (true, ds 0%nat) | Some o => conc_matches (ds 0%nat) o end in
  let '(b3, _) := runs_match (upd ds 0 d2) (c_after c) in
  negb (b && b2 && b3).

(* ------------------------------------------------------------------ the property's oracle on observed runs *)
(* text helpers *)
Fixpoint drop_prefix (p s : string) : option string :=
  match p with
  | EmptyString => Some s
  | String a p' => match s with
                   | String b s' => if Ascii.eqb a b then drop_prefix p' s' else None
                   | EmptyString => None
                   end
  end.
(* the text after the first occurrence of p *)
Fixpoint after (p s : string) : option string :=
  match drop_prefix p s with
  | Some r => Some r
  | None => match s with String _ s' => after p s' | EmptyString => None end
  end.
Fixpoint take_word (s : string) : string :=
  match s with
  | EmptyString => ""
  | String c r => if Ascii.eqb c " " then "" else String c (take_word r)
  end.
Definition digit_of (c : ascii) : option Z :=
  let n := Z.of_N (N_of_ascii c) in if (48 <=? n) && (n <=? 57) then Some (n - 48) else None.
Fixpoint parse_digits (s : string) (acc : Z) : Z :=
  match s with
  | EmptyString => acc
  | String c r => match digit_of c with Some d => parse_digits r (acc * 10 + d) | None => acc end
  end.
Definition parse_int (s : string) : Z :=
  match s with
  | String c r => if Ascii.eqb c "-" then - parse_digits r 0 else parse_digits s 0
  | EmptyString => 0
  end.
(* every n of a "toIntervalSecond(n)" in the text *)
Fixpoint intervals (s : string) : list Z :=
  match s with
  | EmptyString => []
  | String _ r =>
    match drop_prefix "toIntervalSecond(" s with
    | Some rest => parse_int rest :: intervals r
    | None => intervals r
    end
  end.

Definition name_min (n : string) : Z :=
  if existsb (String.eqb n) ["time_series"; "time_series_gin"; "tempo_traces_attrs_gin"; "tempo_traces_kv"]
  then 86400 else 60.

(* an observed ALTER ... MODIFY TTL: (table name, expression) *)
Definition obs_ttl (o : ocall) : option (string * string) :=
  if o_q o then None else
  match drop_prefix "ALTER TABLE " (o_sql o) with
  | Some r => match after " MODIFY TTL " r with
              | Some e => Some (take_word r, e)
              | None => None
              end
  | None => None
  end.
Definition obs_policy (o : ocall) : option (string * string) :=
  if o_q o then None else
  match drop_prefix "ALTER TABLE " (o_sql o), o_args o with
  | Some r, [AS p] => match after policy_tail r with
                      | Some "" => Some (take_word r, p)
                      | _ => None
                      end
  | _, _ => None
  end.

(* (1) tier minimum on every emitted TTL statement *)
Definition tier_min_obs (o : ocall) : bool :=
  match obs_ttl o with
  | Some (tn, e) => forallb (fun n => name_min tn <=? n) (intervals e)
  | None => true
  end.

(* (1b) the tiers follow the configuration: the statement has one toIntervalSecond per configured tier, in order, and
   the n of a tier is never earlier than the configured whole seconds (up to the int32 cap) and never later than
   max(table minimum, configured): stated on the observed text and the configuration alone, so that an implementation
   printing 64-bit seconds would be accepted as well *)
Fixpoint tiers_follow (minv : Z) (ds : list policy) (ns : list Z) : bool :=
  match ds, ns with
  | [], [] => true
  | p :: ds', n :: ns' =>
    let s := whole_seconds (p_ns p) in
    (Z.min s max_int32 <=? n) && (n <=? Z.max minv s) && tiers_follow minv ds' ns'
  | _, _ => false
  end.
(* the disks named by the TO DISK '<name>' clauses of the text, and the n of its toIntervalDay(n) *)
Fixpoint upto_quote (s : string) : string :=
  match s with
  | EmptyString => ""
  | String c r => if Ascii.eqb c "'" then "" else String c (upto_quote r)
  end.
Fixpoint disks_in (s : string) : list string :=
  match s with
  | EmptyString => []
  | String _ r =>
    match drop_prefix "TO DISK '" s with
    | Some rest => upto_quote rest :: disks_in r
    | None => disks_in r
    end
  end.
Fixpoint day_intervals (s : string) : list Z :=
  match s with
  | EmptyString => []
  | String _ r =>
    match drop_prefix "toIntervalDay(" s with
    | Some rest => parse_int rest :: day_intervals r
    | None => day_intervals r
    end
  end.
Definition tier_cfg_obs (cfg : config) (o : ocall) : bool :=
  match obs_ttl o with
  | Some (tn, e) =>
    tiers_follow (name_min tn) (days cfg) (intervals e) &&
    list_eqb String.eqb (disks_in e) (filter (fun x => negb (String.eqb x "")) (map p_disk (days cfg))) &&
    list_eqb Z.eqb (day_intervals e) [drop_days cfg]
  | None => true
  end.

(* (2) a value is recorded only after every table of the group was successfully altered to it (same run) *)
Definition altered_to (g : group) (v : string) (earlier : list ocall) (t : table) : bool :=
  existsb (fun o => o_ok o &&
     match (if is_sp g then obs_policy o else obs_ttl o) with
     | Some (tn, x) => String.eqb tn (table_name t) && String.eqb x v
     | None => false
     end) earlier.
Definition put_ok (earlier : list ocall) (o : ocall) : bool :=
  if o_q o || match drop_prefix "INSERT INTO settings" (o_sql o) with Some _ => false | None => true end then true else
  match o_args o with
  | [AN fp; _; _; AS v] =>
    if String.eqb v "" then true else
    forallb (fun g => negb (fp =? key g) || forallb (altered_to g v earlier) (tables_of g)) groups
  | _ => true
  end.
Fixpoint record_after_all_obs (earlier : list ocall) (l : list ocall) : bool :=
  match l with
  | [] => true
  | o :: r => put_ok earlier o && record_after_all_obs (o :: earlier) r
  end.

(* (3) a run that returned no error leaves the configured TTL / policy on every table (when the history started from
   a consistent database); that the records are right shows in (4): the run after such a run with the same
   configuration issues no Exec.  Neither depends on the names the implementation records under. *)
Definition policy_eqb (a b : policy) : bool := (p_ns a =? p_ns b) && String.eqb (p_disk a) (p_disk b).
Definition config_eqb (a b : config) : bool :=
  String.eqb (cluster a) (cluster b) && Bool.eqb (distributed a) (distributed b) &&
  list_eqb policy_eqb (days a) (days b) && (drop_days a =? drop_days b) &&
  String.eqb (storage_policy a) (storage_policy b).

(* the configurations a run is to apply, as the specification reads the run's input: the direct call's own, or per
   configuration object cluster / parsed timeouts / days / policy (stopping at the first timeout that does not
   parse: flag = the run must report an error), for an environment what SAMPLES_DAYS / STORAGE_POLICY /
   CLUSTER_NAME say *)
Fixpoint cfgs_of (parse : string -> option Z) (os : list dbobj) : list config * bool :=
  match os with
  | [] => ([], false)
  | o :: r => match config_of parse o with
              | None => ([], true)
              | Some c => let '(l, f) := cfgs_of parse r in (c :: l, f)
              end
  end.
Definition spec_cfgs (r : orun) : list config * bool :=
  match r_kind r with
  | KDirect => ([r_cfg r], false)
  | KAll os => cfgs_of (lookup_parse (r_parse r)) os
  | KEnv e preset _ _ =>
    match port_ch_env e preset with
    | None => ([], true)
    | Some os => cfgs_of (lookup_parse (r_parse r)) os
    end
  | KInit _ _ os _ _ => cfgs_of (lookup_parse (r_parse r)) (map snd os)
  end.
Definition env_ok (r : orun) : bool :=
  match r_kind r with
  | KEnv e preset oerr oout =>
    match port_ch_env e preset with
    | None => oerr
    | Some os => negb oerr && list_eqb dbobj_eqb os oout
    end
  | _ => true
  end.
Definition is_nil {A} (l : list A) : bool := match l with [] => true | _ => false end.

(* rotateDB reads the records through settings_dist exactly when the configuration object names a cluster, i.e. exactly
   when its ALTERs carry ON CLUSTER: every observed statement of a run through rotateDB is one a configuration of the
   run explains: a SELECT on the table chosen by that configuration's cluster name, an ALTER with that ON CLUSTER text *)
Definition has_infix (p s : string) : bool := match after p s with Some _ => true | None => false end.
Definition cluster_ok (c : config) (o : ocall) : bool :=
  let clustered := negb (String.eqb (cluster c) "") in
  if o_q o then String.eqb (o_sql o) (get_sql clustered)
  else if has_infix "ALTER TABLE " (o_sql o)
       then (if clustered then has_infix (on_cluster c) (o_sql o) else negb (has_infix "ON CLUSTER" (o_sql o)))
       else true.
Definition glue_cluster_ok (r : orun) (cfgs : list config) : bool :=
  match r_kind r with
  | KDirect => true
  | _ => forallb (fun o => existsb (fun c => cluster_ok c o) cfgs) (r_log r)
  end.

(* func initDB, on the observations and the run's input alone.  The variable boolEnv reads says true: nothing happens;
   it is not a boolean word: panic, nothing happened; otherwise ctrl.Init is called once, first, with the configuration
   and "qryn"; it fails: panic and no retention statement; else ctrl.Rotate once with the same arguments, and
   - every MODIFY TTL respects the minima and carries the tiers, disks and days of one of the configured objects,
   - a ttl_policy timeout that does not parse: panic,
   - no fault, every timeout parses: no panic, and every database an object names was reported and its tables carry
     the configuration of the LAST object naming it (each database its own: the retention of one database is not
     applied to another). *)
Fixpoint last_cfg_b (parse : string -> option Z) (os : list (nat * dbobj)) (i : nat) : option config :=
  match os with
  | [] => None
  | (j, o) :: r => match last_cfg_b parse r i with
                   | Some c => Some c
                   | None => if Nat.eqb i j then config_of parse o else None
                   end
  end.
Definition init_ok (r : orun) (e : environ) (ifails : bool) (os : list (nat * dbobj)) (o : oinit) (sts : list ostate) : bool :=
  let parse := lookup_parse (r_parse r) in
  let quiet := is_nil (r_log r) in
  match bool_env (getenv e "key") with
  | None => oi_panicked o && quiet && Nat.eqb (oi_init_calls o) 0 && Nat.eqb (oi_rotate_calls o) 0
  | Some true => negb (oi_panicked o) && quiet && Nat.eqb (oi_init_calls o) 0 && Nat.eqb (oi_rotate_calls o) 0
  | Some false =>
    Nat.eqb (oi_init_calls o) 1 && oi_same_cfg o && oi_projects_ok o &&
    if ifails then oi_panicked o && quiet && Nat.eqb (oi_rotate_calls o) 0 else
    let '(cfgs, failed) := cfgs_of parse (map snd os) in
    Nat.eqb (oi_rotate_calls o) 1 && oi_init_first o &&
    forallb tier_min_obs (r_log r) &&
    forallb (fun c => match obs_ttl c with None => true | Some _ => existsb (fun cf => tier_cfg_obs cf c) cfgs end) (r_log r) &&
    forallb (fun c => existsb (fun cf => cluster_ok cf c) cfgs) (r_log r) &&
    record_after_all_obs [] (r_log r) &&
    (negb failed || oi_panicked o) &&
    match r_fault r with
    | Some _ => true
    | None =>
      failed ||
      (negb (oi_panicked o) &&
       forallb (fun x => match last_cfg_b parse os (fst x) with
                         | None => true
                         | Some cf => existsb (fun st => Nat.eqb (os_db st) (fst x) && applied_b cf (ostate_db st)) sts
                         end) os)
    end
  end.

Fixpoint runs_ok (start_consistent : bool) (prev_done : option config) (rs : list orun) : bool :=
  match rs with
  | [] => true
  | r :: rest =>
    match r_kind r with
    | KInit e ifails os o sts => init_ok r e ifails os o sts && Bool.eqb (r_err r) (oi_panicked o) && runs_ok start_consistent None rest
    | _ =>
    let '(cfgs, failed) := spec_cfgs r in
    forallb tier_min_obs (r_log r) &&
    (* every TTL statement carries the tiers, disks and days of one of the run's configurations *)
    forallb (fun o => match obs_ttl o with None => true | Some _ => existsb (fun c => tier_cfg_obs c o) cfgs end) (r_log r) &&
    (* a timeout that does not parse / an environment that is refused: error; nothing to apply: nothing issued *)
    (negb failed || r_err r) && (negb (is_nil cfgs) || is_nil (r_log r)) && env_ok r && glue_cluster_ok r cfgs &&
    record_after_all_obs [] (r_log r) &&
    (* an uninterrupted run of acceptable input never fails *)
    (match r_fault r with None => failed || negb (r_err r) | Some _ => true end) &&
    match cfgs, failed with
    | [c], false =>
      (r_err r || negb start_consistent || applied_b c (obs_db r)) &&
      match prev_done with
      | Some c0 => negb (config_eqb c0 c) || forallb o_q (r_log r)
      | None => true
      end &&
      runs_ok start_consistent (if r_err r then None else Some c) rest
    | c1 :: (_ :: _) as l, false =>
      (* several configured databases (the harness keeps them behind one connection): every one of them was rotated, in
         order, so the tables carry the configuration of the last one *)
      (r_err r || negb start_consistent || applied_b (last l c1) (obs_db r)) &&
      runs_ok start_consistent None rest
    | _, _ => runs_ok start_consistent None rest
    end
    end
  end.
(* concurrent instances, on the observations alone: every TTL statement respects the minima and carries the tiers of
   its instance's configuration; within each instance's own statements a record comes after the ALTERs of its group;
   no instance reports an error; and when all instances have the same configuration (and the history started from a
   database whose records name only applied values) every table carries that configuration in the end *)
Definition conc_ok (start_consistent : bool) (o : oconc) : bool :=
  forallb (fun e => tier_min_obs (snd e)) (cc_log o) &&
  forallb (fun e => match nth_error (cc_cfgs o) (fst e) with Some c => tier_cfg_obs c (snd e) | None => false end) (cc_log o) &&
  forallb (fun k => record_after_all_obs [] (map snd (filter (fun e => Nat.eqb (fst e) k) (cc_log o))))
          (seq 0 (List.length (cc_cfgs o))) &&
  (* an instance reports an error exactly when one of its statements failed, and that statement is its last *)
  forallb (fun k => let own := map snd (filter (fun e => Nat.eqb (fst e) k) (cc_log o)) in
                    Bool.eqb (nth k (cc_errs o) false) (existsb (fun c => negb (o_ok c)) own) &&
                    forallb o_ok (removelast own))
          (seq 0 (List.length (cc_cfgs o))) &&
  match cc_cfgs o with
  | [] => true
  | c :: r => negb (forallb (config_eqb c) r) || negb start_consistent || negb (forallb (fun x => x) (cc_done o)) ||
              existsb (fun x => x) (cc_errs o) || applied_b c (obs_db (conc_as_run o))
  end.
Definition spec_violation (c : case) : bool :=
  let sc := consistent_b (init_db c) in
  (* instances with different configurations at the same time are outside the property and can leave records that name
     values their tables lack (concurrent_different_configurations_diverge): the runs after them are then judged like
     runs on a database that did not start consistent *)
  let sc_after := sc && match c_conc c with
                        | Some o => match cc_cfgs o with [] => true | c0 :: r => forallb (config_eqb c0) r end
                        | None => true
                        end in
  negb (runs_ok sc None (c_runs c) && match c_conc c with None => true | Some o => conc_ok sc o end &&
        runs_ok sc_after None (c_after c)).

Definition mismatches (cs : list case) : list Z := map c_id (filter model_mismatch cs).
Definition spec_violations (cs : list case) : list Z := map c_id (filter spec_violation cs).
