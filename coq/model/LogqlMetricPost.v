(* C08 - specification of the Go post-processor FixPeriodPlanner (planner_from_fix.go), stated apart from the
   transcription fix_period of LogqlMetricSem.v.
   The row stream (whatever its batching) falls into maximal runs of equal fingerprints; a run is one series.
   Slot i of a series stands for the step timestamp from + i*step, 0 <= i < n = (to-from)/step + 1. A row of the
   run with window [b, b+d] (b = the range bucket of its timestamp) COVERS slot i iff
   (b - from)/step <= i <= (b + d - from)/step; the slot holds the value of the LAST covering row of the run (zero if
   none), and exactly the non-zero slots are reported.  Executable definitions only. *)
From Coq Require Import List ZArith NArith String Bool.
From Qryn Require Import model.LogqlMetricSem.
Import ListNotations.
Open Scope Z_scope.

Section POSTSPEC.
  Context {V : Type} (is_zero : V -> bool) (zero : V).
  Variables from step d : Z.

  Definition win_start (e : pentry V) : Z := Z.quot (pe_ts e) d * d.
  Definition covers (e : pentry V) (i : Z) : bool :=
    Z.leb (Z.quot (win_start e - from) step) i && Z.leb i (Z.quot (win_start e + d - from) step).
  (* the slot after the rows of `run`, starting from the slot function g *)
  (* = fun i => if covers e i then pe_val e else g i (lemma slot_upd_eq); the bounds are bound outside the function so
     that an evaluation computes them once per row, not once per slot *)
  Definition slot_upd (g : Z -> V) (e : pentry V) : Z -> V :=
    let i0 := Z.quot (win_start e - from) step in
    let i1 := Z.quot (win_start e + d - from) step in
    let v := pe_val e in
    fun i => if Z.leb i0 i && Z.leb i i1 then v else g i.
  Definition slot_val (g : Z -> V) (run : list (pentry V)) : Z -> V := fold_left slot_upd run g.

  (* maximal runs of equal fingerprints *)
  Fixpoint runs (es : list (pentry V)) : list (list (pentry V)) :=
    match es with
    | [] => []
    | e :: r =>
      match runs r with
      | (x :: g) :: gs => if N.eqb (pe_fp x) (pe_fp e) then (e :: x :: g) :: gs else [e] :: (x :: g) :: gs
      | _ => [[e]]
      end
    end.
  Definition run_fp (run : list (pentry V)) : N := match run with e :: _ => pe_fp e | [] => 0%N end.
  Definition export_run (n : Z) (run : list (pentry V)) : list (list (pentry V)) :=
    fix_export is_zero from step (run_fp run) (map (slot_val (fun _ => zero) run) (zrange (Z.to_nat n) 0)).
  Definition fix_period_spec (to : Z) (batches : list (list (pentry V))) : list (list (pentry V)) :=
    flat_map (export_run (Z.quot (to - from) step + 1)) (runs (List.concat batches)).
End POSTSPEC.

(* specification oracle on the OBSERVED output of FixPeriodPlanner: it must be the specified matrix, batch by batch
   (fix_period_spec is total and equals the transcription fix_period - theorem fix_period_equals_spec - so a
   disagreement is a violation of the specification on the recorded rows, not only a model mismatch) *)
Definition pcase_spec2_bad (c : pcase) : bool :=
  negb (pc_zero c) &&
  negb (list_eqb (list_eqb pe_eqb)
          (fix_period_spec (Z.eqb 0) 0 (pc_from c) (pc_step c) (pc_dur c) (pc_to c) (map (map pe_of) (pc_in c)))
          (map (map pe_of) (pc_out c))).
Definition post_spec2_violations (cs : list pcase) : list Z := map pc_id (filter pcase_spec2_bad cs).
