(* Pieces of the Go standard library the OTLP decoder of the writer builds label VALUES with (property C04,
   writer/utils/unmarshal/otlplogs.go SanitizeValue): encoding/json's string encoder as json.Marshal uses it
   (appendString with escapeHTML = true), json.Marshal of a []string and of a map[string]string (keys sorted bytewise),
   and base64.StdEncoding.EncodeToString. Executable definitions only. *)
From Coq Require Import List ZArith String Ascii Bool.
From Qryn Require Import model.GoQuote.
Import ListNotations.
Open Scope Z_scope.

Definition hexdig (n : Z) : ascii := chr (if n <? 10 then 48 + n else 87 + n).
(* htmlSafeSet: the ASCII bytes json.Marshal copies *)
Definition gj_safe (b : Z) : bool :=
  in_rng 32 127 b && negb ((b =? 34) || (b =? 92) || (b =? 60) || (b =? 62) || (b =? 38)).
Definition gj_escape (b : Z) : string :=
  let bs := chr 92 in
  if (b =? 34) || (b =? 92) then String bs (str1 (chr b))
  else if b =? 8 then String bs "b" else if b =? 12 then String bs "f" else if b =? 10 then String bs "n"
  else if b =? 13 then String bs "r" else if b =? 9 then String bs "t"
  else String bs (String "u" (String "0" (String "0" (String (hexdig (b / 16)) (str1 (hexdig (b mod 16))))))).

(* skip > 0: the continuation bytes of a rune already decided: copied (copy = true) or dropped *)
Fixpoint gj_body (skip : nat) (copy : bool) (s : string) : string :=
  match s with
  | EmptyString => EmptyString
  | String c r =>
    match skip with
    | S k => if copy then String c (gj_body k copy r) else gj_body k copy r
    | O =>
      let b := byte c in
      if b <? 128 then (if gj_safe b then String c (gj_body 0 true r) else append (gj_escape b) (gj_body 0 true r))
      else match decode_rune s with
           | Some (rn, w) =>
             if (rn =? 8232) || (rn =? 8233)
             then append (String (chr 92) (String "u" (String "2" (String "0" (String "2" (str1 (hexdig (rn mod 16)))))))) (gj_body (Nat.pred w) false r)
             else String c (gj_body (Nat.pred w) true r)
           | None => append (String (chr 92) "ufffd") (gj_body 0 true r)
           end
    end
  end.
Definition gj_string (s : string) : string := String (chr 34) (append (gj_body 0 true s) (str1 (chr 34))).

Fixpoint join_with (sep : string) (l : list string) : string :=
  match l with
  | [] => EmptyString
  | [x] => x
  | x :: r => append x (append sep (join_with sep r))
  end.
(* json.Marshal([]string) (a non-nil slice) *)
Definition gj_array (items : list string) : string :=
  String "[" (append (join_with "," (map gj_string items)) "]").

(* json.Marshal(map[string]string): members sorted by key (bytewise), keys distinct in a map *)
Fixpoint ins_key (kv : string * string) (l : list (string * string)) : list (string * string) :=
  match l with
  | [] => [kv]
  | x :: r => if String.leb (fst kv) (fst x) then kv :: l else x :: ins_key kv r
  end.
Definition sort_keys (l : list (string * string)) : list (string * string) := fold_right ins_key [] l.
Definition gj_map (m : list (string * string)) : string :=
  String "{" (append (join_with "," (map (fun kv => append (gj_string (fst kv)) (String ":" (gj_string (snd kv)))) (sort_keys m))) "}").

(* base64.StdEncoding.EncodeToString *)
Definition b64c (n : Z) : ascii :=
  chr (if n <? 26 then 65 + n else if n <? 52 then 71 + n else if n <? 62 then n - 4 else if n =? 62 then 43 else 47).
Fixpoint base64 (s : string) : string :=
  match s with
  | EmptyString => EmptyString
  | String a EmptyString =>
    let x := byte a in String (b64c (x / 4)) (String (b64c ((x mod 4) * 16)) "==")
  | String a (String b EmptyString) =>
    let x := byte a in let y := byte b in
    String (b64c (x / 4)) (String (b64c ((x mod 4) * 16 + y / 16)) (String (b64c ((y mod 16) * 4)) "="))
  | String a (String b (String c r)) =>
    let x := byte a in let y := byte b in let z := byte c in
    String (b64c (x / 4)) (String (b64c ((x mod 4) * 16 + y / 16)) (String (b64c ((y mod 16) * 4 + z / 64)) (String (b64c (z mod 64)) (base64 r))))
  end.
