(* Chunked emission of the trace write path (property C06): builder.go onSpan's Size bookkeeping and the
   mid-request flush, the streaming form of the decoders (what has been handed to onSpan when a later span
   fails), and the parser's responses.

   onSpan appends the trace row to p.spans and the tag rows to p.attrs, adds
       49 + len(parentId) + len(name) + len(serviceName) + len(payload)      to p.spans.Size
       40 + len(key) + len(val)   per tag row                                 to p.attrs.Size
   and, AFTER the tag loop, sends both objects as one ParserResponse and starts new ones when
   p.attrs.Size + p.spans.Size > 1 MiB.  doParseSpans sends what is left as the last response when Decode
   returns nil, and an error response (nothing else) when it returns an error or panics: responses sent
   before the failing span stay sent (controller.doParse has already pushed them to the insert services).

   Executable definitions only.  The byte length of a stored payload is a parameter [psz] (for OTLP the
   length of the protobuf encoding, for Zipkin the length of the element's text): every theorem of
   proofs/SpansChunkProofs.v holds for every [psz] and every threshold. *)
From Coq Require Import List ZArith NArith Bool String Ascii.
From Qryn Require Import model.Spans.
Import ListNotations.
Open Scope Z_scope.

Fixpoint zlen_acc (s : string) (acc : Z) : Z :=
  match s with EmptyString => acc | String _ r => zlen_acc r (acc + 1) end.
Definition zlen (s : string) : Z := zlen_acc s 0.                    (* len(s), without unary numerals *)

Definition flush_threshold : Z := 1048576.                            (* 1*1024*1024 *)
Definition row_overhead : Z := 49.
Definition tag_overhead : Z := 40.

Definition row_size (psz : payload -> Z) (r : trow) : Z :=
  row_overhead + zlen (t_parent r) + zlen (t_name r) + zlen (t_service r) + psz (t_payload r).
Definition tag_size (a : arow) : Z := tag_overhead + zlen (a_key a) + zlen (a_val a).
Definition tags_size (l : list arow) : Z := fold_right (fun a acc => tag_size a + acc) 0 l.
Definition span_size (psz : payload -> Z) (sr : span_rows) : Z := row_size psz (fst sr) + tags_size (snd sr).

(* p.spans / p.attrs with their Size fields *)
Record est := { e_rows : list trow; e_tags : list arow; e_ssize : Z; e_asize : Z }.
Definition e0 : est := {| e_rows := []; e_tags := []; e_ssize := 0; e_asize := 0 |}.      (* resetSpans *)

(* one ParserResponse carrying rows *)
Record chunk := { k_rows : list trow; k_tags : list arow }.
Definition chunk_of (st : est) : chunk := {| k_rows := e_rows st; k_tags := e_tags st |}.

(* onSpan after the id check: append, account, flush when above the threshold *)
Definition on_span_acc (thr : Z) (psz : payload -> Z) (st : est) (sr : span_rows) : est * list chunk :=
  let st' := {| e_rows := (e_rows st ++ [fst sr])%list; e_tags := (e_tags st ++ snd sr)%list;
                e_ssize := e_ssize st + row_size psz (fst sr); e_asize := e_asize st + tags_size (snd sr) |} in
  if e_asize st' + e_ssize st' >? thr then (e0, [chunk_of st']) else (st', []).

Fixpoint run (thr : Z) (psz : payload -> Z) (st : est) (xs : list span_rows) : list chunk * est :=
  match xs with
  | [] => ([], st)
  | x :: r => let '(st', out) := on_span_acc thr psz st x in
              let '(cs, fin) := run thr psz st' r in ((out ++ cs)%list, fin)
  end.

(* the responses of one request: [stream] = the spans handed to onSpan in order and whether Decode then failed *)
Definition responses (thr : Z) (psz : payload -> Z) (stream : list span_rows * bool) : list chunk * bool :=
  let '(cs, fin) := run thr psz e0 (fst stream) in
  if snd stream then (cs, true) else ((cs ++ [chunk_of fin])%list, false).

(* ------------------------------------------------------------------ the decoders as streams *)
Fixpoint mapM_pre {A B} (f : A -> option B) (l : list A) : list B * bool :=
  match l with
  | [] => ([], false)
  | x :: r => match f x with
              | None => ([], true)
              | Some y => let '(ys, e) := mapM_pre f r in (y :: ys, e)
              end
  end.

Definition otlp_res_stream (q : quirks) (r : ores) : list span_rows * bool :=
  let spans := List.concat (r_scopes r) in
  if r_has_res r || negb (q_nil_resource q) then mapM_pre (otlp_span q (res_attrs r)) spans
  else ([], match spans with [] => false | _ => true end).

Fixpoint otlp_stream_core (q : quirks) (b : list ores) : list span_rows * bool :=
  match b with
  | [] => ([], false)
  | r :: rest =>
      let '(rows, e) := otlp_res_stream q r in
      if e then (rows, true) else let '(rows', e') := otlp_stream_core q rest in ((rows ++ rows')%list, e')
  end.
(* a request with a string that is not UTF-8 fails in proto.Unmarshal, before any span reaches onSpan *)
Definition otlp_stream (q : quirks) (b : list ores) : list span_rows * bool :=
  if otlp_utf8_ok b then otlp_stream_core q b else ([], true).

Fixpoint zipkin_stream_from (q : quirks) (nd : bool) (i : N) (st : zst) (es : list jv) : list span_rows * bool :=
  match es with
  | [] => ([], false)
  | e :: r =>
      let st0 := if nd && q_nd_stateful q then st else set_payload z_init (PRef i) in
      match decode_span q st0 e with
      | None => ([], true)
      | Some (rows, st') => let '(rs, er) := zipkin_stream_from q nd (i + 1)%N st' r in (rows :: rs, er)
      end
  end.

Definition decode_stream (q : quirks) (i : input) : list span_rows * bool :=
  match i with
  | InOtlp b => otlp_stream q b
  | InZipkin nd es => zipkin_stream_from q nd 0%N z_init es
  end.

Definition decode_chunked (thr : Z) (psz : payload -> Z) (q : quirks) (i : input) : list chunk * bool :=
  responses thr psz (decode_stream q i).

(* ------------------------------------------------------------------ cases *)
(* [cc_resp]: per parser response that carried rows, (trace rows, tag rows), in order; [cc_case]: c_err = the request
   ended with an error response, c_rows / c_tags = the rows of all responses concatenated (after an error: the rows
   flushed before it). *)
Record ccase := { cc_case : case; cc_lens : list Z (* byte length of the text of each Zipkin element *); cc_resp : list (Z * Z) }.

Definition zlength {A} (l : list A) : Z := Z.of_nat (List.length l).

Definition chunk_matches (psz : payload -> Z) (c : ccase) : bool :=
  let '(cs, err) := decode_chunked flush_threshold psz fixed (c_in (cc_case c)) in
  Bool.eqb err (c_err (cc_case c))
  && all2 (fun k (o : Z * Z) => (zlength (k_rows k) =? fst o) && (zlength (k_tags k) =? snd o)) cs (cc_resp c)
  && list_eqb trow_eqb (List.concat (map k_rows cs)) (c_rows (cc_case c))
  && (if c_err (cc_case c)
      then match chunks (map (fun k => List.length (k_tags k)) cs) (c_tags (cc_case c)) with
           | Some groups => list_eqb (perm_eqb arow_eqb) (map k_tags cs) groups
           | None => false
           end
      else true).
Definition chunk_mismatch (psz : payload -> Z) (c : ccase) : bool := negb (chunk_matches psz c).

(* the property's demand on the responses of an ACCEPTED request, independent of the decoders and of the sizes: the
   trace rows of all responses are one per pushed span, and every response carries exactly the tag rows of the
   spans whose trace rows it carries (a span is never split between two INSERTs, none is lost at a flush) *)
Fixpoint whole_spans (ps : list pushed) (resp : list (Z * Z)) : bool :=
  match resp with
  | [] => match ps with [] => true | _ => false end
  | (nr, nt) :: rest =>
      let n := Z.to_nat nr in
      (0 <=? nr) && (Nat.leb n (List.length ps))
      && (nt =? fold_right (fun p acc => zlength (p_tags p) + acc) 0 (firstn n ps))
      && whole_spans (skipn n ps) rest
  end.
Definition chunk_spec_ok (c : ccase) : bool :=
  if c_err (cc_case c) then true
  else match pushed_of (c_in (cc_case c)) with
       | None => true
       | Some ps => if forallb widths_ok ps then whole_spans ps (cc_resp c) else true
       end.
Definition chunk_spec_violation (c : ccase) : bool := negb (chunk_spec_ok c).

Definition chunk_mismatches (psz : ccase -> payload -> Z) (cs : list ccase) : list Z :=
  map (fun c => c_id (cc_case c)) (filter (fun c => chunk_mismatch (psz c) c) cs).
Definition chunk_spec_violations (cs : list ccase) : list Z :=
  map (fun c => c_id (cc_case c)) (filter chunk_spec_violation cs).

(* payload sizes of a Zipkin request: the byte length of each element's own text *)
Definition psz_texts (lens : list Z) (p : payload) : Z :=
  match p with PRef i => nth (N.to_nat i) lens 0 | _ => 0 end.
