(* C07, round 6 - the zone of the reader process.

   clickhouse_planner.FormatFromDate prints the lower bound `date >= '<day>'` of every read of the series
   index as from.UTC().Add(-30 min).Format("2006-01-02"): the UTC day (LogqlPlan.from_day).  The services
   build the window with time.Unix(0, ns), a time in the zone of the PROCESS; a FormatFromDate without
   .UTC() (seeded change C07-f) prints the calendar day of that zone: local_from_day below, with the
   process off_s seconds east of UTC (time.Format prints the wall clock = the UTC instant + the offset).
   The writer dates index rows by the UTC day of the sample (C04), so the planner model has no zone
   parameter - and the check plans every statement under a sweep of process zones and requires the text of
   the zone-free model.  This file states the refuted variant: the statement of the log planners with every
   date literal replaced by the day of a process zone. *)
From Coq Require Import List ZArith String Bool.
From Qryn Require Import lib.Strs model.Sql model.Logql model.LogqlPlan model.SqlEval model.LogqlSem.
Import ListNotations.
Open Scope Z_scope.

(* the day FormatFromDate prints for the window start from_ns in a process off_s seconds east of UTC, when it
   formats the local time *)
Definition local_from_day (off_s from_ns : Z) : Z :=
  (from_ns + off_s * 1000000000 - 1800 * 1000000000) / (86400 * 1000000000).

(* a tree with every date literal replaced by day d (the log plans print one date: the FormatFromDate bound, in the
   label-index read, the series-table read of a label filter and the labels join) *)
Section ZMAPSEL.
  Context {E : Type} (fe : E -> E).
  Definition zmap_opt (x : option E) : option E := match x with None => None | Some e => Some (fe e) end.
  Fixpoint zmap_sel (s : select_ E) : select_ E :=
    mkSel (s_distinct s) (map fe (s_cols s)) (zmap_opt (s_from s)) (zmap_opt (s_where s)) (zmap_opt (s_prewhere s))
          (zmap_opt (s_having s)) (map fe (s_groupby s)) (map fe (s_orderby s)) (zmap_opt (s_limit s)) (zmap_opt (s_offset s))
          ((fix go (ws : list (string * select_ E)) : list (string * select_ E) :=
              match ws with [] => [] | (a, q) :: r => (a, zmap_sel q) :: go r end) (s_withs s))
          (map (fun j => (fst (fst j), fe (snd (fst j)), zmap_opt (snd j))) (s_joins s))
          (s_settings s)
          ((fix go (us : list (select_ E)) : list (select_ E) :=
              match us with [] => [] | q :: r => zmap_sel q :: go r end) (s_unions s)).
End ZMAPSEL.

Fixpoint redate (d : Z) (e : expr) {struct e} : expr :=
  match e with
  | Raw s => Raw s
  | Id s => Id s
  | QRaw s => QRaw s
  | Idx x k => Idx (redate d x) (redate d k)
  | StrV s => StrV s
  | IntV z => IntV z
  | FloatV t => FloatV t
  | BoolV b => BoolV b
  | DateV _ => DateV d
  | LOp fn cl => LOp fn (map (redate d) cl)
  | Not x => Not (redate d x)
  | NotNull x => NotNull (redate d x)
  | In l r => In (redate d l) (map (redate d) r)
  | WRef a q => WRef a (zmap_sel (redate d) q)
  | Col x a => Col (redate d x) a
  | Ord x asc => Ord (redate d x) asc
  | CtxParam n df => CtxParam n df
  | Fn name args => Fn name (map (redate d) args)
  | Sep sep parts => Sep sep (map (redate d) parts)
  | BitSetAnd cl => BitSetAnd (map (redate d) cl)
  | WithId g => WithId (fun n => redate d (g n))
  | SubQ q => SubQ (zmap_sel (redate d) q)
  end.

(* Plan(script, true).Process(ctx) of a reader whose FormatFromDate prints the day of the process zone *)
Definition zone_select (off_s : Z) (q : strsel) (c : pctx) : option select :=
  option_map (zmap_sel (redate (local_from_day off_s (c_from_ns c)))) (log_select q c).

(* log_correct for that statement *)
Definition zone_correct {RG : ReGroups} (re_match : string -> string -> bool) (parse_float : string -> option QArith_base.Q)
    (json_get : string -> list string -> string) (hash_labels : labels -> Z)
    (tie : forall A : Type, list A -> list A) (off_s : Z) (q : strsel) (c : pctx) (d : database) : Prop :=
  exists sel rows outs,
    zone_select off_s q c = Some sel
    /\ eval re_match parse_float json_get hash_labels tie (to_sqldb c d) sel = Some rows
    /\ map row_out rows = map Some outs
    /\ logql_sem re_match parse_float q c d outs.

(* logql_log_partial, word for word, for a reader process off_s seconds east of UTC *)
Definition zone_stmt (off_s : Z) : Prop :=
  forall (RG : ReGroups) re_match parse_float json_get hash_labels (tie : forall A : Type, list A -> list A),
    (forall A (l : list A), Permutation.Permutation (tie A l) l) ->
    forall q c d, in_fragment q = true -> oracle_ok re_match parse_float q -> ctx_ok c = true -> db_ok c d ->
    width_guard q = true -> absent_guard re_match q d ->
    zone_correct re_match parse_float json_get hash_labels tie off_s q c d.
