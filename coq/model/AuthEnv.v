(* From the environment to the router's conditions (property C20): func portEnv of package main (main.go) sets
   AUTH_SETTINGS.BASIC.Username / Password, HTTP_SETTINGS.Cors and SYSTEM_SETTINGS.Mode from QRYN_LOGIN / CLOKI_LOGIN,
   QRYN_PASSWORD / CLOKI_PASSWORD, CORS_ALLOW_ORIGIN, MODE and READONLY (boolEnv reads the variable literally named
   "key"), after portCHEnv (model/RotateCfg.v); main then evaluates the conditions the translator numbered as atoms.
   `valuation_of` is that evaluation.  Executable definitions only. *)
From Coq Require Import List ZArith Bool String Ascii.
From Qryn Require Import model.Router model.RotateCfg.
Import ListNotations.
Open Scope string_scope.
Open Scope Z_scope.

(* the fields of the configuration the router assembly depends on *)
Record auth_cfg := { a_user : string; a_pass : string; a_cors : bool; a_origin : string; a_mode : string }.

Definition nonempty (s : string) : bool := negb (String.eqb s "").

(* strconv.ParseInt(s, 10, 63): optional sign, decimal digits, -2^62 .. 2^62-1 *)
Definition parse_int63 (s : string) : option Z :=
  match s with
  | EmptyString => None
  | String c r =>
    let neg := Ascii.eqb c "-" in
    let body := if neg || Ascii.eqb c "+" then r else s in
    match decimal body with
    | None => None
    | Some n => let v := if neg then - n else n in
                if (-4611686018427387904 <=? v) && (v <=? 4611686018427387903) then Some v else None
    end
  end.

(* func portEnv: None = error (main panics); `file` = the configuration as the file left it, `preset` = its DATABASE_DATA *)
Definition port_env (e : environ) (file : auth_cfg) (preset : list dbobj) : option auth_cfg :=
  match port_ch_env e preset with
  | None => None
  | Some _ =>
    let user := if nonempty (getenv e "CLOKI_LOGIN") then getenv e "CLOKI_LOGIN"
                else if nonempty (getenv e "QRYN_LOGIN") then getenv e "QRYN_LOGIN" else a_user file in
    let pass := if nonempty (getenv e "CLOKI_PASSWORD") then getenv e "CLOKI_PASSWORD"
                else if nonempty (getenv e "QRYN_PASSWORD") then getenv e "QRYN_PASSWORD" else a_pass file in
    let cors := nonempty (getenv e "CORS_ALLOW_ORIGIN") || a_cors file in
    let origin := if nonempty (getenv e "CORS_ALLOW_ORIGIN") then getenv e "CORS_ALLOW_ORIGIN" else a_origin file in
    if nonempty (getenv e "PORT") && match atoi (getenv e "PORT") with None => true | Some _ => false end then None else
    if nonempty (getenv e "ADVANCED_PROMETHEUS_MAX_SAMPLES") &&
       match atoi (getenv e "ADVANCED_PROMETHEUS_MAX_SAMPLES") with None => true | Some _ => false end then None else
    let mode0 := if nonempty (getenv e "MODE") then getenv e "MODE" else "all" in
    match bool_env (getenv e "key") with
    | None => None
    | Some readonly =>
      let mode := if readonly && String.eqb mode0 "all" then "reader" else mode0 in
      if nonempty (getenv e "BULK_MAX_SIZE_BYTES") &&
         match parse_int63 (getenv e "BULK_MAX_SIZE_BYTES") with None => true | Some _ => false end then None else
      match atoi (if nonempty (getenv e "BULK_MAX_AGE_MS") then getenv e "BULK_MAX_AGE_MS" else "100") with
      | None => None
      | Some _ => Some {| a_user := user; a_pass := pass; a_cors := cors; a_origin := origin; a_mode := mode |}
      end
    end
  end.

(* main's conditions on that configuration: the value of every atom (atoms that are not about the configuration are
   left to `other`) *)
Definition valuation_of (kinds : list atom_kind) (c : auth_cfg) (other : nat -> bool) : nat -> bool :=
  fun a => match nth a kinds AKOther with
           | AKLogin => nonempty (a_user c)
           | AKPass => nonempty (a_pass c)
           | AKCors => a_cors c
           | AKMode lit => String.eqb (a_mode c) lit
           | AKOther => other a
           end.

(* every atom the translator says must hold for "credentials configured" is a login or a password atom *)
Definition must_are_credentials (kinds : list atom_kind) (must : list nat) : bool :=
  forallb (fun a => match nth a kinds AKOther with AKLogin | AKPass => true | _ => false end) must.

(* comparison with the implementation: one observed call of portEnv *)
Record ecase := {
  ec_id : Z; ec_env : environ; ec_file : auth_cfg; ec_preset : list dbobj;
  ec_err : bool; ec_out : auth_cfg }.
Definition auth_cfg_eqb (a b : auth_cfg) : bool :=
  String.eqb (a_user a) (a_user b) && String.eqb (a_pass a) (a_pass b) && Bool.eqb (a_cors a) (a_cors b) &&
  String.eqb (a_origin a) (a_origin b) && String.eqb (a_mode a) (a_mode b).
Definition ecase_mismatch (c : ecase) : bool :=
  match port_env (ec_env c) (ec_file c) (ec_preset c) with
  | None => negb (ec_err c)
  | Some o => ec_err c || negb (auth_cfg_eqb o (ec_out c))
  end.
(* the property's reading of the environment, on the observation alone: when portEnv returns without error and a login
   variable (or the file) and a password variable (or the file) gave non-empty values, Username and Password are
   non-empty afterwards, i.e. main installs BasicAuth; and they are exactly the values given, CLOKI_ over QRYN_ over file *)
Definition ecase_violation (c : ecase) : bool :=
  let e := ec_env c in
  let want_user := if nonempty (getenv e "CLOKI_LOGIN") then getenv e "CLOKI_LOGIN"
                   else if nonempty (getenv e "QRYN_LOGIN") then getenv e "QRYN_LOGIN" else a_user (ec_file c) in
  let want_pass := if nonempty (getenv e "CLOKI_PASSWORD") then getenv e "CLOKI_PASSWORD"
                   else if nonempty (getenv e "QRYN_PASSWORD") then getenv e "QRYN_PASSWORD" else a_pass (ec_file c) in
  negb (ec_err c) && negb (String.eqb (a_user (ec_out c)) want_user && String.eqb (a_pass (ec_out c)) want_pass).
Definition env_mismatches (cs : list ecase) : list Z := map ec_id (filter ecase_mismatch cs).
Definition env_violations (cs : list ecase) : list Z := map ec_id (filter ecase_violation cs).
