(* What LineFormatPlanner.ProcessTpl (clickhouse_planner/planner_line_format.go) makes of the template text of a
   `| line_format "..."` stage: template.New(..).Parse(text) of Go's text/template, then visitNodes over the parse tree,
   which appends every TextNode's bytes (literal braces doubled) to the format string and, for every FieldNode that is an
   argument of a command of an ActionNode, "{n}" plus the argument labels['<first identifier of the field>'].

   Transcribed here: the lexer (text/template/parse/lex.go: lexText, lexLeftDelim, lexRightDelim, lexInsideAction, lexSpace,
   lexField, atTerminator, the trim markers "{{- " and " -}}") and the parser (parse.go: textOrAction, action, pipeline,
   command, operand, term, checkPipeline) for the template fragment

        template ::= ( text | "{{" ["- "] tokens [" -"] "}}" )*
        tokens   ::= spaces, "|", ".", ".name", word   with name / word = ASCII letters, digits, "_"
                 | "{{" ["- "] "/*" comment "*/" [" -"] "}}"

   i.e. comments, and actions that are pipelines of commands whose operands are the dot, field chains (.a, .a.b.c) and
   function names (the predefined functions of text/template; any other word is Parse's "function not defined"). Everything
   else Go's template language has (variables, literals, parentheses, if/range/with/define/template and the other keywords,
   non-ASCII identifiers) is answered TUnmodelled: the model says nothing about such a template. TErr = Parse returns an
   error. Executable definitions only. *)
From Coq Require Import List NArith String Ascii Bool.
From Qryn Require Import lib.Strs lib.DecN model.Sql.
Import ListNotations.
Open Scope string_scope.

(* the parse tree: text, and actions = pipelines of commands whose operands are fields (.name.c1.c2: Ident = name :: chain)
   or the dot *)
Inductive oper := OF (name : string) (chain : list string) | OD | OI (fn : string).   (* OI: a function name (IdentifierNode), possibly followed by a field chain (ChainNode) *)
Inductive tnode := TText (s : string) | TAct (cmds : list (list oper)).
Inductive tpl_res := TOk (nodes : list tnode) | TErr | TUnmodelled.

Definition is_space (c : ascii) : bool :=
  Ascii.eqb c " " || Ascii.eqb c "009" || Ascii.eqb c "013" || Ascii.eqb c "010".      (* isSpace / spaceChars *)
Definition is_alnum (c : ascii) : bool := is_lower c || is_upper c || is_digit c || Ascii.eqb c "_".
Definition is_ascii (c : ascii) : bool := N.ltb (N_of_ascii c) 128.

Fixpoint drop_s (n : nat) (s : string) : string :=
  match n, s with S k, String _ r => drop_s k r | _, _ => s end.
Fixpoint ltrim (s : string) : string :=
  match s with String c r => if is_space c then ltrim r else s | EmptyString => s end.
Definition rtrim (s : string) : string := rev_s (ltrim (rev_s s "")) "".
Fixpoint mem_c (c : ascii) (s : string) : bool :=
  match s with String d r => Ascii.eqb c d || mem_c c r | EmptyString => false end.

(* ---------- inside an action ---------- *)
Inductive atok := ASp | AField (name : string) | ADot | APipe | AIdent (name : string) | AUndef.   (* AUndef: a word that is no predefined function *)
(* the keywords of lex.go (key) and the boolean constants: control structures and literals are not transcribed *)
Definition tpl_keywords : list string :=
  ["block"; "break"; "continue"; "define"; "else"; "end"; "if"; "range"; "nil"; "template"; "with"; "true"; "false"].
(* builtins() of text/template/funcs.go: template.New(..).Parse knows these functions only *)
Definition tpl_builtins : list string :=
  ["and"; "call"; "html"; "index"; "slice"; "js"; "len"; "not"; "or"; "print"; "printf"; "println"; "urlquery"; "eq"; "ge"; "gt"; "le"; "lt"; "ne"].
Definition mem_s (x : string) (l : list string) : bool := existsb (String.eqb x) l.
Inductive lres := LTokens (ts : list atok) (trim : bool) (rest : string) | LErr | LUn.

Fixpoint take_alnum (s : string) : string * string :=
  match s with
  | String c r => if is_alnum c then let '(a, b) := take_alnum r in (String c a, b) else ("", s)
  | EmptyString => ("", "")
  end.

(* atTerminator; None: the next byte starts a rune outside ASCII (unicode.IsLetter is not modelled) *)
Definition at_term (s : string) : option bool :=
  match s with
  | EmptyString => Some true
  | String c _ => if negb (is_ascii c) then None else Some (is_space c || mem_c c ".,|:)(" || prefixb "}}" s)
  end.

(* lexInsideAction until the right delimiter; a run of spaces gives one ASp per byte (the parser only asks whether a
   space separates two tokens) *)
Fixpoint lex_action (fuel : nat) (s : string) (acc : list atok) : lres :=
  match fuel with
  | O => LUn
  | S f =>
    if prefixb "}}" s then LTokens (rev acc) false (drop_s 2 s) else
    match s with
    | EmptyString => LErr                                            (* unclosed action *)
    | String c r =>
      if is_space c then
        if prefixb "-}}" r then LTokens (rev acc) true (drop_s 3 r)  (* " -}}" *)
        else lex_action f r (ASp :: acc)
      else if Ascii.eqb c "|" then lex_action f r (APipe :: acc)
      else if Ascii.eqb c "." then
        match r with
        | EmptyString => LUn
        | String d _ =>
          if is_digit d then LUn else                                (* a number *)
          match at_term r with
          | None => LUn
          | Some true => lex_action f r (ADot :: acc)
          | Some false =>
            let '(name, r2) := take_alnum r in
            if String.eqb name "" then LUn else
            match at_term r2 with
            | Some true => lex_action f r2 (AField name :: acc)
            | _ => LUn
            end
          end
        end
      else if mem_c c "!#%&*,/;<>?@[\]^{}~" then LErr               (* itemChar: unexpected <c> in command / in operand *)
      else if (is_lower c || is_upper c || Ascii.eqb c "_") then      (* lexIdentifier (a digit starts a number) *)
        let '(word, r2) := take_alnum s in
        match at_term r2 with
        | Some true =>
          if mem_s word tpl_keywords then LUn
          else lex_action f r2 ((if mem_s word tpl_builtins then AIdent word else AUndef) :: acc)
        | _ => LUn
        end
      else LUn
    end
  end.

(* pipeline / command / operand / term over the tokens of one action, as a state machine:
   MStart = pipeline() expects a command or the delimiter; MIn = inside a command behind a space;
   MAfterF / MAfterD = directly behind a field / the dot *)
Inductive pmode := MStart | MIn | MAfterF | MAfterD | MAfterI.
Fixpoint chain_last (cur : list oper) (n : string) : list oper :=
  match cur with
  | [] => []
  | [OF a ch] => [OF a (ch ++ [n])%list]
  | x :: r => x :: chain_last r n
  end.
Fixpoint parse_action (ts : list atok) (m : pmode) (cmds : list (list oper)) (cur : list oper) : option (list (list oper)) :=
  match ts with
  | [] => match m with MStart => Some cmds | _ => Some (cmds ++ [cur])%list end
  | t :: r =>
    match m, t with
    | MStart, ASp => parse_action r MStart cmds cur
    | MStart, AField n => parse_action r MAfterF cmds [OF n []]
    | MStart, ADot => parse_action r MAfterD cmds [OD]
    | MStart, APipe => None                                          (* unexpected "|" in command *)
    | _, AUndef => None                                              (* function "x" not defined *)
    | MStart, AIdent n => parse_action r MAfterI cmds [OI n]
    | MIn, AIdent n => parse_action r MAfterI cmds (cur ++ [OI n])%list
    | _, AIdent _ => None                                            (* cannot follow an operand without a space (lexically impossible) *)
    | MAfterI, AField _ => parse_action r MAfterI cmds cur           (* print.a : a ChainNode, not reached by visitNodes *)
    | MAfterI, ADot => None
    | MAfterF, AField n => parse_action r MAfterF cmds (chain_last cur n)   (* .a.b : one FieldNode, Ident = [a; b] *)
    | MAfterF, ADot => None                                          (* unexpected <.> in operand *)
    | MAfterD, AField _ => None                                      (* unexpected . after term "." *)
    | MAfterD, ADot => None
    | MIn, AField n => parse_action r MAfterF cmds (cur ++ [OF n []])%list
    | MIn, ADot => parse_action r MAfterD cmds (cur ++ [OD])%list
    | _, ASp => parse_action r MIn cmds cur
    | _, APipe => parse_action r MStart (cmds ++ [cur])%list []
    end
  end.
(* checkPipeline: no command at all; a later command starting with the dot *)
Definition check_pipeline (cmds : list (list oper)) : bool :=
  match cmds with
  | [] => false
  | _ :: tl => forallb (fun c => match c with OD :: _ => false | _ => true end) tl
  end.

(* ---------- the whole template ---------- *)
(* the text behind the first occurrence of needle *)
Fixpoint find_after (needle s : string) (fuel : nat) : option string :=
  match fuel with
  | O => None
  | S f => if prefixb needle s then Some (drop_s (String.length needle) s)
           else match s with String _ r => find_after needle r f | EmptyString => None end
  end.
Definition push_text (t : string) (acc : list tnode) : list tnode :=
  if String.eqb t "" then acc else TText t :: acc.

(* text = the bytes of the current text run, reversed; acc = the nodes so far, reversed *)
Fixpoint tpl_lex (fuel : nat) (s : string) (text : string) (acc : list tnode) : tpl_res :=
  match fuel with
  | O => TUnmodelled
  | S f =>
    match s with
    | EmptyString => TOk (rev (push_text (rev_s text "") acc))
    | String c r =>
      if prefixb "{{" s then
        let after := drop_s 2 s in
        let lt := match after with String m (String d _) => Ascii.eqb m "-" && is_space d | _ => false end in
        let txt := rev_s text "" in
        let acc1 := push_text (if lt then rtrim txt else txt) acc in
        let body := if lt then drop_s 2 after else after in
        if prefixb "/*" body then
          (* lexComment: up to the first "*/", which the right delimiter (with or without trim marker) must follow; no node *)
          match find_after "*/" (drop_s 2 body) (String.length body) with
          | None => TErr                                             (* unclosed comment *)
          | Some after_c =>
            if prefixb "}}" after_c then tpl_lex f (drop_s 2 after_c) "" acc1
            else match after_c with
                 | String sp r2 => if is_space sp && prefixb "-}}" r2 then tpl_lex f (ltrim (drop_s 3 r2)) "" acc1 else TErr
                 | EmptyString => TErr                               (* comment ends before closing delimiter *)
                 end
          end
        else
        match lex_action (S (String.length body)) body [] with
        | LUn => TUnmodelled
        | LErr => TErr
        | LTokens ts rt rest =>
          match parse_action ts MStart [] [] with
          | None => TErr
          | Some cmds =>
            if check_pipeline cmds
            then tpl_lex f (if rt then ltrim rest else rest) "" (TAct cmds :: acc1)
            else TErr
          end
        end
      else tpl_lex f r (String c text) acc
    end
  end.
Definition tpl_parse (t : string) : tpl_res := tpl_lex (S (String.length t)) t "" [].

(* ---------- visitNodes with textNode / fieldNode: the format string and its arguments ---------- *)
(* what visitNodes reaches, in order: the text nodes and the fields that are operands of a command (Ident[0] only) *)
Inductive piece := PText (s : string) | PField (name : string).
Definition act_fields (cmds : list (list oper)) : list string :=
  flat_map (fun c => flat_map (fun o => match o with OF n _ => [n] | _ => [] end) c) cmds.
Definition pieces (ns : list tnode) : list piece :=
  flat_map (fun n => match n with TText s => [PText s] | TAct cmds => map PField (act_fields cmds) end) ns.

(* strings.NewReplacer("{", "{{", "}", "}}") *)
Definition esc_braces (s : string) : string :=
  map_string (fun c => if Ascii.eqb c "{" then "{{" else if Ascii.eqb c "}" then "}}" else ch c) s.
Fixpoint tpl_fmt (ps : list piece) (k : N) : string * list string :=
  match ps with
  | [] => ("", [])
  | PText s :: r => let '(f, a) := tpl_fmt r k in (esc_braces s ++ f, a)
  | PField n :: r => let '(f, a) := tpl_fmt r (k + 1) in ("{" ++ string_of_N k ++ "}" ++ f, n :: a)
  end.
Fixpoint tpl_text (ps : list piece) : string :=
  match ps with
  | [] => ""
  | PText s :: r => s ++ tpl_text r
  | PField _ :: r => tpl_text r
  end.
Definition label_arg (n : string) : expr := Idx (Id "labels") (StrV n).     (* fmt.Sprintf("labels[%s]", StringVal(name)) *)
(* the expression that replaces the `string` column: without a field the template text itself, else sqlFormat:
   fmt.Sprintf("format(%s, %s)", StringVal(format), strings.Join(args, ", ")) *)
Definition tpl_sql (ns : list tnode) : expr :=
  let ps := pieces ns in
  let '(f, a) := tpl_fmt ps 0 in
  match a with
  | [] => StrV (tpl_text ps)
  | _ => Sep "" [Raw "format("; StrV f; Raw ", "; Sep ", " (map label_arg a); Raw ")"]
  end.

(* ================= what the expression computes ================= *)
(* ClickHouse format(pattern, s0, s1, ...) as its documentation describes it: the pattern is copied; {{ and }} give one brace;
   {n} is replaced by argument n. Anything else in braces ({} = automatic numbering, names, a lone brace) has no value here
   (None): the planner never prints such a pattern. A scanner state per byte, no look-ahead. *)
Inductive fstate := FN | FOpen (digits : string) | FClose.
Fixpoint fmt_run (p : string) (st : fstate) (args : list string) : option string :=
  match p with
  | EmptyString => match st with FN => Some "" | _ => None end
  | String c r =>
    match st with
    | FN => if Ascii.eqb c "{" then fmt_run r (FOpen "") args
            else if Ascii.eqb c "}" then fmt_run r FClose args
            else option_map (String c) (fmt_run r FN args)
    | FClose => if Ascii.eqb c "}" then option_map (String "}") (fmt_run r FN args) else None
    | FOpen ds =>
      if Ascii.eqb c "{" then (if String.eqb ds "" then option_map (String "{") (fmt_run r FN args) else None)
      else if Ascii.eqb c "}" then
        match N_of_dec ds with
        | Some k => match nth_error args (N.to_nat k) with
                    | Some a => option_map (append a) (fmt_run r FN args)
                    | None => None end
        | None => None
        end
      else if is_digit c then fmt_run r (FOpen (ds ++ ch c)) args
      else None
    end
  end.
Definition format_eval (pattern : string) (args : list string) : option string := fmt_run pattern FN args.

(* labels['name'] on a Map(String, String): the value, '' when the key is absent *)
Fixpoint lookup (lbls : list (string * string)) (n : string) : string :=
  match lbls with [] => "" | (k, v) :: r => if String.eqb k n then v else lookup r n end.

(* value of the column expression tpl_sql over a row with these labels *)
Definition tpl_sql_value (ns : list tnode) (lbls : list (string * string)) : option string :=
  let ps := pieces ns in
  let '(f, a) := tpl_fmt ps 0 in
  match a with
  | [] => Some (tpl_text ps)
  | _ => format_eval f (map (lookup lbls) a)
  end.

(* Execution of the parsed template by text/template over a map[string]string, where it succeeds with a plain text:
   an action that is exactly one field of one identifier prints the map entry ("" for an absent key, the zero value
   of the element type). A longer chain, a second operand or a pipe into a field fail at execution (a string has no field,
   a field is not a function); the dot prints Go's rendering of the map: no reference value (None). *)
Definition act_exec (cmds : list (list oper)) (lbls : list (string * string)) : option string :=
  match cmds with
  | [[OF n []]] => Some (lookup lbls n)
  | _ => None
  end.
Fixpoint tpl_exec (ns : list tnode) (lbls : list (string * string)) : option string :=
  match ns with
  | [] => Some ""
  | TText s :: r => option_map (append s) (tpl_exec r lbls)
  | TAct cmds :: r => match act_exec cmds lbls, tpl_exec r lbls with
                      | Some a, Some b => Some (a ++ b)
                      | _, _ => None end
  end.
