(* ComplexRequestProcessor (reader/traceql/transpiler/complex_request_processor.go), abstractly.
   When the complexity estimate is 10 000 000 index rows or more the search runs once per portion
   i = 0 .. portions-1 with   cityHash64(trace_id) % portions = i  OR  trace_id IN (winners so far),
   the lower bound of the window being raised to the start of the oldest winner once `limit` winners
   are known.  Here a matching trace is an id with one time (single-timestamp abstraction: recency key =
   start time = the time of its matched spans); one statement returns SOME top-`limit` selection of the
   traces visible to it, newest first (ORDER BY .. DESC LIMIT; ties are ClickHouse's choice).
   Executable definitions and the reachability relation only. *)
From Coq Require Import List ZArith NArith Bool Sorted.
Import ListNotations.

Record tr := { tid : N; tkey : Z }.

(* R is a top-k selection of U *)
Definition topk (k : nat) (U R : list tr) : Prop :=
  NoDup R /\ incl R U /\ List.length R = Nat.min k (List.length U)
  /\ forall x y, In x U -> ~ In x R -> In y R -> (tkey x <= tkey y)%Z.
Definition newest_first (R : list tr) : Prop := StronglySorted (fun a b => (tkey b <= tkey a)%Z) R.

Section PORTIONS.
  Variable all : list tr.            (* the traces matching the query in the whole database *)
  Variable part : N -> N.            (* cityHash64(trace_id) % portions *)
  Variable k : nat.                  (* ctx.Limit *)
  Variable from0 : Z.                (* ctx.From of the request *)

  Definition has_id (S : list tr) (t : tr) : bool := existsb (fun s => N.eqb (tid s) (tid t)) S.
  (* the rows the i-th statement can see *)
  Definition visible (i : N) (S : list tr) (from : Z) (t : tr) : bool :=
    (N.eqb (part (tid t)) i || has_id S t) && Z.leb from (tkey t).
  Definition V (i : N) (S : list tr) (from : Z) : list tr := filter (visible i S from) all.

  (* ProcessComplexReqIteration: `from` starts as the zero time; from.Nanosecond() == 0 is its test for "not set yet" *)
  Definition unset (f : Z) : bool := Z.eqb (Z.modulo f 1000000000) 0.
  Definition from_step (f : Z) (t : tr) : Z := if unset f || Z.ltb (tkey t) f then tkey t else f.
  Definition fold_from (R : list tr) : Z := fold_left from_step R 0%Z.
  Definition next_from (R : list tr) (from : Z) : Z :=
    if Nat.eqb (List.length R) k then fold_from R else from.

  (* the loop of ComplexRequestProcessor.Process after i portions: winners so far, lower bound *)
  Inductive reach : N -> list tr -> Z -> Prop :=
  | reach0 : reach 0%N [] from0
  | reachS i S from R :
      reach i S from -> topk k (V i S from) R -> newest_first R ->
      reach (i + 1)%N R (next_from R from).

  (* what the whole request should return after n portions: the traces of portions < n inside the window *)
  Definition U (n : N) : list tr := filter (fun t => N.ltb (part (tid t)) n && Z.leb from0 (tkey t)) all.
End PORTIONS.
