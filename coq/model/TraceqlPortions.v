(* ComplexRequestProcessor (reader/traceql/transpiler/complex_request_processor.go), abstractly.
   When the complexity estimate is 10 000 000 index rows or more the search runs once per portion
   i = 0 .. portions-1 with   cityHash64(trace_id) % portions = i  OR  trace_id IN (winners so far),
   the lower bound of the window being raised to the start of the oldest winner once `limit` winners
   are known.  Here a matching trace is an id with one time (single-timestamp abstraction: recency key =
   start time = the time of its matched spans); one statement returns SOME top-`limit` selection of the
   traces visible to it, newest first (ORDER BY .. DESC LIMIT; ties are ClickHouse's choice).
   Executable definitions and the reachability relation only. *)
From Coq Require Import List ZArith NArith Bool Sorted.
Import ListNotations.

Record tr := { tid : N; tkey : Z }.

(* R is a top-k selection of U *)
Definition topk (k : nat) (U R : list tr) : Prop :=
  NoDup R /\ incl R U /\ List.length R = Nat.min k (List.length U)
  /\ forall x y, In x U -> ~ In x R -> In y R -> (tkey x <= tkey y)%Z.
Definition newest_first (R : list tr) : Prop := StronglySorted (fun a b => (tkey b <= tkey a)%Z) R.

Section PORTIONS.
  Variable all : list tr.            (* the traces matching the query in the whole database *)
  Variable part : N -> N.            (* cityHash64(trace_id) % portions *)
  Variable k : nat.                  (* ctx.Limit *)
  Variable from0 : Z.                (* ctx.From of the request *)

  Definition has_id (S : list tr) (t : tr) : bool := existsb (fun s => N.eqb (tid s) (tid t)) S.
  (* the rows the i-th statement can see *)
  Definition visible (i : N) (S : list tr) (from : Z) (t : tr) : bool :=
    (N.eqb (part (tid t)) i || has_id S t) && Z.leb from (tkey t).
  Definition V (i : N) (S : list tr) (from : Z) : list tr := filter (visible i S from) all.

  (* ProcessComplexReqIteration: `from` starts as the zero time; from.Nanosecond() == 0 is its test for "not set yet" *)
  Definition unset (f : Z) : bool := Z.eqb (Z.modulo f 1000000000) 0.
  Definition from_step (f : Z) (t : tr) : Z := if unset f || Z.ltb (tkey t) f then tkey t else f.
  Definition fold_from (R : list tr) : Z := fold_left from_step R 0%Z.
  Definition next_from (R : list tr) (from : Z) : Z :=
    if Nat.eqb (List.length R) k then fold_from R else from.

  (* the loop of ComplexRequestProcessor.Process after i portions: winners so far, lower bound *)
  Inductive reach : N -> list tr -> Z -> Prop :=
  | reach0 : reach 0%N [] from0
  | reachS i S from R :
      reach i S from -> topk k (V i S from) R -> newest_first R ->
      reach (i + 1)%N R (next_from R from).

  (* what the whole request should return after n portions: the traces of portions < n inside the window *)
  Definition U (n : N) : list tr := filter (fun t => N.ltb (part (tid t)) n && Z.leb from0 (tkey t)) all.
End PORTIONS.

(* ================================================================ a recorded run of the REAL loop (harness/cmd/tqloop)
   The harness drives ComplexRequestProcessor.Process over a scripted database/sql back-end and records, per statement the loop
   sent: the portion filter (Max, I), the cached ids, the lower bound of the window (all read off the SQL text), and the rows the
   back-end answered (its own choice of a top-`limit` selection, ties broken at random).  run_model replays the record against the
   model: the statement parameters must be the model's (i, map tid S, from), the answer must be a legitimate one (a top-k selection
   of the rows visible to that statement, newest first); then the state moves on by next_from.  RunOk = every check passed. *)
Record step := { st_max : N; st_i : N; st_cached : list N; st_from : Z; st_rows : list N }.
Inductive run_result :=
 | RunOk (n : N) (W : list tr) (from : Z)
 | RunBad (at_step : N) (code : Z) (expected got : Z).
   (* codes: 1 = portion filter (Max, I) differs; 2 = cached ids differ from the winners so far; 3 = lower bound differs from the
      model's (expected, got); 4 = the back-end's answer is not a top-k selection of the visible rows, newest first (harness defect) *)

Definition tr_eqb (a b : tr) : bool := N.eqb (tid a) (tid b) && Z.eqb (tkey a) (tkey b).
Definition mem (t : tr) (l : list tr) : bool := existsb (tr_eqb t) l.
Fixpoint nodup_b (l : list tr) : bool := match l with [] => true | x :: r => negb (mem x r) && nodup_b r end.
Fixpoint sorted_b (l : list tr) : bool :=
  match l with [] => true | x :: r => forallb (fun y => Z.leb (tkey y) (tkey x)) r && sorted_b r end.
Definition topk_b (k : nat) (U R : list tr) : bool :=
  nodup_b R && forallb (fun x => mem x U) R && Nat.eqb (List.length R) (Nat.min k (List.length U))
  && forallb (fun x => mem x R || forallb (fun y => Z.leb (tkey x) (tkey y)) R) U.
Fixpoint list_N_eqb (a b : list N) : bool :=
  match a, b with [] , [] => true | x :: a', y :: b' => N.eqb x y && list_N_eqb a' b' | _, _ => false end.

Section RUN.
  Variable all : list tr.
  Variable part : N -> N.
  Variable k : nat.
  Variable portions : N.

  Fixpoint resolve (ids : list N) : option (list tr) :=
    match ids with
    | [] => Some []
    | i :: r => match find (fun t => N.eqb (tid t) i) all, resolve r with Some t, Some l => Some (t :: l) | _, _ => None end
    end.

  Fixpoint run_model (i : N) (S : list tr) (from : Z) (steps : list step) : run_result :=
    match steps with
    | [] => RunOk i S from
    | s :: rest =>
        if negb (N.eqb (st_max s) portions && N.eqb (st_i s) i) then RunBad i 1 (Z.of_N i) (Z.of_N (st_i s))
        else if negb (list_N_eqb (st_cached s) (map tid S)) then RunBad i 2 (Z.of_nat (List.length S)) (Z.of_nat (List.length (st_cached s)))
        else if negb (Z.eqb (st_from s) from) then RunBad i 3 from (st_from s)
        else match resolve (st_rows s) with
             | Some R =>
                 if topk_b k (V all part i S from) R && sorted_b R
                 then run_model (i + 1)%N R (next_from k R from) rest
                 else RunBad i 4 0 0
             | None => RunBad i 4 1 1
             end
    end.
End RUN.

(* a case of the loop tie *)
Record loop_case := {
  lc_id : Z; lc_k : nat; lc_portions : N; lc_from0 : Z;
  lc_all : list tr;                 (* the matching traces below the upper bound of the window *)
  lc_parts : list (N * N);          (* trace id -> hash class *)
  lc_steps : list step;
  lc_final : list N }.              (* the ids of the answer Process returned *)
Definition part_of (ps : list (N * N)) (id : N) : N :=
  match find (fun p => N.eqb (fst p) id) ps with Some p => snd p | None => 0%N end.
Fixpoint ids_distinct (l : list N) : bool := match l with [] => true | x :: r => negb (existsb (N.eqb x) r) && ids_distinct r end.

(* 0 = the run is a path of `reach`, the answer is the last statement's answer and a top-k selection of all matching traces;
   otherwise (code, step, expected, got): 1-4 as above; 5 = the answer differs from the last statement's rows; 6 = the answer is not a
   top-`limit` selection of the matching traces of the window (the property itself, judged on the observed answer);
   7 = the case is outside the theorem's hypotheses (ids not distinct / limit 0); 8 = the loop sent another number of statements than
   there are portions (expected, got) *)
Definition loop_code (c : loop_case) : Z * N * Z * Z :=
  if negb (ids_distinct (map tid (lc_all c)) && Nat.ltb 0 (lc_k c)) then (7, 0%N, 0, 0)%Z
  else
  let part := part_of (lc_parts c) in
  match run_model (lc_all c) part (lc_k c) (lc_portions c) 0%N [] (lc_from0 c) (lc_steps c) with
  | RunBad st code e g => (code, st, e, g)
  | RunOk n W f =>
      if negb (N.eqb n (lc_portions c)) then (8%Z, n, Z.of_N (lc_portions c), Z.of_N n)
      else if negb (list_N_eqb (lc_final c) (map tid W)) then (5, n, 0, 0)%Z
      else if negb (topk_b (lc_k c) (U (lc_all c) part (lc_from0 c) n) W) then (6, n, 0, 0)%Z
      else (0, n, 0, 0)%Z
  end.
Definition loop_codes (l : list loop_case) : list (Z * (Z * N * Z * Z)) :=
  flat_map (fun c => let r := loop_code c in match r with (0%Z, _, _, _) => [] | _ => [(lc_id c, r)] end) l.
