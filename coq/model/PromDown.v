(* C17: the DOWN-SAMPLED path of CLokiQuerier.Select (transpiler.TranspileLabelMatchersDownsample, taken when
   hints.Start is a multiple of 15 s, hints.Step >= 15 s, no range below 15 s and the function is one the roll-up serves:
   PromSel.use_raw_data h = false).  It does not read the stored samples (samples_v3) but the roll-up table metrics_15s
   that the materialized view metrics_15s_mv (ctrl/qryn/sql/log.sql) maintains:

     SELECT fingerprint, intDiv(samples.timestamp_ns, 15000000000) * 15000000000 as timestamp_ns,
            argMaxState(value, samples.timestamp_ns) as last, maxSimpleState(value) as max, minSimpleState(value) as min,
            countState() as count, sumSimpleState(value) as sum, .., type
     FROM samples_v3 as samples GROUP BY fingerprint, timestamp_ns, type

   The property C17 quantifies over "a PromQL query over RAW samples": this path is outside its quantifier.  This file gives
   the statement of the path a meaning all the same, so that the exclusion is a stated fact and not a gap:

     - a row of metrics_15s is modelled by the raw samples its aggregate states summarise (q_parts): the rows of one
       (fingerprint, bucket, type) may be spread over several unmerged parts, the statement merges them;
     - eval_down interprets the Sql.v tree of the statement (WHERE with aliases, GROUP BY timestamp_ms, fingerprint, the
       merge expression of the value column, ORDER BY);
     - down_rows is the list-function reading (theorem downsample_statement_sql_meaning: the two agree on the planner's
       own tree);
     - m15_of derives the table from the stored samples as the view does.
   TRUSTED like PromSem.v: the reading of ClickHouse (argMaxMerge = value at the greatest timestamp, the last such part on
   ties; min / max / sum over SimpleAggregateFunction columns; countMerge = number of summarised samples; float division
   kept as an exact ratio).  Executable definitions only. *)
From Coq Require Import List ZArith NArith String Ascii Bool.
From Qryn Require Import lib.Strs lib.DecN model.Sql model.SqlRender model.Logql model.LogqlPlan model.PromSelect model.PromSel model.PromSem.
Import ListNotations.
Open Scope string_scope.

Record m15row := { q_fp : N; q_type : Z; q_ts_ns : Z; q_parts : list (Z * Z) }.   (* parts: (timestamp_ns, value) of the summarised samples *)

Definition bucket15 (ts_ns : Z) : Z := (Z.quot ts_ns 15000000000 * 15000000000)%Z.
(* metrics_15s_mv, before any background merge: every stored sample contributes one state to the row of its
   (fingerprint, 15 s bucket, type) *)
Definition m15_of (samples : list samplerow) : list m15row :=
  map (fun s => {| q_fp := sm_fp s; q_type := sm_type s; q_ts_ns := bucket15 (sm_ts_ns s); q_parts := [(sm_ts_ns s, sm_value s)] |}) samples.

(* the value of an output row: an exact ratio (denominator 1 except for avg_over_time's sum(sum) / countMerge(count)) *)
Record drow := { d_fp : N; d_num : Z; d_den : Z; d_ts : Z }.
Definition drow_eqb (a b : drow) : bool :=
  N.eqb (d_fp a) (d_fp b) && Z.eqb (d_num a) (d_num b) && Z.eqb (d_den a) (d_den b) && Z.eqb (d_ts a) (d_ts b).
Definition drow_lt (a b : drow) : bool := key_lt [Z.of_N (d_fp a); d_ts a] [Z.of_N (d_fp b); d_ts b].

(* ---- merge functions over the summarised samples of one group ---- *)
Definition latest_part (parts : list (Z * Z)) : option (Z * Z) :=
  fold_left (fun acc p => match acc with
                          | None => Some p
                          | Some a => if Z.leb (fst a) (fst p) then Some p else acc end) parts None.
Definition fold1 (f : Z -> Z -> Z) (l : list Z) : option Z :=
  match l with [] => None | x :: r => Some (fold_left f r x) end.
Definition agg_fn (name col : string) (parts : list (Z * Z)) : option Z :=
  if String.eqb name "argMaxMerge" && String.eqb col "samples.last" then omap snd (latest_part parts)
  else if String.eqb name "min" && String.eqb col "min" then fold1 Z.min (map snd parts)
  else if String.eqb name "max" && String.eqb col "max" then fold1 Z.max (map snd parts)
  else if String.eqb name "sum" && String.eqb col "sum" then Some (fold_left Z.add (map snd parts) 0%Z)
  else if String.eqb name "countMerge" && String.eqb col "count" then Some (Z.of_nat (List.length parts))
  else None.
Definition eval_agg (e : expr) (parts : list (Z * Z)) : option (Z * Z) :=
  match e with
  | IntV z => Some (z, 1%Z)
  | Fn name [Id col] => omap (fun v => (v, 1%Z)) (agg_fn name col parts)
  | Sep sep [Fn n1 [Id c1]; Fn n2 [Id c2]] =>
    if String.eqb sep " / " then
      match agg_fn n1 c1 parts, agg_fn n2 c2 parts with
      | Some a, Some b => Some (a, b)
      | _, _ => None end
    else None
  | _ => None
  end.

Definition m15_env (r : m15row) : env := fun n =>
  if String.eqb n "samples.fingerprint" then Some (VI (Z.of_N (q_fp r)))
  else if String.eqb n "samples.timestamp_ns" then Some (VI (q_ts_ns r))
  else if String.eqb n "timestamp_ns" then Some (VI (q_ts_ns r))
  else if String.eqb n "type" then Some (VI (q_type r))
  else if String.eqb n "samples.type" then Some (VI (q_type r))
  else None.

Section DOWN.
  Variable re_match : string -> string -> bool.

  (* the group of a key: the summarised samples of every kept row carrying it *)
  Definition parts_of (k : N * Z) (krs : list ((N * Z) * m15row)) : list (Z * Z) :=
    flat_map (fun kr => if fpts_eqb (fst kr) k then q_parts (snd kr) else []) krs.
  Definition group_rows (vexp : expr) (krs : list ((N * Z) * m15row)) : option (list drow) :=
    let keys := dedup fpts_eqb (map fst krs) [] in
    omap (isort drow_lt)
      (all_some (map (fun k => omap (fun v => {| d_fp := fst k; d_num := fst v; d_den := snd v; d_ts := snd k |})
                                   (eval_agg vexp (parts_of k krs))) keys)).

  (* SELECT <fingerprint>, <merge> as value, <time field> as timestamp_ms FROM metrics_15s as samples WHERE ..
     GROUP BY timestamp_ms, fingerprint ORDER BY fingerprint asc, timestamp_ms asc *)
  Definition eval_down (q : select) (gin : list ginrow) (tbl : list m15row) : option (list drow) :=
    let cte := fun fq => Some (eval_fp_sel re_match fq gin) in
    match s_cols q, s_where q, s_groupby q, s_orderby q, s_limit q, s_having q with
    | [cfp; Col vexp valias; cts], Some w, [Id g1; Id g2], [Ord (Id o1) true; Ord (Id o2) true], None, None =>
      if String.eqb g1 "timestamp_ms" && String.eqb g2 "fingerprint" && String.eqb o1 "fingerprint"
         && String.eqb o2 "timestamp_ms" && String.eqb valias "value" then
        let envs := map (fun r => (alias_env re_match cte [cfp; cts] (m15_env r), r)) tbl in
        let kept := filter (fun er => is_true (ev re_match cte (fst er) w)) envs in
        match all_some (map (fun er : env * m15row =>
                               match fst er "fingerprint", fst er "timestamp_ms" with
                               | Some (VI f), Some (VI t) => Some ((Z.to_N f, t), snd er)
                               | _, _ => None end) kept) with
        | Some krs => group_rows vexp krs
        | None => None
        end
      else None
    | _, _, _, _, _, _ => None
    end.

  (* ================= the list-function reading ================= *)
  (* which rows of metrics_15s the statement reads: bucket start inside [from, to] (both in ns, closed), metric typed,
     fingerprint selected, and for a range-vector function with Step > Range the modulo condition on the bucket start *)
  Definition down_modulo (h : hints) : bool := is_range (h_func h) && (h_range h <? h_step h)%Z.
  Definition down_keep (h : hints) (from_ns to_ns t : Z) (fps : list N) (r : m15row) : bool :=
    (from_ns <=? q_ts_ns r)%Z && (q_ts_ns r <=? to_ns)%Z && ((q_type r =? t)%Z || (q_type r =? 0)%Z)
    && existsb (N.eqb (q_fp r)) fps
    && (if Z.eqb (h_step h) 0 then true
        else if down_modulo h then
          (Z.rem (q_ts_ns r) (h_step h * 1000000) =? 0)%Z
          || (h_step h * 1000000 - h_range h * 1000000 <? Z.rem (q_ts_ns r) (h_step h * 1000000))%Z
        else true).
  (* the new timestamp (ms) of a roll-up row: the millisecond BEFORE the start of its Step bucket (the bucket being
     counted from the epoch, for the modulo form after moving the row Range later) *)
  Definition down_stamp (h : hints) (ts_ns : Z) : Z :=
    if Z.eqb (h_step h) 0 then Z.quot ts_ns 1000000
    else if down_modulo h then (Z.quot (ts_ns + h_range h * 1000000) (h_step h * 1000000) * h_step h - 1)%Z
    else (Z.quot ts_ns (h_step h * 1000000) * h_step h - 1)%Z.
  Definition down_value (h : hints) : expr := if Z.eqb (h_step h) 0 then Fn "argMaxMerge" [Id "samples.last"] else value_merge (h_func h).
  Definition down_rows (h : hints) (from_ns to_ns t : Z) (fps : list N) (tbl : list m15row) : option (list drow) :=
    group_rows (down_value h)
      (map (fun r => ((q_fp r, down_stamp h (q_ts_ns r)), r)) (filter (down_keep h from_ns to_ns t fps) tbl)).
End DOWN.

(* ================= what a down-sampled sample is, in terms of the stored samples ================= *)
(* the stored samples a group summarises when the table is the view of the samples: those of the fingerprint, metric
   typed, whose 15 s bucket start passes down_keep and is stamped T *)
Definition row_of_sample (s : samplerow) : m15row :=
  {| q_fp := sm_fp s; q_type := sm_type s; q_ts_ns := bucket15 (sm_ts_ns s); q_parts := [(sm_ts_ns s, sm_value s)] |}.
Definition summarised (h : hints) (from_ns to_ns t : Z) (fp : N) (T : Z) (samples : list samplerow) : list samplerow :=
  filter (fun s => N.eqb (sm_fp s) fp
                   && down_keep h from_ns to_ns t [sm_fp s] (row_of_sample s)
                   && Z.eqb (down_stamp h (bucket15 (sm_ts_ns s))) T) samples.

(* ---- comparison function of the generated cases (checks/promsel.py, kind "down"):
   0 ok; 1 the parse does not render back to the text; 2 no value; 3 the interpreter on the implementation's statement and
   on the model's tree differ; 9 the list reading differs from the interpreter ---- *)
Record downcase := {
  dn_id : Z; dn_cluster : bool; dn_hints : hints; dn_ms : list matcher; dn_db : database;
  dn_impl : select; dn_text : string;
  dn_search : list (string * string * bool); dn_full : list (string * string * bool)
}.
Definition odrows_eqb (a b : option (list drow)) : bool :=
  match a, b with Some x, Some y => list_eqb drow_eqb x y | None, None => true | _, _ => false end.
Definition down_verdict (c : downcase) : Z * list drow :=
  let search := tbl_lookup (dn_search c) in
  let full := tbl_lookup (dn_full c) in
  let h := dn_hints c in
  let pc := prom_ctx (dn_cluster c) "qryn" h in
  let tbl := m15_of (d_samples (dn_db c)) in
  match render (dn_impl c) (dn_cluster c) with
  | None => (1%Z, [])
  | Some t =>
    if negb (String.eqb t (dn_text c)) then (1%Z, []) else
    let impl := eval_down search (dn_impl c) (d_gin (dn_db c)) tbl in
    let model := eval_down search (transpile_label_matchers_downsample full h pc (dn_ms c)) (d_gin (dn_db c)) tbl in
    let fps := eval_fp_sel search (fingerprints_query full pc (dn_ms c)) (d_gin (dn_db c)) in
    let reading := down_rows h (c_from_ns pc) (c_to_ns pc) 2 fps tbl in
    match impl with
    | None => (2%Z, [])
    | Some rows =>
      if negb (odrows_eqb impl model) then (3%Z, rows)
      else if negb (odrows_eqb model reading) then (9%Z, rows)
      else (0%Z, rows)
    end
  end.
