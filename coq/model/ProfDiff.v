(* Model of the diff view of the reader (property C16):
     reader/service/profTree.go      assertPositive, synchronizeNames, mergeNodes, mergeChildren, createEmptyNode,
                                     computeFlameGraphDiff
     reader/service/profService.go   RenderDiff (after the two getTree calls), diffToFlameBearer
   for two one-sample-type Trees as getTree builds them.  Executable definitions only; proofs are in
   proofs/ProfDiffProofs.v.  int64 arithmetic wraps (wrap64). *)
From Coq Require Import List NArith ZArith Bool.
From Qryn Require Import model.Pprof model.ProfTree.
Import ListNotations.

(* assertPositive: no node has a negative self value *)
Definition assert_positive (t : mtree) : bool :=
  forallb (fun e => forallb (fun c => Z.leb 0 (t_self c)) (snd e)) (m_nodes t).

(* ------------------------------------------------------------------ names
   synchronizeNames adds to each tree the (id, name) pairs only the other one has; computeFlameGraphDiff then names a
   node t1.Names[t1.NamesMap[fn]] -- the left tree's own name for the id if it has one, else the right tree's; an id
   neither tree knows reads index 0 of the map, i.e. Names[0] = "total" (token -1).  The order in which the missing
   names are appended (Go map iteration) only changes indices that are never emitted. *)
Definition own_name (t : mtree) (fn : N) : option Z :=
  match assocN (m_namesmap t) fn with
  | Some idx => Some (nth (Z.to_nat idx) (m_names t) (-1)%Z)
  | None => None
  end.
Definition diff_name (t1 t2 : mtree) (fn : N) : Z :=
  if N.eqb fn 0 then (-1)%Z
  else match own_name t1 fn with
       | Some n => n
       | None => match own_name t2 fn with Some n => n | None => (-1)%Z end
       end.

(* ------------------------------------------------------------------ mergeNodes
   sort.Slice by NodeID (ids are distinct under one parent after MergeTrie, so the order is determined) *)
Fixpoint insert_by_id (c : tnode) (l : list tnode) : list tnode :=
  match l with
  | [] => [c]
  | d :: r => if N.leb (t_id c) (t_id d) then c :: l else d :: insert_by_id c r
  end.
Definition sort_by_id (l : list tnode) : list tnode := fold_right insert_by_id [] l.

(* createEmptyNode *)
Definition empty_like (c : tnode) : tnode := {| t_fn := t_fn c; t_id := t_id c; t_self := 0; t_total := 0 |}.

(* mergeChildren on two lists sorted by id: both results list the union of the ids, a node missing on one side is
   a zero node carrying the other side's function id *)
Fixpoint merge_children_f (fuel : nat) (a b : list tnode) : list tnode * list tnode :=
  match fuel with
  | O => ([], [])
  | S f =>
      match a, b with
      | [], [] => ([], [])
      | x :: a', [] => let '(r1, r2) := merge_children_f f a' [] in (x :: r1, empty_like x :: r2)
      | [], y :: b' => let '(r1, r2) := merge_children_f f [] b' in (empty_like y :: r1, y :: r2)
      | x :: a', y :: b' =>
          if N.eqb (t_id x) (t_id y) then let '(r1, r2) := merge_children_f f a' b' in (x :: r1, y :: r2)
          else if N.ltb (t_id x) (t_id y) then let '(r1, r2) := merge_children_f f a' b in (x :: r1, empty_like x :: r2)
          else let '(r1, r2) := merge_children_f f a b' in (empty_like y :: r1, y :: r2)
      end
  end.
(* every step consumes an element of one list at least: the fuel suffices (merge_children_aligned needs no fuel bound
   beyond this one) *)
Definition merge_children (a b : list tnode) : list tnode * list tnode :=
  merge_children_f (length a + length b) a b.

Definition union_keys (n1 n2 : list (N * list tnode)) : list N :=
  map fst n1 ++ filter (fun k => negb (existsb (N.eqb k) (map fst n1))) (map fst n2).

(* the Nodes maps of both trees after mergeNodes, over the same key list *)
Definition merge_nodes (n1 n2 : list (N * list tnode)) : list (N * list tnode) * list (N * list tnode) :=
  let ks := union_keys n1 n2 in
  let ms := map (fun k => (k, merge_children (sort_by_id (children n1 k)) (sort_by_id (children n2 k)))) ks in
  (map (fun e => (fst e, fst (snd e))) ms, map (fun e => (fst e, snd (snd e))) ms).

(* ------------------------------------------------------------------ computeFlameGraphDiff
   One bar of a level carries both sides.  Offsets are ABSOLUTE while the queue runs; the last pass of the Go
   function turns them into gaps ([relativise]).  Node id and parent id are ghost fields. *)
Record dbar := { d_xl : Z; d_tl : Z; d_sl : Z; d_xr : Z; d_tr : Z; d_sr : Z; d_name : Z; d_id : N; d_parent : N }.
Record qitem := { q_l : tnode; q_r : tnode; q_xl : Z; q_xr : Z; q_level : nat; q_parent : N }.

Definition zero_node : tnode := {| t_fn := 0; t_id := 0; t_self := 0; t_total := 0 |}.

(* childLeft = childrenLeft[i]; childRight = childrenRight[i] if i < len(childrenRight) else a zero node *)
Fixpoint pair_up (ls rs : list tnode) : list (tnode * tnode) :=
  match ls with
  | [] => []
  | l :: ls' => (l, hd zero_node rs) :: pair_up ls' (tl rs)
  end.

(* for i := len-1 .. 0: push (child, offsets); offsets += child totals *)
Fixpoint enqueue (ps : list (tnode * tnode)) (xl xr : Z) (lvl : nat) (par : N) : list qitem :=
  match ps with
  | [] => []
  | (l, r) :: rest =>
      {| q_l := l; q_r := r; q_xl := xl; q_xr := xr; q_level := lvl; q_parent := par |}
      :: enqueue rest (wrap64 (xl + t_total l)) (wrap64 (xr + t_total r)) lvl par
  end.

(* nameLocationCache / res.Names: index of the name, appended when new *)
Fixpoint name_index (names : list Z) (n : Z) (i : Z) : list Z * Z :=
  match names with
  | [] => ([n], i)
  | m :: r => if Z.eqb m n then (names, i) else let '(r', j) := name_index r n (i + 1) in (m :: r', j)
  end.

(* for len(res.Levels) <= level { append empty }; res.Levels[level] ++= bar *)
Fixpoint add_at (levels : list (list dbar)) (lvl : nat) (b : dbar) : list (list dbar) :=
  match lvl, levels with
  | O, [] => [[b]]
  | O, l :: r => (l ++ [b]) :: r
  | S k, [] => [] :: add_at [] k b
  | S k, l :: r => l :: add_at r k b
  end.

Record dstate := { ds_names : list Z; ds_levels : list (list dbar); ds_maxself : Z }.

Definition zmax (a b : Z) : Z := if Z.ltb a b then b else a.

Fixpoint diff_loop (fuel : nat) (n1 n2 : list (N * list tnode)) (nameof : N -> Z) (q : list qitem) (st : dstate) : dstate :=
  match fuel with
  | O => st
  | S f =>
      match q with
      | [] => st
      | it :: q' =>
          let l := q_l it in
          let r := q_r it in
          let '(names, idx) := name_index (ds_names st) (nameof (t_fn l)) 0 in
          let b := {| d_xl := q_xl it; d_tl := t_total l; d_sl := t_self l;
                      d_xr := q_xr it; d_tr := t_total r; d_sr := t_self r;
                      d_name := idx; d_id := t_id l; d_parent := q_parent it |} in
          let st' := {| ds_names := names; ds_levels := add_at (ds_levels st) (q_level it) b;
                        ds_maxself := zmax (zmax (ds_maxself st) (t_self l)) (t_self r) |} in
          let cl := children n1 (t_id l) in
          let cr := children n2 (t_id r) in
          diff_loop f n1 n2 nameof (q' ++ enqueue (rev (pair_up cl cr)) (q_xl it) (q_xr it) (S (q_level it)) (t_id l)) st'
      end
  end.

(* the last pass: V[j] -= prev; prev += V[j] + V[j+1], for both sides *)
Fixpoint relativise (pl pr : Z) (l : list dbar) : list Z :=
  match l with
  | [] => []
  | b :: r =>
      let ol := wrap64 (d_xl b - pl) in
      let or_ := wrap64 (d_xr b - pr) in
      [ol; d_tl b; d_sl b; or_; d_tr b; d_sr b; d_name b] ++
      relativise (wrap64 (pl + ol + d_tl b)) (wrap64 (pr + or_ + d_tr b)) r
  end.

Record diff_out := { o_names : list Z; o_levels : list (list Z); o_total : Z; o_maxself : Z; o_left : Z; o_right : Z }.

Definition count_list_nodes (ns : list (N * list tnode)) : nat :=
  fold_right (fun e acc => (length (snd e) + acc)%nat) O ns.

Definition diff_bars (t1 t2 : mtree) : dstate :=
  let '(n1, n2) := merge_nodes (m_nodes t1) (m_nodes t2) in
  let lt := total_of t1 in
  let rt := total_of t2 in
  let root := {| q_l := {| t_fn := 0; t_id := 0; t_self := 0; t_total := lt |};
                 q_r := {| t_fn := 0; t_id := 0; t_self := 0; t_total := rt |};
                 q_xl := 0; q_xr := 0; q_level := O; q_parent := 0%N |} in
  diff_loop (2 * count_list_nodes n1 + 2) n1 n2 (diff_name t1 t2) [root]
            {| ds_names := []; ds_levels := []; ds_maxself := 0 |}.

Definition compute_diff (t1 t2 : mtree) : diff_out :=
  let st := diff_bars t1 t2 in
  let lt := total_of t1 in
  let rt := total_of t2 in
  {| o_names := ds_names st; o_levels := map (relativise 0 0) (ds_levels st);
     o_total := wrap64 (lt + rt); o_maxself := ds_maxself st; o_left := lt; o_right := rt |}.

(* RenderDiff after the two trees are built: None = "left/right tree is not positive" *)
Definition render_diff (t1 t2 : mtree) : option diff_out :=
  if assert_positive t1 && assert_positive t2 then Some (compute_diff t1 t2) else None.

(* ------------------------------------------------------------------ oracle on OBSERVED diff levels (7 numbers per bar)
   side = 0: the left coordinates (positions 0,1), side = 3: the right ones (positions 3,4) *)
Fixpoint dabs_values (side : nat) (cursor : Z) (l : list Z) : list (Z * Z) :=
  match l with
  | a0 :: a1 :: a2 :: a3 :: a4 :: a5 :: a6 :: r =>
      let off := if Nat.eqb side 0 then a0 else a3 in
      let tot := if Nat.eqb side 0 then a1 else a4 in
      let s := (cursor + off)%Z in (s, (s + tot)%Z) :: dabs_values side (s + tot)%Z r
  | _ => []
  end.
Fixpoint doffsets_nonneg (l : list Z) : bool :=
  match l with
  | a0 :: a1 :: _ :: a3 :: a4 :: _ :: _ :: r => Z.leb 0 a0 && Z.leb 0 a1 && Z.leb 0 a3 && Z.leb 0 a4 && doffsets_nonneg r
  | [] => true
  | _ => false
  end.
Fixpoint dvalues_nest_b (side : nat) (prev : list (Z * Z)) (ls : list (list Z)) : bool :=
  match ls with
  | [] => true
  | l :: r =>
      let a := dabs_values side 0 l in
      doffsets_nonneg l &&
      forallb (fun x => existsb (fun y => Z.leb (fst y) (fst x) && Z.leb (snd x) (snd y)) prev) a &&
      dvalues_nest_b side a r
  end.
