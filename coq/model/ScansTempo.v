(* C13 for the Tempo v1 API: the statements of /api/search (tags or plain), /api/traces/{id}, /api/search/tags and
   /api/search/tag/{tag}/values, transcribed from reader/tempo/sqlIndexQuery.go (SQLIndexQuery.String), reader/tempo/
   tracesQuery.go (GetTracesQuery) and reader/service/tempoService.go (GetQueryRequest, GetTagsRequest, GetValuesRequest)
   over the SQL object tree of Sql.v (the text is printed by SqlRender.render).  Executable definitions only. *)
From Coq Require Import List ZArith NArith String Ascii Bool.
From Qryn Require Import lib.Strs lib.CivilDate model.Sql model.SqlRender model.Scans.
Import ListNotations.
Open Scope string_scope.
Open Scope Z_scope.

(* a tag condition of the `tags` parameter: key op value (opRegistry) *)
Inductive tag_op := TgEq | TgNeq | TgRe | TgNre.
Record tag := { tg_key : string; tg_op : tag_op; tg_val : string }.
Definition tag_cond (t : tag) : expr :=
  let m := Fn "match" [Id "val"; StrV (tg_val t)] in
  match tg_op t with
  | TgEq => Eq (Id "val") (StrV (tg_val t))
  | TgNeq => Neq (Id "val") (StrV (tg_val t))
  | TgRe => Eq m (Raw "1")
  | TgNre => Neq m (Raw "1")
  end.

Definition day_of (t_ns : Z) : Z := t_ns / (86400 * 1000000000).
Definition to_date (t_ns : Z) : expr := Fn "toDate" [StrV (date_string (day_of t_ns))].   (* toDate('2006-01-02'), UTC *)
Definition and_where_if (b : bool) (cl : list expr) (q : select) : select := if b then and_where cl q else q.

(* one sub-select of SQLIndexQuery per tag. v2 = Ver.IsVersionSupported("tempo_v2", from, to) *)
Definition tag_select (tbl : string) (t : tag) (from_ns to_ns min_d max_d limit : Z) (v2 : bool) : select :=
  let q0 := and_where [Eq (Id "key") (StrV (tg_key t)); tag_cond t]
              (set_from (Id tbl) (set_cols [Id "trace_id"; Id "span_id"] empty_select)) in
  let q1 := if (0 <? limit) && v2 then set_cols (s_cols q0 ++ [Id "timestamp_ns"])%list q0 else q0 in
  let q2 := if 0 <? from_ns then
              and_where_if v2 [Ge (Id "timestamp_ns") (IntV from_ns)] (and_where [Ge (Id "date") (to_date from_ns)] q1)
            else q1 in
  let q3 := if 0 <? to_ns then
              and_where_if v2 [Le (Id "timestamp_ns") (IntV to_ns)] (and_where [Le (Id "date") (to_date to_ns)] q2)
            else q2 in
  let q4 := and_where_if ((0 <? min_d) && v2) [Ge (Id "duration") (IntV min_d)] q3 in
  and_where_if ((0 <? max_d) && v2) [Lt (Id "duration") (IntV max_d)] q4.

Definition sub_select (q : select) : expr := Sep "" [Raw "("; SubQ q; Raw ")"].      (* getSubSelect *)
Fixpoint index_joins (i : nat) (subs : list select) : list (string * expr * option expr) :=
  match subs with
  | [] => []
  | q :: r =>
    let a := "subsel_" ++ string_of_N (N.of_nat i) in
    ("INNER ANY", Col (sub_select q) a,
     Some (And [Eq (Id "subsel_0.trace_id") (Id (a ++ ".trace_id")); Eq (Id "subsel_0.span_id") (Id (a ++ ".span_id"))]))
    :: index_joins (S i) r
  end.
(* SQLIndexQuery.String: None when there is no tag (tags.Tags of a nil *Tags: the service builds the object only for a
   non-empty tags parameter) *)
Definition index_query (db : string) (dist : bool) (tags : list tag) (from_ns to_ns min_d max_d limit : Z) (v2 : bool) : option select :=
  let tbl := "`" ++ db ++ "`.tempo_traces_attrs_gin" ++ (if dist then "_dist" else "") in
  match map (fun t => tag_select tbl t from_ns to_ns min_d max_d limit v2) tags with
  | [] => None
  | q0 :: rest =>
    let r := set_joins (index_joins 1 rest)
              (set_from (Col (sub_select q0) "subsel_0") (set_cols [Id "subsel_0.trace_id"; Id "subsel_0.span_id"] empty_select)) in
    Some (if v2 && (0 <? limit) then set_limit (Some (Raw (string_of_Z limit))) (set_orderby [Ord (Id "subsel_0.timestamp_ns") false] r) else r)
  end.

(* GetTracesQuery (start_time_unix_nano >= from since the repair of trace-search-start-exclusive) *)
Definition traces_query (table : string) (idx : option select) (limit from_ns to_ns min_d max_d : Z) : select :=
  let q0 := set_from (Id table)
             (set_cols [Raw "hex(trace_id)"; Col (Id "service_name") "root_service_name"; Col (Id "name") "root_trace_name";
                        Col (Id "timestamp_ns") "start_time_unix_nano"; Col (Raw "intDiv(duration_ns, 1000000)") "duration_ms"] empty_select) in
  let q1 := match idx with Some i => and_where [In (Raw "(trace_id, span_id)") [SubQ i]] q0 | None => q0 end in
  let q2 := and_where_if (0 <? from_ns) [Ge (Id "start_time_unix_nano") (IntV from_ns)] q1 in
  let q3 := and_where_if (0 <? to_ns) [Le (Id "start_time_unix_nano") (IntV to_ns)] q2 in
  let q4 := and_where_if (0 <? min_d) [Gt (Id "duration_ms") (IntV (min_d / 1000000))] q3 in
  let q5 := and_where_if (0 <? max_d) [Le (Id "duration_ms") (IntV (max_d / 1000000))] q4 in
  let q6 := if 0 <? limit then set_limit (Some (IntV limit)) q5 else q5 in
  set_orderby [Raw "start_time_unix_nano DESC"] q6.

(* TempoService.Search: the index query reads the local table of database db, the traces query the (distributed) table *)
Definition search_query (db : string) (cluster : bool) (tags : list tag) (limit from_ns to_ns min_d max_d : Z) (v2 : bool) : select :=
  traces_query (if cluster then "tempo_traces_dist" else "tempo_traces")
               (index_query db false tags from_ns to_ns min_d max_d limit v2) limit from_ns to_ns min_d max_d.

(* GetQueryRequest: the spans of one trace *)
Definition span_cols : list expr :=
  [Id "trace_id"; Id "span_id"; Id "parent_id"; Id "timestamp_ns"; Id "duration_ns"; Id "payload_type"; Id "payload"].
Definition trace_query (cluster : bool) (trace_id : string) (start_ns end_ns : Z) : select :=
  let raw0 := set_limit (Some (IntV 2000)) (set_orderby [Id "timestamp_ns"]
               (and_where [Eq (Id "trace_id") (Fn "unhex" [StrV trace_id])]
                 (set_from (Id (if cluster then "tempo_traces_dist" else "tempo_traces")) (set_cols span_cols empty_select)))) in
  let raw1 := and_where_if (negb (start_ns =? 0)) [Ge (Id "timestamp_ns") (IntV start_ns)] raw0 in
  let raw := and_where_if (negb (end_ns =? 0)) [Lt (Id "timestamp_ns") (IntV end_ns)] raw1 in
  set_orderby [Ord (Id "timestamp_ns") true] (set_from (WRef "raw" raw) (set_cols span_cols (with_ [("raw", raw)] empty_select))).

(* GetTagsRequest / GetValuesRequest: no window (the API has none) *)
Definition tags_query (cluster : bool) : select :=
  set_orderby [Id "key"] (set_from (Id (if cluster then "tempo_traces_kv_dist" else "tempo_traces_kv")) (set_cols [Id "key"] (set_distinct true empty_select))).
Definition values_query (cluster : bool) (tg : string) : select :=
  set_orderby [Id "val"] (and_where [Eq (Id "key") (StrV tg)]
    (set_from (Id (if cluster then "tempo_traces_kv_dist" else "tempo_traces_kv")) (set_cols [Id "val"] (set_distinct true empty_select)))).

(* the window of a search / trace request: [from, to] in nanoseconds (the statements write <= to) *)
Definition tempo_win (from_ns to_ns : Z) : window :=
  {| w_from := from_ns; w_to := to_ns; w_lo_min := from_ns; w_hi_max := to_ns; w_type := 0 |}.

(* ---------- case functions (checks/c13.py) ---------- *)
Inductive treq :=
 | TSearch (tags : list tag) (limit min_d max_d : Z) (v2 : bool)
 | TTrace (id : string) (windowed : bool)
 | TTags
 | TValues (tg : string).
Record tv1_case := { tv_id : Z; tv_db : string; tv_cluster : bool; tv_from : Z; tv_to : Z; tv_req : treq; tv_sql : string }.
Definition tv1_select (c : tv1_case) : select :=
  match tv_req c with
  | TSearch tags limit min_d max_d v2 => search_query (tv_db c) (tv_cluster c) tags limit (tv_from c) (tv_to c) min_d max_d v2
  | TTrace id w => if w then trace_query (tv_cluster c) id (tv_from c) (tv_to c) else trace_query (tv_cluster c) id 0 0
  | TTags => tags_query (tv_cluster c)
  | TValues tg => values_query (tv_cluster c) tg
  end.
Definition tv1_mismatches (cs : list tv1_case) : list Z :=
  flat_map (fun c => match render (tv1_select c) false with
                     | Some t => if String.eqb t (tv_sql c) then [] else [tv_id c]
                     | None => [tv_id c] end) cs.
Definition tv1_texts (cs : list tv1_case) : list (option string) := map (fun c => render (tv1_select c) false) cs.
