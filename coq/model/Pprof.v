(* Model of the profile ingest path of the writer (property C16):
     writer/utils/unmarshal/golangPprof.go   postProcessProf, getNodeId, calculateSumAndCount
     writer/utils/unmarshal/builder.go       onProfile / doParseProfile (what is emitted per request)
   Executable definitions only; proofs are in proofs/PprofProofs.v.

   uint64 values are N (kept below 2^64 by m64), int64 values are Z kept in [-2^63, 2^63) by
   wrap64 (Go's += on int64 wraps).  The hash of the 16-byte buffer (parent id, function id) is a
   parameter [h] of every definition (theorems hold for every h); [city16] is the concrete
   city.CH64 on 16 bytes, used when generated cases are evaluated.  Function ids are the
   parameter [fnh] applied to a name token (city.CH64 of the name, given as a table). *)
From Coq Require Import List NArith ZArith Bool.
Import ListNotations.

(* ------------------------------------------------------------------ 64-bit arithmetic *)
Definition two64N : N := 18446744073709551616%N.
Definition ones64 : N := 18446744073709551615%N.
(* x mod 2^64, computed bitwise (m64_mod in the proofs) *)
Definition m64 (x : N) : N := N.land x ones64.

Definition two64 : Z := 18446744073709551616%Z.
Definition two63 : Z := 9223372036854775808%Z.
(* the representative of z modulo 2^64 in [-2^63, 2^63); the test only short-cuts the common case
   (wrap64_mod in the proofs: wrap64 z = (z + 2^63) mod 2^64 - 2^63 for every z) *)
Definition wrap64 (z : Z) : Z :=
  if (Z.leb (- two63) z && Z.ltb z two63)%bool then z else (((z + two63) mod two64) - two63)%Z.

(* int32(len(samples)) *)
Definition wrap32 (z : Z) : Z := (((z + 2147483648) mod 4294967296) - 2147483648)%Z.

(* ------------------------------------------------------------------ city.CH64 on a 16-byte buffer
   go-faster/city ch_64.go: length 16 takes ch0to16's branch `length > 8`:
     a := LE64(s[0:8]); b := LE64(s[8:16]); return ch16(a, rot64(b+16, 16)) ^ b
   ch16(u,v) = hash128to64{Low:u, High:v} *)
Definition rot64 (v s : N) : N :=
  if N.eqb s 0 then v else m64 (N.lor (N.shiftr v s) (N.shiftl v (64 - s))).
Definition kmul : N := 0x9ddfea08eb382d69%N.
Definition hash128to64 (lo hi : N) : N :=
  let a := m64 (N.lxor lo hi * kmul) in
  let a := N.lxor a (N.shiftr a 47) in
  let b := m64 (N.lxor hi a * kmul) in
  let b := N.lxor b (N.shiftr b 47) in
  m64 (b * kmul).
Definition city16 (a b : N) : N := N.lxor (hash128to64 a (rot64 (m64 (b + 16)) 16)) b.

(* ------------------------------------------------------------------ node ids
   func getNodeId(parentId, funcId uint64, traceLevel int) uint64 {
       buf := LE(parentId) ++ LE(funcId); if traceLevel > 511 { traceLevel = 511 }
       return city.CH64(buf)>>9 | (uint64(traceLevel) << 55) } *)
Definition hash_shift : N := 9.
Definition depth_shift : N := 55.
Definition depth_clamp : N := 511.
Definition node_id (h : N -> N -> N) (parent fn depth : N) : N :=
  N.lor (N.shiftr (m64 (h parent fn)) hash_shift) (N.shiftl (N.min depth depth_clamp) depth_shift).

(* ------------------------------------------------------------------ profiles and stored rows *)
Record sample := { s_stack : list N;      (* function ids, LEAF FIRST (pprof order) *)
                   s_values : list Z }.   (* one value per sample type *)

Record node := { n_parent : N; n_fn : N; n_id : N;
                 n_vals : list (Z * Z) }. (* (self, total) per sample type *)

Definition tree := list node.             (* insertion order; the Go map keyed by nodeId *)

Fixpoint find (i : N) (t : tree) : option node :=
  match t with
  | [] => None
  | n :: r => if N.eqb (n_id n) i then Some n else find i r
  end.

(* for j := range node.values { total += sample.Value[j]; if i == 0 { self += sample.Value[j] } } *)
Fixpoint add_vals (nv : list (Z * Z)) (leaf : bool) (vs : list Z) : list (Z * Z) :=
  match nv with
  | [] => []
  | (s, t) :: nv' =>
      let v := hd 0%Z vs in
      (wrap64 (s + if leaf then v else 0), wrap64 (t + v))%Z :: add_vals nv' leaf (tl vs)
  end.

(* node := tree[nodeId]; if node == nil { node = new(parentId, fnId, nodeId, zero values); tree[nodeId] = node };
   add the sample's values *)
Fixpoint bump (t : tree) (p f i : N) (leaf : bool) (vs : list Z) (zero : list (Z * Z)) : tree :=
  match t with
  | [] => [ {| n_parent := p; n_fn := f; n_id := i; n_vals := add_vals zero leaf vs |} ]
  | n :: r =>
      if N.eqb (n_id n) i
      then {| n_parent := n_parent n; n_fn := n_fn n; n_id := n_id n;
              n_vals := add_vals (n_vals n) leaf vs |} :: r
      else n :: bump r p f i leaf vs zero
  end.

Definition is_nil {A} (l : list A) : bool := match l with [] => true | _ => false end.

Section WithHash.
  Variable h : N -> N -> N.

  (* for i := len(sample.Location)-1; i >= 0; i-- : root first; depth = len - i starts at 1 *)
  Fixpoint walk (t : tree) (parent depth : N) (rest : list N) (vs : list Z) (zero : list (Z * Z)) : tree :=
    match rest with
    | [] => t
    | f :: rest' =>
        let i := node_id h parent f depth in
        walk (bump t parent f i (is_nil rest') vs zero) i (depth + 1) rest' vs zero
    end.

  Definition add_sample (zero : list (Z * Z)) (t : tree) (s : sample) : tree :=
    walk t 0 1 (rev (s_stack s)) (s_values s) zero.

  Definition zero_vals (ntypes : nat) : list (Z * Z) := repeat (0, 0)%Z ntypes.

  (* the tree map of postProcessProf after the loop over samples *)
  Definition post_process (ntypes : nat) (ss : list sample) : tree :=
    fold_left (add_sample (zero_vals ntypes)) ss [].

  (* the (parent, function, depth) triples whose node id is computed while walking *)
  Fixpoint walk_triples (parent depth : N) (rest : list N) : list (N * N * N) :=
    match rest with
    | [] => []
    | f :: rest' => (parent, f, depth) :: walk_triples (node_id h parent f depth) (depth + 1) rest'
    end.
  Definition triples (ss : list sample) : list (N * N * N) :=
    flat_map (fun s => walk_triples 0 1 (rev (s_stack s))) ss.
End WithHash.

(* A sample without locations is kept as one "n/a" frame (since the fix of the empty-stack loss):
   depth := len(sample.Location); if depth == 0 { depth = 1 }; the frame's name is "n/a".
   [na] = city.CH64("n/a").  The stored tree of a profile is post_process on the normalized samples. *)
Definition eff_stack (na : N) (s : sample) : list N :=
  match s_stack s with [] => [na] | l => l end.
Definition normalize (na : N) (ss : list sample) : list sample :=
  map (fun s => {| s_stack := eff_stack na s; s_values := s_values s |}) ss.
Definition stored_tree (h : N -> N -> N) (na : N) (ntypes : nat) (ss : list sample) : tree :=
  post_process h ntypes (normalize na ss).

(* ------------------------------------------------------------------ function table
   funcs[fnId] = name for every frame; emitted sorted by id (descending) *)
Fixpoint fn_upsert (m : list (N * Z)) (id : N) (name : Z) : list (N * Z) :=
  match m with
  | [] => [(id, name)]
  | (i, n) :: r => if N.eqb i id then (i, name) :: r else (i, n) :: fn_upsert r id name
  end.

(* ------------------------------------------------------------------ values_agg: calculateSumAndCount *)
Definition vagg_sum (k : nat) (ss : list sample) : Z :=
  fold_left (fun acc s => wrap64 (acc + nth k (s_values s) 0))%Z ss 0%Z.
Definition vagg_count (ss : list sample) : Z := wrap32 (Z.of_nat (length ss)).

(* ------------------------------------------------------------------ what one request emits
   onProfile (called once per request: Parse returns one profile) followed by the tail of
   doParseProfile.  [over] = calculateProfileSize() > 1 MiB.  Since the fix of defect 10 the
   over-size branch sends the profile request itself and resets; the tail sends the current
   ProfileData only when it holds a profile. *)
Definition emitted {A} (over : bool) (pd : A) : list A :=
  let '(sent, cur) := if over then ([pd], None) else ([], Some pd) in
  sent ++ match cur with Some p => [p] | None => [] end.

(* ------------------------------------------------------------------ the insert service and the retry of the controller
   ProcessRequest (writer/service/impl/profileInsertService.go) appends one row made of the request's fields to
   the pooled columns and leaves the request as it was; controller.doPush submits the SAME request object again
   after a failed insert (the failed batch is dropped by the service).  [push_with_retry fails pd] = the blocks
   handed to the ClickHouse client, in order, when the first [fails] inserts fail. *)
Definition process_request {A} (cols : list A) (pd : A) : list A * A := (cols ++ [pd], pd).
Fixpoint push_with_retry {A} (fails : nat) (pd : A) : list (list A) :=
  let '(blk, pd') := process_request [] pd in
  match fails with
  | O => [blk]
  | S f => blk :: push_with_retry f pd'
  end.

(* ------------------------------------------------------------------ conservation, as sums over rows
   All three are sums over the whole row list, hence additive over ++ and invariant under
   permutation; for a row list with distinct ids tot_at/self_at are the node's own values. *)
Definition sumZ (l : list Z) : Z := fold_right Z.add 0%Z l.
Definition val_at (k : nat) (n : node) : Z * Z := nth k (n_vals n) (0, 0)%Z.
Definition tot_at (k : nat) (t : tree) (x : N) : Z :=
  sumZ (map (fun n => if N.eqb (n_id n) x then snd (val_at k n) else 0%Z) t).
Definition self_at (k : nat) (t : tree) (x : N) : Z :=
  sumZ (map (fun n => if N.eqb (n_id n) x then fst (val_at k n) else 0%Z) t).
Definition child_tot (k : nat) (t : tree) (x : N) : Z :=
  sumZ (map (fun n => if N.eqb (n_parent n) x then snd (val_at k n) else 0%Z) t).

(* weight of sample type k carried by the samples that have at least one frame *)
Definition weight (k : nat) (ss : list sample) : Z :=
  sumZ (map (fun s => if is_nil (s_stack s) then 0 else nth k (s_values s) 0)%Z ss).

(* all self values together: every sample with a frame adds its value to exactly one self (its leaf) *)
Definition self_sum (k : nat) (t : tree) : Z := sumZ (map (fun n => fst (val_at k n)) t).

(* weight of sample type k carried by ALL samples of the profile *)
Definition full_weight (k : nat) (ss : list sample) : Z := sumZ (map (fun s => nth k (s_values s) 0%Z) ss).

(* boolean oracle used on OBSERVED rows *)
Definition node_conserves (k : nat) (t : tree) (n : node) : bool :=
  Z.eqb (snd (val_at k n)) (wrap64 (fst (val_at k n) + child_tot k t (n_id n))).
Fixpoint ids_distinct (l : list N) : bool :=
  match l with
  | [] => true
  | x :: r => negb (existsb (N.eqb x) r) && ids_distinct r
  end.
Definition rows_conserve (k : nat) (t : tree) (ss : list sample) : bool :=
  forallb (node_conserves k t) t &&
  Z.eqb (wrap64 (child_tot k t 0)) (wrap64 (weight k ss)) &&
  Z.eqb (wrap64 (self_sum k t)) (wrap64 (weight k ss)).
Definition rows_wellformed (ntypes : nat) (t : tree) : bool :=
  ids_distinct (map n_id t) &&
  forallb (fun n => negb (N.eqb (n_id n) 0) && Nat.eqb (length (n_vals n)) ntypes) t.
