(* C18 -- a candidate repair of finding concurrent-starters, modelled to see which interleavings it closes (it is
   NOT in the repository): updateScripts re-reads max(ver) immediately before every script and jumps ahead when
   the version it finds is already past the script it was about to run:

       for i := ver; i < len(scripts); i++ {
           cur := SELECT max(ver) ...            // new
           if cur > i { i = cur - 1; continue }  // new
           exec(scripts[i]); INSERT INTO ver (k, i+1)
       }

   Executable definitions only.  Same database, calls, outcomes and events as model/Migrate.v. *)
From Coq Require Import List String NArith ZArith Bool Arith.
From Qryn Require Import model.Migrate.
Import ListNotations.
Open Scope nat_scope.

Section Repair.
  Variables (cat stmt : Type).
  Variable exec : stmt -> cat -> option cat.
  Variable pexec : list bool -> stmt -> cat -> cat.
  Variable scripts : stream -> list stmt.

  Inductive pcR := RCreateVer | RCreateVD | RRead | RReread (i : nat) | RScript (i : nat) | RIns (i : nat).
  Record procR := { q_ks : list stream; q_pc : pcR; q_ok : bool }.
  Definition procR0 (c : cfg) : procR := {| q_ks := streams_of c; q_pc := RCreateVer; q_ok := true |}.
  Definition q_fail : procR := {| q_ks := []; q_pc := RCreateVer; q_ok := false |}.
  Definition q_at (ks : list stream) (x : pcR) : procR := {| q_ks := ks; q_pc := x; q_ok := true |}.
  Definition q_next (k : stream) (ks : list stream) (v : nat) : procR :=
    if v <? List.length (scripts k) then q_at (k :: ks) (RReread v) else q_at ks RCreateVer.

  Definition pstepR (c : cfg) (p : procR) (o : outcome) (d : db cat) : procR * db cat * list event :=
    match q_ks p with
    | [] => (p, d, [])
    | k :: ks =>
      match q_pc p with
      | RCreateVer =>
        let '(d1, r) := do_call cat o (eff_create_ver cat) (peff_none cat) d in
        (if res_ok r then q_at (k :: ks) (if clustered c then RCreateVD else RRead) else q_fail, d1, [ECreateVer r])
      | RCreateVD =>
        let '(d1, r) := do_call cat o (eff_create_vd cat) (peff_none cat) d in
        (if res_ok r then q_at (k :: ks) RRead else q_fail, d1, [ECreateVerDist r])
      | RRead =>
        let '(d1, r) := do_call cat o (eff_read cat c) (peff_none cat) d in
        (if res_ok r then q_next k ks (d_vers d1 k) else q_fail, d1, [EReadVer k (if res_ok r then d_vers d1 k else 0) r])
      | RReread i =>
        let '(d1, r) := do_call cat o (eff_read cat c) (peff_none cat) d in
        (if res_ok r then (if i <? d_vers d1 k then q_next k ks (d_vers d1 k) else q_at (k :: ks) (RScript i)) else q_fail,
         d1, [EReadVer k (if res_ok r then d_vers d1 k else 0) r])
      | RScript i =>
        match nth_error (scripts k) i with
        | None => (q_next k ks i, d, [])
        | Some x =>
          let '(d1, r) := do_call cat o (eff_script cat stmt exec x) (peff_script cat stmt pexec x) d in
          (if res_ok r then q_at (k :: ks) (RIns i) else q_fail, d1, [EScript k i r])
        end
      | RIns i =>
        let '(d1, r) := do_call cat o (eff_setver cat k (S i)) (peff_none cat) d in
        (if res_ok r then q_next k ks (S i) else q_fail, d1, [EInsVer k (S i) r])
      end
    end.

  Fixpoint conc_runR (c : cfg) (sched : list (bool * outcome)) (p q : procR) (d : db cat) : procR * procR * db cat * list (bool * event) :=
    match sched with
    | [] => (p, q, d, [])
    | (who, o) :: rest =>
      if who then
        let '(q1, d1, l1) := pstepR c q o d in
        let '(pf, qf, df, lf) := conc_runR c rest p q1 d1 in (pf, qf, df, map (pair true) l1 ++ lf)
      else
        let '(p1, d1, l1) := pstepR c p o d in
        let '(pf, qf, df, lf) := conc_runR c rest p1 q d1 in (pf, qf, df, map (pair false) l1 ++ lf)
    end.

  (* what the re-read buys, per process: a script i of stream k is sent only directly after this process read a
     version <= i of that stream (the window for the other starter is one call, not a whole stream) *)
  Fixpoint pmonR (last : option event) (l : list event) : bool :=
    match l with
    | [] => true
    | e :: r =>
      match e with
      | EScript k i _ => match last with
                         | Some (EReadVer k' v ROk) => stream_eqb k k' && (v <=? i)
                         | _ => false
                         end
      | _ => true
      end && pmonR (Some e) r
    end.
  Definition returned_nilR (p : procR) : bool := q_ok p && match q_ks p with [] => true | _ => false end.
End Repair.
