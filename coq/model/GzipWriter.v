(* reader/utils/middleware/accept_encoding.go (property C20): AcceptEncodingMiddleware and its gzipResponseWriter, as the
   sequence of calls that reach the UNDERLYING http.ResponseWriter for a given sequence of calls the next handler makes
   on the wrapper.  The question of the property: standing in front of BasicAuth, can the compression wrapper put an
   answer (a status line, a body) on the wire that is not BasicAuth's?  Executable definitions only. *)
From Coq Require Import List ZArith Bool.
Import ListNotations.
Open Scope Z_scope.

(* what the next handler does with the ResponseWriter it was given *)
Inductive act := AHeader (code : Z) | AWrite (len : nat).

(* what reaches the underlying writer: WriteHeader(code) / Write(bytes), with the Content-Encoding: gzip header being set
   at that moment or not; a Write either forwards the handler's bytes (raw, their number) or carries the gzip buffer
   (empty or not) *)
Inductive uev := UHeader (code : Z) (ce : bool) | URaw (len : nat) (ce : bool) | UGzip (nonempty : bool) (ce : bool).

(* g_written: bytes handed to the gzip writer; g_wrote: the gzip writer was written to at all (its first Write, even of
   no bytes, puts the 10-byte gzip header into the buffer); g_out: newest first *)
Record gzw := { g_code : Z; g_set : bool; g_written : nat; g_wrote : bool; g_ce : bool; g_out : list uev }.
Definition gz_new : gzw := {| g_code := 200; g_set := false; g_written := 0; g_wrote := false; g_ce := false; g_out := [] |}.
Definition ok2xx (c : Z) : bool := Z.div c 100 =? 2.

(* func (gzw *gzipResponseWriter) WriteHeader(code int) *)
Definition gz_header (g : gzw) (code : Z) : gzw :=
  if g_set g then g else
  if ok2xx code
  then {| g_code := code; g_set := true; g_written := g_written g; g_wrote := g_wrote g; g_ce := true; g_out := g_out g |}
  else {| g_code := code; g_set := true; g_written := g_written g; g_wrote := g_wrote g; g_ce := g_ce g; g_out := UHeader code (g_ce g) :: g_out g |}.

(* func (gzw *gzipResponseWriter) Write(b []byte) *)
Definition gz_write (g : gzw) (len : nat) : gzw :=
  if ok2xx (g_code g)
  then {| g_code := g_code g; g_set := true; g_written := g_written g + len; g_wrote := true; g_ce := true; g_out := g_out g |}
  else {| g_code := g_code g; g_set := true; g_written := g_written g; g_wrote := g_wrote g; g_ce := g_ce g; g_out := URaw len (g_ce g) :: g_out g |}.

(* func (gzw *gzipResponseWriter) Close(), deferred by the middleware: runs when next has returned *)
Definition gz_close (g : gzw) : gzw :=
  if ok2xx (g_code g)
  then {| g_code := g_code g; g_set := g_set g; g_written := g_written g; g_wrote := g_wrote g; g_ce := g_ce g;
          g_out := UGzip (g_wrote g) (g_ce g) :: UHeader (g_code g) (g_ce g) :: g_out g |}
  else g.

Definition gz_act (g : gzw) (a : act) : gzw := match a with AHeader c => gz_header g c | AWrite n => gz_write g n end.

(* AcceptEncodingMiddleware for a request: with "gzip" in Accept-Encoding next gets the wrapper and Close runs after
   it; without, next gets the underlying writer itself.  Result: the calls on the underlying writer, oldest first. *)
Definition direct (a : act) : uev := match a with AHeader c => UHeader c false | AWrite n => URaw n false end.
Definition accept_encoding (gzip : bool) (next : list act) : list uev :=
  if gzip then rev (g_out (gz_close (fold_left gz_act next gz_new))) else map direct next.

(* net/http underneath: the first WriteHeader (or Write, implying 200) fixes the status line; later WriteHeader calls
   are ignored.  The status the client sees, if any call was made. *)
Definition wire_status (l : list uev) : option Z :=
  match l with
  | [] => None
  | UHeader c _ :: _ => Some c
  | (URaw _ _ | UGzip _ _) :: _ => Some 200
  end.

(* comparison with the implementation: one scripted next handler *)
Record gzcase := { gc_id : Z; gc_gzip : bool; gc_next : list act; gc_obs : list uev }.
Definition uev_eqb (a b : uev) : bool :=
  match a, b with
  | UHeader c x, UHeader d y => (c =? d) && Bool.eqb x y
  | URaw n x, URaw m y => Nat.eqb n m && Bool.eqb x y
  | UGzip n x, UGzip m y => Bool.eqb n m && Bool.eqb x y
  | _, _ => false
  end.
Fixpoint uevs_eqb (a b : list uev) : bool :=
  match a, b with [], [] => true | x :: r, y :: r' => uev_eqb x y && uevs_eqb r r' | _, _ => false end.
Definition gz_mismatches (cs : list gzcase) : list Z :=
  map gc_id (filter (fun c => negb (uevs_eqb (accept_encoding (gc_gzip c) (gc_next c)) (gc_obs c))) cs).

(* the property's oracle on the observation alone: a next handler that answers like BasicAuth refusing (WriteHeader of a
   non-2xx status first) is seen on the wire with exactly that status first, never marked gzip, its writes forwarded
   one by one (the wrapper drops later WriteHeader calls, as net/http would; without the wrapper every call arrives); and whatever next does, the status on the wire is the first status next chose (200 if it only wrote) *)
Definition first_status (next : list act) : option Z :=
  match next with [] => None | AHeader c :: _ => Some c | AWrite _ :: _ => Some 200 end.
Definition is_refusal (next : list act) : bool := match next with AHeader c :: _ => negb (ok2xx c) | _ => false end.
Definition no_ce (e : uev) : bool := match e with UHeader _ ce | URaw _ ce | UGzip _ ce => negb ce end.
Definition gz_violations (cs : list gzcase) : list Z :=
  map gc_id (filter (fun c =>
    negb ((match first_status (gc_next c) with
           | Some st => match wire_status (gc_obs c) with Some w => w =? st | None => false end
           | None => match wire_status (gc_obs c) with Some w => w =? 200 | None => true end
           end) &&
          (negb (is_refusal (gc_next c)) ||
           (forallb no_ce (gc_obs c) &&
            uevs_eqb (gc_obs c)
              (map direct (if gc_gzip c
                           then match gc_next c with
                                | a :: r => a :: filter (fun x => match x with AWrite _ => true | _ => false end) r
                                | [] => []
                                end
                           else gc_next c)))))) cs).
