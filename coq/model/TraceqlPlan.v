(* Transcription of the TraceQL -> ClickHouse planners:
     reader/traceql/transpiler/clickhouse_transpiler/{planner.go, experssion_planner.go,
       expression_planner_simple.go, expression_planner_complex.go, attr_condition.go, attrless.go,
       aggregator.go, complex_and.go, complex_or.go, index_groupby.go, index_limit.go, init.go,
       traces_data.go, shared.go, select_tags_planner.go, select_values_planner.go,
       all_values_request_planner.go}
   [plan q mode c n] is the statement that the n-th call of Process (n >= 1) on the planner
   returned by Plan / PlanTagsV2 / PlanValuesV2 builds under the planner context c, or the error,
   or a Go panic.  ComplexRequestProcessor calls Process once per portion on the same planner
   object; AttrConditionPlanner caches sqlConds / where after the first call (same values every
   time), so the n-th statement differs from the first only through the context.  What the code
   does is transcribed, including what is wrong with it.

   Executable definitions only. *)
From Coq Require Import List ZArith String Ascii Bool.
From Qryn Require Import model.TqSql model.Traceql.
Import ListNotations.
Open Scope string_scope.

(* shared.PlannerContext, the fields the TraceQL planners read *)
Record ctx := {
  from_ns : Z; to_ns : Z;
  from_date : string; to_date : string;     (* ctx.From/To .Format("2006-01-02") *)
  ffd_from : string; ffd_to : string;       (* clickhouse_planner.FormatFromDate(ctx.From/To) *)
  limit : Z; is_cluster : bool;
  rf_max : Z; rf_i : Z; cached : list string;
  attrs_table : string; attrs_dist_table : string; traces_table : string; traces_dist_table : string;
  kv_dist_table : string
}.

Inductive perr :=
 | EUnsupportedAttr        (* "unsupported attribute %s" *)
 | EUnsupportedStmt        (* "unsupported statement `%s`" *)
 | ENotSupportedOp         (* shared.NotSupportedError "not supported operator: " *)
 | ENotTimeValue           (* "%s is not a time duration value (%s)" *)
 | EBadDuration            (* error of time.ParseDuration *)
 | EBadNumber              (* error of strconv.ParseFloat *)
 | EUnquote                (* error of json.Unmarshal in Unquote *)
 | EComplexNotSupported    (* "complex requests `{} || {} ...` are not supported" *)
 | EEmptySelAgg            (* "requests like `{} | ....` are not supported" *)
 | EEmptySelOr             (* "requests like `{} || .....` are not supported" *)
 | EOrEmptySel             (* "requests like `... || {}` are not supported" *)
 | EAggNoAttr.             (* "requests like `{...} | avg() ...` are not supported: the aggregated attribute is missing" *)

Inductive result (A : Type) := Ok (a : A) | Err (e : perr) | Panic.
Arguments Ok {A}. Arguments Err {A}. Arguments Panic {A}.
Definition bind {A B} (r : result A) (f : A -> result B) : result B :=
  match r with Ok a => f a | Err e => Err e | Panic => Panic end.
Notation "'do' x <- r ; k" := (bind r (fun x => k)) (at level 200, x pattern, r at level 100, k at level 200).

Fixpoint map_res {A B} (f : A -> result B) (l : list A) : result (list B) :=
  match l with
  | [] => Ok []
  | x :: r => do y <- f x; do ys <- map_res f r; Ok (y :: ys)
  end.

(* ---------------------------------------------------------------- shared.go *)
(* getComparisonFn *)
Definition comparison_fn (c : cmp) : result lop :=
  match c with
  | CEq => Ok OEq | CGt => Ok OGt | CLt => Ok OLt | CGe => Ok OGe | CLe => Ok OLe | CNeq => Ok ONeq
  | CRe | CNre => Err ENotSupportedOp
  end.

(* ---------------------------------------------------------------- init.go *)
Definition window (c : ctx) : list expr :=
  [LOp OGe [Id "date"; StrV (from_date c)];
   LOp OLe [Id "date"; StrV (to_date c)];
   LOp OGe [Id "traces_idx.timestamp_ns"; IntV (from_ns c)];
   LOp OLt [Id "traces_idx.timestamp_ns"; IntV (to_ns c)]].

(* InitIndexPlanner.Process (NewInitIndexPlanner(false): the non-dist table) *)
Definition init_index (c : ctx) : select :=
  Sel [] false
      [Col (Id "trace_id") "trace_id"; Col (Id "span_id") "span_id";
       Col (Fn FAny [Id "duration"]) "duration"; Col (Fn FAny [Id "timestamp_ns"]) "timestamp_ns"]
      (Some (Col (Id (attrs_table c)) "traces_idx")) []
      None (Some (LOp OAnd [LOp OAnd (window c)])) None
      [Id "trace_id"; Id "span_id"] [Ord (Id "timestamp_ns") true] None.

(* ---------------------------------------------------------------- attr_condition.go *)
Definition is_indexed_label (l : string) : bool :=      (* the test of maybeCreateWhere *)
  has_prefix "span." l || has_prefix "resource." l || has_prefix "." l || String.eqb l "name".

Definition key_clause (key : string) : expr := LOp OEq [Id "key"; StrV key].

(* getTermNum *)
Definition get_term_num (t : attr_sel) (key : string) : result expr :=
  do fn <- match a_op t with
           | CEq => Ok OEq | CNeq => Ok ONeq | CGt => Ok OGt | CLt => Ok OLt | CGe => Ok OGe | CLe => Ok OLe
           | CRe | CNre => Err ENotSupportedOp
           end;
  match num_text (a_val t) with
  | Some txt =>
      Ok (LOp OAnd [key_clause key;
                    LOp OEq [Fn FIsNotNull [Fn FToFloat64OrNull [Id "val"]]; IntV 1];
                    LOp fn [Fn FToFloat64OrZero [Id "val"]; FloatV txt]])
  | None => Err EBadNumber
  end.

(* getTermStr (getString: Unquote of the quoted token) *)
Definition get_term_str (t : attr_sel) (key : string) : result expr :=
  match a_op t with
  | CEq | CNeq | CRe | CNre =>
      match unquoted (a_val t) with
      | Some s =>
          Ok (LOp OAnd [key_clause key;
                        match a_op t with
                        | CEq => LOp OEq [Id "val"; StrV s]
                        | CNeq => LOp ONeq [Id "val"; StrV s]
                        | CRe => LOp OEq [MatchRe (Id "val") s; IntV 1]
                        | _ => LOp OEq [MatchRe (Id "val") s; IntV 0]
                        end])
      | None => Err EUnquote
      end
  | _ => Err ENotSupportedOp
  end.

(* getTermDuration *)
Definition get_term_duration (t : attr_sel) : result expr :=
  if String.eqb (v_time (a_val t)) "" then Err ENotTimeValue else
  match dur_ns (a_val t) with
  | None => Err EBadDuration
  | Some ns => do fn <- comparison_fn (a_op t); Ok (LOp fn [Id "traces_idx.duration"; IntV ns])
  end.

(* the key of a term: label without its scope prefix; None = duration; error otherwise *)
Definition strip_scope (l : string) : option string :=
  if has_prefix "span." l then Some (drop 5 l)
  else if has_prefix "resource." l then Some (drop 9 l)
  else if has_prefix "." l then Some (drop 1 l)
  else None.

(* getTerm *)
Definition get_term (t : attr_sel) : result expr :=
  let l := a_label t in
  match strip_scope l with
  | Some key =>
      match v_str (a_val t) with
      | Some _ => get_term_str t key
      | None => if negb (String.eqb (v_f (a_val t)) "") then get_term_num t key else Err EUnsupportedStmt
      end
  | None =>
      if String.eqb l "duration" then get_term_duration t
      else if String.eqb l "name" then
        match v_str (a_val t) with
        | Some _ => get_term_str t "name"
        | None => if negb (String.eqb (v_f (a_val t)) "") then get_term_num t "name" else Err EUnsupportedStmt
        end
      else Err EUnsupportedAttr
  end.

(* planner.go: type condition.  Go keeps op as a string; getCond only asks whether it is "&&" *)
Inductive condition := CTerm (idx : nat) | CBin (op : andor) (l r : condition).

(* int64(1) << idx *)
Definition shl64 (idx : nat) : Z :=
  let v := Z.modulo (2 ^ Z.of_nat idx) (2 ^ 64) in
  if Z.ltb v (2 ^ 63) then v else v - 2 ^ 64.

(* getCond; the flag is a.isAliased: the first leaf visited carries the groupBitOr(...) as bsCond,
   the later ones refer to the alias *)
Fixpoint get_cond (sql_conds : list expr) (c : condition) (aliased : bool) : expr * bool :=
  match c with
  | CTerm idx =>
      let left := if aliased then Id "bsCond" else GroupBitOr (BitSet sql_conds) "bsCond" in
      (LOp ONeq [BitAnd left (IntV (shl64 idx)); IntV 0], true)
  | CBin op l r =>
      let '(el, a1) := get_cond sql_conds l aliased in
      let '(er, a2) := get_cond sql_conds r a1 in
      (LOp (match op with AOAnd => OAnd | _ => OOr end) [el; er], a2)
  end.

(* the prefix stripping of AttrConditionPlanner.aggregator: three sequential ifs *)
Definition strip_agg (a : string) : string :=
  let a1 := if has_prefix "span." a then drop 5 a else a in
  let a2 := if has_prefix "resource." a1 then drop 9 a1 else a1 in
  if has_prefix "." a2 then drop 1 a2 else a2.

(* AttrConditionPlanner.aggregator: the agg_val column and the WHERE term it adds for this call.
   (Since 0db4639 the planner object is left unchanged by a call: every portion of a complex
   request sees the same attribute; before, the prefix was stripped in place and the where list
   grew on every call.) *)
Definition agg_step (attr : string) : list expr * option expr :=
  if String.eqb attr "" then ([], None)
  else if String.eqb attr "duration" then ([], Some (Col (Fn FToFloat64 [Id "duration"]) "agg_val"))
  else let a' := strip_agg attr in ([key_clause a'], Some (Col (AttrValue a') "agg_val")).

(* holdsWithoutIndexedTerm: can the condition hold for a span none of whose index rows passes a
   key/val test?  Only a `duration` term looks at no key/val.  The key/val pre-filter is applied
   only when this is false (47905ca): otherwise a span matching through a duration term alone
   would lose all its rows. *)
Fixpoint holds_without_indexed (terms : list attr_sel) (c : condition) : bool :=
  match c with
  | CTerm idx => match nth_error terms idx with Some t => String.eqb (a_label t) "duration" | None => false end
  | CBin AOAnd l r => holds_without_indexed terms l && holds_without_indexed terms r
  | CBin _ l r => holds_without_indexed terms l || holds_without_indexed terms r
  end.

Definition random_filter (c : ctx) : list expr :=
  let h := LOp OEq [Bin BMod (Fn FCityHash64 [Id "trace_id"]) (NumLit (string_of_Z (rf_max c))); IntV (rf_i c)] in
  if Z.eqb (rf_max c) 0 then []
  else match cached c with
       | [] => [h]
       | ids => [LOp OOr [h; InE (Id "trace_id") (map (fun t => Fn FUnhex [RawStr t]) ids)]]
       end.

(* AttrConditionPlanner.Process, n-th call *)
Definition attr_condition (c : ctx) (terms : list attr_sel) (cond : option condition) (agg_attr : string) (n : nat)
  : result select :=
  let main := init_index c in
  do sql_conds <- map_res get_term terms;                       (* maybeCreateWhere *)
  let where0 := map snd (filter (fun p => is_indexed_label (a_label (fst p))) (combine terms sql_conds)) in
  match cond with
  | None => Panic                                               (* getCond(nil): nil dereference *)
  | Some cd =>
    let '(having, _) := get_cond sql_conds cd false in
    let '(extra, aggcol) := agg_step agg_attr in
    let main1 := match aggcol with Some col => set_cols (s_cols main ++ [col]) main | None => main end in
    let wh := (where0 ++ extra)%list in
    (* no WHERE clause for an empty term list (defect 6: it printed "and ()"), none when a span can
       match without passing it *)
    let main2 := match wh with
                 | [] => and_having [having] main1
                 | _ => if holds_without_indexed terms cd then and_having [having] main1
                        else and_where [LOp OOr wh] (and_having [having] main1)
                 end in
    Ok (match random_filter c with [] => main2 | f => and_where f main2 end)
  end.

(* ---------------------------------------------------------------- attrless.go *)
Definition attrless (c : ctx) : select :=
  let tt := traces_table c in
  let trace_ids :=
    Sel [] true [Col (Id "trace_id") "trace_id"] (Some (Col (Id tt) "traces")) [] None
        (Some (LOp OAnd [LOp OAnd [LOp OGe [Id "timestamp_ns"; IntV (from_ns c)]; LOp OLe [Id "timestamp_ns"; IntV (to_ns c)]]]))
        None [] [Ord (Id "timestamp_ns") true] (Some (IntV (limit c))) in
  let tsids :=
    Sel [] false [Col (Id "trace_id") "trace_id"; Col (PFn FGroupArray [NumLit "100"] [Id "span_id"]) "span_id"]
        (Some (Col (Id tt) "traces")) [] None
        (Some (LOp OAnd [LOp OAnd [LOp OGe [Id "timestamp_ns"; IntV (from_ns c)]; LOp OLt [Id "timestamp_ns"; IntV (to_ns c)];
                                   InE (Id "trace_id") [WRef "trace_ids"]]]))
        None [Id "trace_id"] [] None in
  let unn :=
    Sel [] false [Col (Id "trace_id") "trace_id"; Col (Id "_span_id") "span_id"] (Some (WRef "trace_and_span_ids"))
        [(JArray, Col (Id "trace_and_span_ids.span_id") "_span_id", None)] None None None [] [] None in
  set_with [("trace_ids", trace_ids); ("trace_and_span_ids", tsids); ("trace_and_span_ids_unnested", unn)]
    (Sel [] false [Col (Id "trace_id") "trace_id"; Col (Id "span_id") "span_id"; Col (Id "duration_ns") "duration";
                   Col (Id "timestamp_ns") "timestamp_ns"]
         (Some (Col (Id tt) "traces")) [] None
         (Some (LOp OAnd [LOp OAnd [LOp OGe [Id "timestamp_ns"; IntV (from_ns c)]; LOp OLt [Id "timestamp_ns"; IntV (to_ns c)];
                                    InE (Tuple [Id "traces.trace_id"; Id "traces.span_id"]) [WRef "trace_and_span_ids_unnested"]]]))
         None [] [Ord (Id "timestamp_ns") true] None).

(* ---------------------------------------------------------------- index_groupby.go *)
Definition index_groupby (prefix : string) (main : select) : select :=
  let a := prefix ++ "index_search" in
  set_with [(a, main)]
    (Sel [] false [Col (Id "trace_id") "trace_id"; Col (PFn FGroupArray [NumLit "100"] [Id "span_id"]) "span_id"]
         (Some (WRef a)) [] None None None [Id "trace_id"]
         [Ord (Fn FMax [Id (a ++ ".timestamp_ns")]) true] None).

(* ---------------------------------------------------------------- aggregator.go *)
Definition agg_expr (fn : aggfn) (prefix : string) : expr :=
  match fn with
  | AgCount => Fn FToFloat64 [Fn FCount [Distinct (Id (prefix ++ "index_search.span_id"))]]
  | AgAvg => Fn FAvgIf [Id "agg_val"; Fn FIsNotNull [Id "agg_val"]]
  | AgMax => Fn FMaxIf [Id "agg_val"; Fn FIsNotNull [Id "agg_val"]]
  | AgMin => Fn FMinIf [Id "agg_val"; Fn FIsNotNull [Id "agg_val"]]
  | AgSum => Fn FSumIf [Id "agg_val"; Fn FIsNotNull [Id "agg_val"]]
  end.

(* FloatVal text of float64(ns) for |ns| < 2^53: the integer itself *)
Definition durf_text (z : Z) : string := string_of_Z z.

(* AggregatorPlanner.cmpVal: the text of sql.NewFloatVal(a.fCmpVal) *)
Definition agg_cmp_text (g : aggregator) : result string :=
  let cv := g_num g ++ g_meas g in
  if String.eqb (g_attr g) "duration" then
    match parse_duration_dec cv with
    | Some (Some z) => Ok (durf_text z)
    | Some None => Err EBadDuration
    | None => match g_durf g with Some s => Ok s | None => Err EBadDuration end
    end
  else
    match fmt_f_dec cv with
    | Some s => Ok s
    | None => match g_ffmt g with Some s => Ok s | None => Err EBadNumber end
    end.

Definition aggregator_planner (g : aggregator) (prefix : string) (main : select) : result select :=
  do fn <- comparison_fn (g_cmp g);
  do txt <- agg_cmp_text g;
  Ok (and_having [LOp fn [agg_expr (g_fn g) prefix; FloatV txt]] main).

(* ---------------------------------------------------------------- expression_planner_simple.go *)
(* analyzeCond with its state: termIdx (the list of distinct terms) and the map terms (key -> index+1) *)
Fixpoint find_key (k : string) (l : list (string * nat)) : option nat :=
  match l with [] => None | (k', i) :: r => if String.eqb k k' then Some i else find_key k r end.

Definition an_state := (list attr_sel * list (string * nat))%type.

Fixpoint analyze_cond (e : attr_exp) (st : an_state) : condition * an_state :=
  match e with
  | AExp h ao tl =>
    let '(res, st1) :=
      match h with
      | HParen e' => analyze_cond e' st
      | HTerm t =>
          let key := attr_sel_string t in
          match find_key key (snd st) with
          | Some i => (CTerm i, st)
          | None => let i := List.length (fst st) in (CTerm i, ((fst st ++ [t])%list, (key, i) :: snd st))
          end
      end in
    match tl with
    | Some t' => let '(r2, st2) := analyze_cond t' st1 in (CBin ao res r2, st2)
    | None => (res, st1)
    end
  end.

Definition analyze (s : selector) : option condition * list attr_sel :=
  match sel_attr s with
  | None => (None, [])
  | Some e => let '(c, st) := analyze_cond e ([], []) in (Some c, fst st)
  end.

(* simpleExpressionPlanner.check *)
Fixpoint all_have_attr (s : script) : bool :=
  match s with
  | Script h _ t' => match sel_attr h with
                     | None => false
                     | Some _ => match t' with None => true | Some s' => all_have_attr s' end
                     end
  end.
Definition tails_have_attr (t : option script) : bool :=
  match t with None => true | Some s => all_have_attr s end.
Definition agg_lacks_attr (h : selector) : bool :=
  match sel_agg h with
  | Some g => match g_fn g with AgCount => false | _ => String.eqb (g_attr g) "" end
  | None => false
  end.
Definition check (s : script) : result unit :=
  match s with
  | Script h _ tl =>
    do _ <- match sel_attr h with
            | None =>
                match sel_agg h with
                | Some _ => Err EEmptySelAgg
                | None => match tl with Some _ => Err EEmptySelOr | None => Ok tt end
                end
            | Some _ => Ok tt
            end;
    if agg_lacks_attr h then Err EAggNoAttr
    else if tails_have_attr tl then Ok tt else Err EOrEmptySel
  end.

Definition agg_attr_of (s : selector) : string := match sel_agg s with Some g => g_attr g | None => "" end.

(* simpleExpressionPlanner.planner() followed by Process, n-th call *)
Definition simple_planner (c : ctx) (s : script) (prefix : string) (n : nat) : result select :=
  do _ <- check s;
  let h := sc_head s in
  let '(cond, terms) := analyze h in
  do main <- match sel_attr h with
             | Some _ => attr_condition c terms cond (agg_attr_of h) n
             | None => Ok (attrless c)
             end;
  let g := index_groupby prefix main in
  match sel_agg h with
  | Some ag => aggregator_planner ag prefix g
  | None => Ok g
  end.

(* ---------------------------------------------------------------- planner.go: planComplex *)
(* the tree of iExpressionPlanner objects; the root holds one operand *)
Inductive ep := EPSimple (s : script) (prefix : string) | EPComplex (prefix : string) (fn : andor) (ops : list ep).

Definition prefix_of (n : Z) : string := "_" ++ string_of_Z n.

(* replace the k-th element of a list *)
Definition upd_nth {A} (f : A -> A) : nat -> list A -> list A :=
  fix go (k : nat) (l : list A) : list A :=
    match l with
    | [] => []
    | x :: xs => match k with O => f x :: xs | S k' => x :: go k' xs end
    end.

(* addOp at the node reached by a path of operand indices (simple nodes ignore addOp) *)
Fixpoint add_op_at (path : list nat) (node : ep) (t : ep) : ep :=
  match path, t with
  | [], EPComplex p f ops => EPComplex p f (ops ++ [node])
  | [], EPSimple _ _ => t
  | i :: r, EPComplex p f ops => EPComplex p f (upd_nth (add_op_at r node) i ops)
  | _ :: _, EPSimple _ _ => t
  end.
Fixpoint node_at (path : list nat) (t : ep) : option ep :=
  match path, t with
  | [], _ => Some t
  | i :: r, EPComplex _ _ ops => match nth_error ops i with Some x => node_at r x | None => None end
  | _ :: _, EPSimple _ _ => None
  end.

(* cur = None: the root object; Some path: the node at that path below root.operand.
   Result None = Go panic (kept in the type; plan_complex_total shows it cannot happen any more). *)
Fixpoint plan_complex (root : option ep) (cnt : Z) (cur : option (list nat)) (sc : script) : option (option ep * Z) :=
  match sc with
  | Script _ ao tl =>
    let add (node : ep) (r : option ep) : option ep :=
      match cur with
      | None => Some node                                 (* rootExpressionPlanner.addOp *)
      | Some p => match r with Some t => Some (add_op_at p node t) | None => None end
      end in
    (* the last operand of current (the node just added), as a path; None = panic *)
    let last (r : option ep) : option (list nat) :=
      match cur with
      | None => Some []
      | Some p => match r with
                  | Some t => match node_at p t with
                              | Some (EPComplex _ _ ((_ :: _) as ops)) => Some (p ++ [Nat.pred (List.length ops)])%list
                              | _ => None
                              end
                  | None => None
                  end
      end in
    (* an operator with nothing after it: this is the last selector *)
    let ao := match tl with None => AONone | Some _ => ao end in
    match ao with
    | AONone => Some (add (EPSimple sc (prefix_of (cnt + 1))) root, (cnt + 1)%Z)
    | AOAnd =>
        let node := EPComplex (prefix_of (cnt + 1)) AOAnd [EPSimple sc (prefix_of (cnt + 2))] in
        let root1 := add node root in
        match last root1 with
        | Some p' => match tl with
                     | Some s' => plan_complex root1 (cnt + 2)%Z (Some p') s'
                     | None => None                       (* script.AndOr on a nil *TraceQLScript *)
                     end
        | None => None
        end
    | AOOr =>
        let root1 := add (EPSimple sc (prefix_of (cnt + 1))) root in
        match root1 with
        | Some t => match tl with
                    | Some s' => plan_complex (Some (EPComplex (prefix_of (cnt + 2)) AOOr [t])) (cnt + 2)%Z (Some []) s'
                    | None => None
                    end
        | None => None
        end
    end
  end.

(* ---------------------------------------------------------------- complex_and.go / complex_or.go *)
Definition pre_alias (i : nat) : string := "_" ++ string_of_Z (Z.of_nat i) ++ "_pre_".

(* maxTimestampCol: the recency column added to the statement of an operand *)
Definition max_ts_col (nested : option string) : expr :=
  match nested with
  | Some prefix => Col (Fn FMax [Id (prefix ++ "a.max_timestamp_ns")]) "max_timestamp_ns"
  | None => Col (Fn FMax [Id "timestamp_ns"]) "max_timestamp_ns"
  end.

(* one operand: nested = prefix of the operand when it is itself a && / || planner; tagged = && (column _op) *)
Definition wrap_operand (tagged : bool) (i : nat) (o : option string * select) : select :=
  let s := snd o in
  let s' := set_cols (s_cols s ++ [max_ts_col (fst o)]) s in
  let a := pre_alias i in
  set_with [(a, s')]
    (Sel [] false ([Col (Id "trace_id") "trace_id"; Col (Id "_span_id") "span_id"; Col (Id "max_timestamp_ns") "max_timestamp_ns"]
                   ++ (if tagged then [Col (NumLit (string_of_Z (Z.of_nat i))) "_op"] else []))
         (Some (WRef a)) [(JArray, Col (Id (a ++ ".span_id")) "_span_id", None)] None None None [] [] None).

Fixpoint wrap_operands (tagged : bool) (i : nat) (l : list (option string * select)) : list select :=
  match l with [] => [] | s :: r => wrap_operand tagged i s :: wrap_operands tagged (S i) r end.

(* ComplexAndPlanner / ComplexOrPlanner.Process.  Both concatenate their operands (UNION ALL) and group
   by trace; && tags every row with the number of its operand and keeps the traces to which all
   operands contributed (a03a87c; before: INTERSECT of the span rows). *)
Definition complex_select (fn : andor) (prefix : string) (sels : list (option string * select)) : select :=
  let tagged := match fn with AOAnd => true | _ => false end in
  let subs := wrap_operands tagged 0 sels in
  Sel [] false [Col (Id "trace_id") "trace_id"; Col (PFn FGroupUniqArray [NumLit "100"] [Id "span_id"]) "span_id"]
      (Some (Col (Union subs) (prefix ++ "a"))) []
      None None
      (if tagged then Some (LOp OAnd [LOp OEq [Fn FUniqExact [Id "_op"]; IntV (Z.of_nat (List.length sels))]]) else None)
      [Id "trace_id"] [Ord (Fn FMax [Id (prefix ++ "a.max_timestamp_ns")]) true] None.

Definition nested_prefix (t : ep) : option string :=
  match t with EPComplex p _ _ => Some p | EPSimple _ _ => None end.

(* iExpressionPlanner.planner() + Process *)
Fixpoint ep_process (c : ctx) (n : nat) (t : ep) : result select :=
  match t with
  | EPSimple s prefix => simple_planner c s prefix n
  | EPComplex prefix fn ops =>
      do sels <- (fix go (l : list ep) : result (list (option string * select)) :=
                    match l with
                    | [] => Ok []
                    | x :: r => do y <- ep_process c n x; do ys <- go r; Ok ((nested_prefix x, y) :: ys)
                    end) ops;
      match fn with
      | AONone => Panic        (* "unknown operator": not reachable, planComplex only builds && and || nodes *)
      | _ => Ok (complex_select fn prefix sels)
      end
  end.

(* planner() is called before any Process: its errors (check) come first, in operand order *)
Fixpoint ep_check (t : ep) : result unit :=
  match t with
  | EPSimple s _ => check s
  | EPComplex _ _ ops =>
      (fix go (l : list ep) : result unit :=
         match l with [] => Ok tt | x :: r => do _ <- ep_check x; go r end) ops
  end.

(* ---------------------------------------------------------------- index_limit.go / traces_data.go *)
Definition index_limit (c : ctx) (s : select) : select :=
  if Z.eqb (limit c) 0 then s else set_limit (IntV (limit c)) s.

(* both reads of tempo_traces carry the window of the context since fix 87d7e49 *)
Definition traces_data (c : ctx) (main : select) : select :=
  let table := if is_cluster c then traces_dist_table c else traces_table c in
  let trace_ids := Sel [] false [Id "trace_id"] (Some (WRef "index_grouped")) [] None None None [] [] None in
  let trace_span_ids :=
    Sel [] false [Id "trace_id"; Id "span_id"] (Some (WRef "index_grouped")) [(JArray, Id "span_id", None)]
        None None None [] [] None in
  let traces_info :=
    Sel [] false
        [Col (Id "traces.trace_id") "trace_id";
         Col (Fn FMin [Id "traces.timestamp_ns"]) "_start_time_unix_nano";
         Col (Bin BDiv (Fn FToFloat64 [Bin BSub (Fn FMax [Bin BAdd (Id "traces.timestamp_ns") (Id "traces.duration_ns")])
                                                (Fn FMin [Id "traces.timestamp_ns"])])
                       (NumLit "1000000")) "_duration_ms";
         Col (Fn FArgMin [Id "traces.service_name"; Id "traces.timestamp_ns"]) "_root_service_name";
         Col (Fn FArgMin [Id "traces.name"; Id "traces.timestamp_ns"]) "_root_trace_name"]
        (Some (Col (Id (traces_table c)) "traces")) [] None
        (Some (LOp OAnd [InE (Id "traces.trace_id") [WRef "trace_ids"];
                         LOp OGe [Id "traces.timestamp_ns"; IntV (from_ns c)];
                         LOp OLt [Id "traces.timestamp_ns"; IntV (to_ns c)]])) None
        [Id "traces.trace_id"] [] None in
  set_with [("index_grouped", main); ("trace_ids", trace_ids); ("trace_span_ids", trace_span_ids); ("traces_info", traces_info)]
    (Sel [] false
         [Col (Fn FLower [Fn FHex [Id "traces.trace_id"]]) "trace_id";
          Col (Fn FArrayMap [Lambda "x" (Fn FLower [Fn FHex [Id "x"]]); Fn FGroupArray [Id "traces.span_id"]]) "span_id";
          Col (Fn FGroupArray [Id "traces.duration_ns"]) "duration";
          Col (Fn FGroupArray [Id "traces.timestamp_ns"]) "timestamp_ns";
          Col (Fn FMin [Id "_start_time_unix_nano"]) "start_time_unix_nano";
          Col (Fn FMin [Id "_duration_ms"]) "duration_ms";
          Col (Fn FMin [Id "_root_service_name"]) "root_service_name";
          Col (Fn FMin [Id "_root_trace_name"]) "root_trace_name"]
         (Some (Col (Id table) "traces"))
         [(JAnyLeft, WRef "traces_info", Some (LOp OEq [Id "traces.trace_id"; Id "traces_info.trace_id"]))]
         None
         (Some (LOp OAnd [InE (Id "traces.trace_id") [WRef "trace_ids"];
                          InE (Tuple [Id "traces.trace_id"; Id "traces.span_id"]) [WRef "trace_span_ids"];
                          LOp OGe [Id "traces.timestamp_ns"; IntV (from_ns c)];
                          LOp OLt [Id "traces.timestamp_ns"; IntV (to_ns c)]]))
         None [Id "traces.trace_id"] [Ord (Id "start_time_unix_nano") true] None).

(* ---------------------------------------------------------------- planner.plan() *)
(* the statement of the index part: what becomes the CTE index_grouped *)
Definition plan_index (q : script) (c : ctx) (n : nat) : result select :=
  match sc_tail q with
  | None => do s <- simple_planner c q "" n; Ok (index_limit c s)
  | Some _ =>
      match plan_complex None 0 None q with
      | None => Panic
      | Some (None, _) => Panic
      | Some (Some t, _) => do _ <- ep_check t; do s <- ep_process c n t; Ok (index_limit c s)
      end
  end.

Definition plan_search (q : script) (c : ctx) (n : nat) : result select :=
  do s <- plan_index q c n; Ok (index_limit c (traces_data c s)).

(* ---------------------------------------------------------------- tags / values *)
Definition select_tags (c : ctx) (main : select) : select :=
  let pre := Sel [] false [Id "span_id"] (Some (WRef "select_spans")) [] None None None [] [] None in
  let res :=
    set_with [("select_spans", main); ("pre_select_tags", pre)]
      (Sel [] false [Col (Id "key") "key"] (Some (Col (Id (attrs_dist_table c)) "traces_idx")) [] None
           (Some (LOp OAnd [LOp OAnd (window c ++ [InE (Id "span_id") [WRef "pre_select_tags"]])])) None
           [Id "trace_id"; Id "span_id"] [] None) in
  if Z.ltb 0 (limit c) then set_limit (IntV (limit c)) (set_order [Ord (Id "key") false] res) else res.

Definition select_values (c : ctx) (key : string) (main : select) : select :=
  let m := and_where [LOp OEq [Id "key"; StrV key]] (set_cols [Col (Id "val") "val"] (select_tags c main)) in
  if Z.ltb 0 (limit c) then set_limit (IntV (limit c)) (set_order [Ord (Id "val") false] m) else m.

Definition all_values (c : ctx) (key : string) : select :=
  Sel [] true [Col (Id "val") "val"] (Some (Id (kv_dist_table c))) [] None
      (Some (LOp OAnd [LOp OGe [Id "date"; StrV (ffd_from c)]; LOp OLe [Id "date"; StrV (to_date c)];
                       LOp OEq [Id "key"; StrV key]])) None [] [] None.

Inductive mode := MSearch | MTags | MValues (key : string).

Definition plan (q : script) (m : mode) (c : ctx) (n : nat) : result select :=
  match m with
  | MSearch => plan_search q c n
  | MTags =>
      match sc_tail q with
      | Some _ => Err EComplexNotSupported
      | None =>
          do _ <- check q;
          let '(cond, terms) := analyze (sc_head q) in
          do main <- attr_condition c terms cond (agg_attr_of (sc_head q)) n;
          Ok (select_tags c main)
      end
  | MValues key =>
      match sc_tail q with
      | Some _ => Err EComplexNotSupported
      | None =>
          do _ <- check q;
          let '(cond, terms) := analyze (sc_head q) in
          match cond with
          | None => Ok (all_values c key)
          | Some _ =>
              do main <- attr_condition c terms cond (agg_attr_of (sc_head q)) n;
              Ok (select_values c key main)
          end
      end
  end.
