(* C12 -- the database/sql CONNECTION POOL as a resource of the read side.

   Part 1 (pool): requests are threads over a pool of `cap` connections (max_open_connection). A statement
   (QueryCtx) asks the pool for a connection and blocks in database/sql (DB.conn) while none is free; the connection
   stays with the *sql.Rows until the result set is closed (rows.Close()) or read to its end (rows.Next() = false).
   A request that asks for a connection while a result set of its own is still open holds and waits: with the pool
   exhausted by requests doing the same, nobody ever gets the second connection (seeded change C12-f).

   Part 2 (flows): the control-flow model of a Go function body with respect to ONE result-set variable (or one channel
   variable fed by a goroutine that holds a result set), generated from reader/ by translate/goinv_reader
   (gen/GenGoroutinesReader.v: reader_conn_flows). `cexec` is the set of paths through a body, `cpost` the executable
   analysis; proofs/ReadConnProofs.v shows: a body that passes cbody_ok has no path on which a connection is asked for
   (a statement of its own, or a call of a function that may issue one) while the variable holds one. *)
From Coq Require Import List Bool Arith String.
Import ListNotations.

(* ------------------------------------------------------------------ Part 1: the pool *)
Inductive kop :=
| KAcq     (* ask the pool for a connection (QueryCtx): blocks while none is free *)
| KRel     (* give one back (rows.Close(), rows.Next() = false, the goroutine reading the rows returns) *)
| KWork.   (* anything else *)

(* a thread: connections it holds, what it still does *)
Definition kthread := (nat * list kop)%type.
Definition kheld (ts : list kthread) : nat := fold_right (fun t n => fst t + n) 0 ts.

Inductive kstep1 (cap : nat) (others : nat) : kthread -> kthread -> Prop :=
| KSAcq : forall h p, others + h < cap -> kstep1 cap others (h, KAcq :: p) (S h, p)
| KSRel : forall h p, kstep1 cap others (h, KRel :: p) (pred h, p)
| KSWork : forall h p, kstep1 cap others (h, KWork :: p) (h, p).

Inductive kstep (cap : nat) : list kthread -> list kthread -> Prop :=
| KStep : forall pre t t' post, kstep1 cap (kheld pre + kheld post) t t' -> kstep cap (pre ++ t :: post) (pre ++ t' :: post).

(* the discipline: a connection is asked for only by a thread that holds none, and a thread ends holding none *)
Fixpoint kn_ok (h : nat) (p : list kop) : bool :=
  match p with
  | [] => Nat.eqb h 0
  | KAcq :: q => Nat.eqb h 0 && kn_ok 1 q
  | KRel :: q => kn_ok (pred h) q
  | KWork :: q => kn_ok h q
  end.

Definition kt_ok (t : kthread) : bool := kn_ok (fst t) (snd t).
Definition kfinished (t : kthread) : bool := match snd t with [] => true | _ => false end.
Definition kmeasure (ts : list kthread) : nat := fold_right (fun t n => List.length (snd t) + n) 0 ts.

(* the request of the seeded change C12-f: the complexity statement, then (its rows still open) the first statement of the
   complex processor, closes afterwards; and the request as the code is: rows read to the end first *)
Definition k_hold_and_wait : list kop := [KAcq; KWork; KAcq; KRel; KWork; KRel].
Definition k_one_at_a_time : list kop := [KAcq; KWork; KRel; KAcq; KWork; KRel].


(* ------------------------------------------------------------------ Part 2: flows *)
Inductive cst := Free | Held | Lent.
(* Free: the variable holds no connection. Held: an open result set (this frame must close it / read it to the end / hand it
   on). Lent: the result set is with a goroutine that reads it and sends on a channel: the connection comes back when the
   channel has been read until it is closed. *)

Inductive lkind :=
| LPlain   (* any other for / range loop *)
| LRows    (* for rows.Next() { .. }: leaving because Next() = false gives the connection back *)
| LDrain.  (* for x := range ch { .. } over the channel of a lending call: leaving because ch is closed = the goroutine is through *)

Inductive cstmt :=
| CSkip
| CSeq (a b : cstmt)
| CAcq              (* rows, err := X.QueryCtx(..) into the variable: needs a connection; on success the variable holds it *)
| CRel              (* rows.Close() (idempotent) *)
| CAsk              (* a statement into another variable / a call of a function that may issue a statement: needs a connection *)
| CCallL            (* ch, err := f(..), f may issue a statement and returns a channel: needs a connection; the goroutine feeding ch holds it *)
| CHand             (* go func(){ .. rows .. }(): the result set goes to a goroutine *)
| CGiveUp           (* the function is about to return a non-nil error: the request is over, net/http cancels its context and
                       database/sql takes the connection back (Rows.awaitDone) -- the callers are assumed not to go on *)
| COther            (* anything else (defer rows.Close() included: it acts when the function is left) *)
| CReturn
| CBreak
| CContinue
| CJump             (* goto, labelled break / continue, fallthrough: not analysed (the check fails) *)
| CIf (a b : cstmt)
| CLoop (k : lkind) (b : cstmt)
| CSwitch (b : cstmt).

Inductive coutcome := CONormal | COBreak | COContinue | COReturn
| COWait    (* a connection is asked for while the variable holds one: hold and wait *)
| COJump.

Definition is_free (s : cst) : bool := match s with Free => true | _ => false end.
Definition after_close (s : cst) : cst := match s with Held => Free | x => x end.
Definition after_hand (s : cst) : cst := match s with Held => Lent | x => x end.
Definition exit_of (k : lkind) (s : cst) : cst :=
  match k, s with
  | LRows, Held => Free
  | LDrain, Lent => Free
  | _, x => x
  end.

Inductive cexec : cstmt -> cst -> coutcome -> cst -> Prop :=
| CESkip : forall s, cexec CSkip s CONormal s
| CESeqN : forall a b s s1 o s2, cexec a s CONormal s1 -> cexec b s1 o s2 -> cexec (CSeq a b) s o s2
| CESeqX : forall a b s o s1, cexec a s o s1 -> o <> CONormal -> cexec (CSeq a b) s o s1
| CEAcq : cexec CAcq Free CONormal Held
| CEAcqRefused : cexec CAcq Free CONormal Free          (* the statement fails: no result set *)
| CEAcqWait : forall s, is_free s = false -> cexec CAcq s COWait s
| CERel : forall s, cexec CRel s CONormal (after_close s)
| CEAsk : cexec CAsk Free CONormal Free
| CEAskWait : forall s, is_free s = false -> cexec CAsk s COWait s
| CECallL : cexec CCallL Free CONormal Lent
| CECallLRefused : cexec CCallL Free CONormal Free
| CECallLWait : forall s, is_free s = false -> cexec CCallL s COWait s
| CEHand : forall s, cexec CHand s CONormal (after_hand s)
| CEGiveUp : forall s, cexec CGiveUp s CONormal Free
| CEOther : forall s, cexec COther s CONormal s
| CEReturn : forall s, cexec CReturn s COReturn s
| CEBreak : forall s, cexec CBreak s COBreak s
| CEContinue : forall s, cexec CContinue s COContinue s
| CEJump : forall s, cexec CJump s COJump s
| CEIfL : forall a b s o s1, cexec a s o s1 -> cexec (CIf a b) s o s1
| CEIfR : forall a b s o s1, cexec b s o s1 -> cexec (CIf a b) s o s1
| CELoop0 : forall k b s, cexec (CLoop k b) s CONormal (exit_of k s)
| CELoopNext : forall k b s o s1 o2 s2, cexec b s o s1 -> (o = CONormal \/ o = COContinue) ->
    cexec (CLoop k b) s1 o2 s2 -> cexec (CLoop k b) s o2 s2
| CELoopBreak : forall k b s s1, cexec b s COBreak s1 -> cexec (CLoop k b) s CONormal s1
| CELoopExit : forall k b s o s1, cexec b s o s1 -> (o = COReturn \/ o = COWait \/ o = COJump) ->
    cexec (CLoop k b) s o s1
| CESwitchBreak : forall b s s1, cexec b s COBreak s1 -> cexec (CSwitch b) s CONormal s1
| CESwitch : forall b s o s1, cexec b s o s1 -> o <> COBreak -> cexec (CSwitch b) s o s1.

(* ------------------------------------------------------------------ the analysis: sets of states per outcome *)
Definition ceqb (a b : cst) : bool :=
  match a, b with Free, Free | Held, Held | Lent, Lent => true | _, _ => false end.
Definition cmem (x : cst) (l : list cst) : bool := existsb (ceqb x) l.
Definition csubset (a b : list cst) : bool := forallb (fun x => cmem x b) a.
Fixpoint cdedup (l : list cst) : list cst :=
  match l with [] => [] | x :: tl => let r := cdedup tl in if cmem x r then r else x :: r end.

Record cres := mkCRes { cr_n : list cst; cr_b : list cst; cr_c : list cst; cr_r : list cst; cr_bad : bool }.
Definition mkCR (n b c r : list cst) (bad : bool) : cres := mkCRes (cdedup n) (cdedup b) (cdedup c) (cdedup r) bad.

Definition csel (o : coutcome) (r : cres) : list cst :=
  match o with CONormal => cr_n r | COBreak => cr_b r | COContinue => cr_c r | COReturn => cr_r r | _ => [] end.

Definition some_not_free (X : list cst) : bool := existsb (fun s => negb (is_free s)) X.

Definition cloop_rounds : nat := 3.
Fixpoint citer (f : list cst -> list cst) (k : nat) (Y : list cst) : list cst :=
  match k with O => Y | S k' => citer f k' (f Y) end.

Fixpoint cpost (s : cstmt) (X : list cst) : cres :=
  match s with
  | CSkip | COther => mkCR X [] [] [] false
  | CSeq a b => let ra := cpost a X in let rb := cpost b (cr_n ra) in
      mkCR (cr_n rb) (cr_b ra ++ cr_b rb) (cr_c ra ++ cr_c rb) (cr_r ra ++ cr_r rb) (cr_bad ra || cr_bad rb)
  | CAcq => mkCR (match X with [] => [] | _ => [Held; Free] end) [] [] [] (some_not_free X)
  | CRel => mkCR (map after_close X) [] [] [] false
  | CAsk => mkCR X [] [] [] (some_not_free X)
  | CCallL => mkCR (match X with [] => [] | _ => [Lent; Free] end) [] [] [] (some_not_free X)
  | CHand => mkCR (map after_hand X) [] [] [] false
  | CGiveUp => mkCR (map (fun _ => Free) X) [] [] [] false
  | CReturn => mkCR [] [] [] X false
  | CBreak => mkCR [] X [] [] false
  | CContinue => mkCR [] [] X [] false
  | CJump => mkCR [] [] [] [] true
  | CIf a b => let ra := cpost a X in let rb := cpost b X in
      mkCR (cr_n ra ++ cr_n rb) (cr_b ra ++ cr_b rb) (cr_c ra ++ cr_c rb) (cr_r ra ++ cr_r rb) (cr_bad ra || cr_bad rb)
  | CLoop k b =>
      let inv := citer (fun Y => let r := cpost b Y in cdedup (Y ++ cr_n r ++ cr_c r)) cloop_rounds X in
      let r := cpost b inv in
      mkCR (map (exit_of k) inv ++ cr_b r) [] [] (cr_r r)
           (cr_bad r || negb (csubset X inv) || negb (csubset (cr_n r ++ cr_c r) inv))
  | CSwitch b => let r := cpost b X in mkCR (cr_n r ++ cr_b r) [] (cr_c r) (cr_r r) (cr_bad r)
  end.

(* a body passes: no path asks while holding, nothing unanalysed, no break / continue outside a loop *)
Definition cbody_ok (body : cstmt) : bool :=
  let r := cpost body [Free] in
  negb (cr_bad r) && match cr_b r, cr_c r with [], [] => true | _, _ => false end.

(* ... and what the variable may still hold when the body is left (return / falling off the end) -- the caller does not see
   it: nothing; an open result set only if a `defer <var>.Close()` is registered (held_ok); a lent one only if the
   function returns a channel, so that the call is a lending call in its callers' flows (lent_ok) *)
Definition exit_state_ok (held_ok lent_ok : bool) (s : cst) : bool :=
  match s with Free => true | Held => held_ok | Lent => lent_ok end.
Definition cexit_ok (held_ok lent_ok : bool) (body : cstmt) : bool :=
  let r := cpost body [Free] in
  forallb (exit_state_ok held_ok lent_ok) (cr_n r) && forallb (exit_state_ok held_ok lent_ok) (cr_r r).

(* ------------------------------------------------------------------ generated inventory *)
Inductive ckind := CKRows | CKChan.
Record cflow := { cf_file : string; cf_func : string; cf_unit : nat (* 0 = the declaration, n = its n-th function literal *);
                  cf_var : string; cf_kind : ckind;
                  cf_deferred_close : bool (* the unit registers `defer <var>.Close()` *);
                  cf_returns_chan : bool (* the unit's function returns a channel *);
                  cf_body : cstmt }.

(* bodies that can be left with the variable still holding a connection its caller does not know about, reviewed: each is a
   return that ENDS the request (the handler returns, net/http cancels the context, database/sql takes the connection back):
   - Trace leaves its loop only if json.Marshal of a span fails (handler-loop allow-list of round 1);
   - TagsV2 / ValuesV2: `if .. { cRes, err = A() } else { cRes, err = B() }; if err != nil { return }` -- the error check is
     not next to the call, so the analysis cannot tell that the error branch runs only when nothing was lent;
   - (CLokiQuerier.Select was on this list until the end of the third session, with the argument "it returns a SeriesSet
     carrying the Scan error, the engine ends the query". The argument was wrong: populateSeries goes on to the NEXT selector
     of the expression before the query ends, so the request asked for a second connection while the first was still held
     - with a pool of one, a hang for ever, found by the thorough tier (replay: corpus/C12/fixed_defects.jsonl). Repaired in
     /repo by `defer rows.Close()`; the flow now passes cexit_ok by itself.)
   - the tail goroutine returns at a failed tick after onErr (the session ends: TailSession.v). *)
Definition exit_reviewed : list (string * string * nat * string) := [
  ("controller/tempoController.go", "(*TempoController).Trace", 0, "res");
  ("controller/tempoController.go", "(*TempoController).TagsV2", 0, "cRes");
  ("controller/tempoController.go", "(*TempoController).ValuesV2", 0, "cRes");
  ("service/queryRangeService.go", "(*QueryRangeService).Tail", 1, "out")
]%string%nat.
Definition cf_is (f : cflow) (a : string * string * nat * string) : bool :=
  let '(fl, fn, u, v) := a in String.eqb (cf_file f) fl && String.eqb (cf_func f) fn && Nat.eqb (cf_unit f) u && String.eqb (cf_var f) v.
Definition exit_is_reviewed (f : cflow) : bool := existsb (cf_is f) exit_reviewed.

Definition cflow_ok (f : cflow) : bool :=
  cbody_ok (cf_body f) && (exit_is_reviewed f || cexit_ok (cf_deferred_close f) (cf_returns_chan f) (cf_body f)).
(* a reviewed entry must name a flow that exists and does fail the exit check *)
Definition stale_exit_reviews (fs : list cflow) : list (string * string * nat * string) :=
  filter (fun a => negb (existsb (fun f => cf_is f a && negb (cexit_ok (cf_deferred_close f) (cf_returns_chan f) (cf_body f))) fs)) exit_reviewed.
Definition cflows_ok (fs : list cflow) : bool := forallb cflow_ok fs.
Definition failing_cflows (fs : list cflow) : list (string * string * nat * string) :=
  map (fun f => (cf_file f, cf_func f, cf_unit f, cf_var f)) (filter (fun f => negb (cflow_ok f)) fs).

Fixpoint count_cacq (s : cstmt) : nat :=
  match s with
  | CAcq => 1
  | CSeq a b | CIf a b => count_cacq a + count_cacq b
  | CLoop _ b | CSwitch b => count_cacq b
  | _ => 0
  end.
Definition rows_flows (fs : list cflow) : list cflow := filter (fun f => match cf_kind f with CKRows => true | _ => false end) fs.
Definition total_cacq (fs : list cflow) : nat := fold_right (fun f n => count_cacq (cf_body f) + n) 0 (rows_flows fs).

(* every statement site of the reader (a call of QueryCtx / QueryContext / Queryx on anything) and whether its result set is
   bound to a variable that has a flow; sites that are not (the wrapper's own forwarding `return s.DB.QueryContext(..)`
   style: the result set goes straight to the caller, whose variable has the flow) are reviewed here *)
Record qsite := { q_file : string; q_func : string; q_bound : bool }.
Definition unbound_reviewed : list (string * string) := [
  ("utils/dsn/sqlxWrap.go", "(*StableSqlxDBWrapper).QueryCtx")
]%string.
Definition qsite_ok (q : qsite) : bool :=
  q_bound q || existsb (fun a => String.eqb (q_file q) (fst a) && String.eqb (q_func q) (snd a)) unbound_reviewed.
Definition unaccounted_qsites (qs : list qsite) : list (string * string) :=
  map (fun q => (q_file q, q_func q)) (filter (fun q => negb (qsite_ok q)) qs).
Definition bound_sites (qs : list qsite) : nat := List.length (filter q_bound qs).

(* lending calls whose channel is neither bound to a variable nor returned to the caller as it is: (file, function) reviewed *)
Definition untracked_lend_reviewed : list (string * string) := []%string.
Definition unaccounted_lends (ls : list (string * string)) : list (string * string) :=
  filter (fun l => negb (existsb (fun a => String.eqb (fst l) (fst a) && String.eqb (snd l) (snd a)) untracked_lend_reviewed)) ls.

Definition conn_inventory_ok (fs : list cflow) (qs : list qsite) (ls : list (string * string)) : bool :=
  cflows_ok fs && match unaccounted_qsites qs with [] => true | _ => false end &&
  Nat.eqb (total_cacq fs) (bound_sites qs) && match unaccounted_lends ls with [] => true | _ => false end &&
  match stale_exit_reviews fs with [] => true | _ => false end.
