(* C10 — the segmented renderer applied to the trees of the LogQL planner model (model/LogqlPlan.v, tied byte for
   byte to the real planners by C07/C08): evaluated through the OCaml extraction on the trees planned for hostile
   request strings (checks/c10.py, tree-level tie).  Executable definitions only. *)
From Coq Require Import List ZArith NArith String Ascii Bool.
From Qryn Require Import lib.Strs model.Sql model.SqlRender model.Logql model.LogqlPlan model.LogqlCases model.ChLex model.SqlPieces.
Import ListNotations.
Open Scope string_scope.

(* one executed statement: the value-independent check on its segmented text, the text, and what SqlRender prints *)
Record pstmt := { ps_ok : bool; ps_pieces : rtext; ps_flat : string; ps_render : option string }.

Fixpoint run_plan_pieces (k : nat) (p : planner) (c : pctx) (st : pst) : list (option pstmt) :=
  match k with
  | O => []
  | S k' =>
    match process p c st with
    | None => [None]
    | Some (q, st', p') =>
      (match pieces q (c_cluster c) with
       | Some t => Some {| ps_ok := pok QN t; ps_pieces := t; ps_flat := flat t; ps_render := render q (c_cluster c) |}
       | None => None
       end) :: run_plan_pieces k' p' (advance c) st'
    end
  end.

Definition log_pieces (sel : strsel) (finalize : bool) (c : pctx) (runs : nat) : list (option pstmt) :=
  match plan_log sel finalize with
  | None => [None]
  | Some p => run_plan_pieces runs p c pst0
  end.

Definition script_pieces (s : script) (finalize : bool) (c : pctx) (runs : nat) : list (option pstmt) :=
  match plan_script s finalize with
  | None => [None]
  | Some p => run_plan_pieces runs p c pst0
  end.
