(* C01: the parsers' READ of the announcement cache (maybeAddFp = !fpCache.Has, writer/utils/unmarshal/builder.go onEntries)
   inside the model.  The wrapped system of model/PushConfirm.v writes the cache (ConfirmSeries after every insert of a push
   succeeded); here a push ARRIVES through the parser: of the series rows its body gives rise to (`full`: what the parser
   emits when the cache holds nothing, one row per (day, fingerprint, type) the request has not announced itself) it leaves
   out those it finds in the cache.  A series row is named by what it is about -- the id in the date column of the series
   request is the identity of the triple (day, fingerprint, type), as the cache key is (C04's model/SeriesIndex.v keeps the
   triples themselves: there announce_type leaves a row out iff mem_row x cache; the ids here are its rows) --, so the same
   series pushed twice carries the same row id.

   The parser goroutine reads the cache while the handler receives its chunks, other pushes confirm in between, and the
   cache may lose entries at any time (30-minute reset, fastcache eviction: C04's CacheReset / CacheEvict): what it finds
   for a row is what was there at SOME moment before the chunk is handed over, so the rows left out are ANY subset of the
   rows confirmed so far (rstep: RPush full omit is enabled iff omit is within the confirmed rows).  The deterministic
   reading used for the correspondence (the harness serialises operations: the body is parsed at once, nothing is evicted)
   leaves out exactly the rows the cache holds at arrival (read_items).  Executable definitions only. *)
From Coq Require Import List NArith ZArith Bool.
From Qryn Require Import model.Ingest model.PushHandler model.IngestSpec model.PushConfirm.
Import ListNotations.

Definition memN (x : N) (l : list N) : bool := existsb (N.eqb x) l.

(* the series request without the rows found in the cache: every column loses the cells of those rows (onEntries appends
   MDate, MLabels, MFingerprint, MType, MTTLDays together, or none of them) *)
Definition strip_req (omit : list N) (r : req) : req := map (filter (fun c : cell => negb (memN (fst c) omit))) r.
Definition strip_sub (omit : list N) (x : nat * kind * req * Z) : nat * kind * req * Z :=
  let '(s, k, r, sz) := x in match k with KSeries => (s, k, strip_req omit r, sz) | _ => x end.
Definition strip_item (omit : list N) (it : item) : item :=
  match it with IChunk c => IChunk (map (strip_sub omit) c) | IError => IError end.
Definition strip_items (omit : list N) (items : list item) : list item := map (strip_item omit) items.

(* every confirmation adds its keys: the rows confirmed so far *)
Inductive ract :=
| RBase (a : cact)                               (* a step of the wrapped system (GNewHandler: a push that found nothing) *)
| RPush (full : list item) (omit : list N).      (* a push arrives; its parser finds the rows `omit` in the cache *)

Definition rstep (c : cstate) (a : ract) : option (cstate * list cevent) :=
  match a with
  | RBase b => cstep c b
  | RPush full omit =>
      if forallb (fun id => memN id (fpcache c)) omit then cstep c (CBase (GNewHandler (strip_items omit full))) else None
  end.
Fixpoint rrun (c : cstate) (tr : list ract) : option (cstate * list cevent) :=
  match tr with
  | [] => Some (c, [])
  | a :: tr' =>
      match rstep c a with
      | None => None
      | Some (c', e1) => match rrun c' tr' with None => None | Some (c'', e2) => Some (c'', e1 ++ e2) end
      end
  end.

(* the same run as a run of the wrapped system *)
Definition cact_of (a : ract) : cact :=
  match a with RBase b => b | RPush full omit => CBase (GNewHandler (strip_items omit full)) end.

(* the deterministic reading: everything the cache holds is left out *)
Definition read_items (cache : list N) (full : list item) : list item := strip_items cache full.

(* a row of a request is stored: all its cells are in ONE block whose Do returned without error *)
Definition row_cells (k : kind) (rid : N) : block := table_of (ncols k) [rid].
Definition row_stored (acked : list block) (k : kind) (rid : N) : bool := existsb (cells_subb (row_cells k rid)) acked.
Definition rows_stored (acked : list block) (k : kind) (r : req) : bool := forallb (row_stored acked k) (rids_of r).
Fixpoint item_reqs (items : list item) : list (kind * req) :=
  match items with
  | [] => []
  | IChunk c :: t => map (fun x => (snd (fst (fst x)), snd (fst x))) c ++ item_reqs t
  | IError :: _ => []
  end.

(* what a success answer says about the FULL request of a push (what its body gives rise to): a series request has every row
   stored -- by this push or, for the rows its parser left out, by an earlier one --; every other request is covered as
   ack_sound says (all its cells in one accepted block) *)
Definition is_series (k : kind) : bool := match k with KSeries => true | _ => false end.
Definition stored_req (acked : list block) (kr : kind * req) : bool :=
  if is_series (fst kr) then rows_stored acked (fst kr) (snd kr) else covered true acked (fst kr) (snd kr).

(* the pushes of a trace in order of arrival (= handler number): the full emission and the rows left out *)
Fixpoint arrivals (tr : list ract) : list (list item * list N) :=
  match tr with
  | [] => []
  | RPush full omit :: t => (full, omit) :: arrivals t
  | RBase (CBase (GNewHandler items)) :: t => (items, []) :: arrivals t
  | _ :: t => arrivals t
  end.
(* the traces in which the full emissions and the direct requests are tables *)
Definition ract_wf (a : ract) : bool :=
  match a with
  | RBase (CBase b) => act_wf b
  | RBase (CConfirm _) => true
  | RPush full _ => forallb item_wf full
  end.
