(* C01: the scheduler and the variant of model/IngestSched.v for the WRAPPED system of model/PushConfirm.v (the system with
   ConfirmSeries).  The wrapped system has one step more per successful push: the confirmation loop, which doParse runs
   between the Get() loop and `return nil`.  next_act_c follows next_act; where that would let push h answer success it
   first lets h run its confirmation loop (CConfirm h), and only then the answer.  The variant gains one unit per push that
   has neither answered nor confirmed.  Executable definitions only (theorems: proofs/IngestConfirmLive.v, props/C01.v). *)
From Coq Require Import List NArith ZArith Bool.
From Qryn Require Import model.Ingest model.PushHandler model.PushConfirm model.IngestSched.
Import ListNotations.

Definition next_act_c (db : gstate -> nat -> bool) (c : cstate) : option cact :=
  match next_act db (base c) with
  | Some (GAnswer h) =>
      match nth_error (hs (base c)) h with
      | Some hd =>
          match verdict (h_subs hd) with
          | Some true => if mem_nat h (confirmed c) then Some (CBase (GAnswer h)) else Some (CConfirm h)
          | _ => Some (CBase (GAnswer h))
          end
      | None => Some (CBase (GAnswer h))
      end
  | Some a => Some (CBase a)
  | None => None
  end.

Fixpoint run_sched_c (db : gstate -> nat -> bool) (fuel : nat) (c : cstate) : cstate * list cact * list cevent :=
  match fuel with
  | O => (c, [], [])
  | S f =>
      match next_act_c db c with
      | None => (c, [], [])
      | Some a =>
          match cstep c a with
          | None => (c, [], [])
          | Some (c1, e1) => let '(c2, tr, e2) := run_sched_c db f c1 in (c2, a :: tr, e1 ++ e2)
          end
      end
  end.

(* pushes that have neither answered nor run their confirmation loop: each may still owe that loop *)
Fixpoint unconf (conf : list nat) (h : nat) (l : list handler) : nat :=
  match l with
  | [] => 0
  | hd :: t => (match h_answer hd with None => if mem_nat h conf then 0 else 1 | Some _ => 0 end) + unconf conf (S h) t
  end.
Definition mu_c (c : cstate) : nat := mu (base c) + unconf (confirmed c) 0 (hs (base c)).

(* the requests whose series rows ConfirmSeries can read: MFingerprint and MType at least as long as MDate (no index out of
   range in the handler goroutine); every table is one *)
Definition confirm_safe (k : kind) (r : req) : bool :=
  match k with KSeries => match confirm_keys r with Some _ => true | None => false end | _ => true end.
