(* The two line-by-line decoders of writer/utils/unmarshal (Datadog logs from Cloudflare: datadogCFJsonUnmarshal.go;
   Elasticsearch bulk: elasticUnmarshal.go), at the level the property needs: which lines of the body end up as rows.
   Property C03.  Definitions only.

   A body is a list of lines; holds_entry tells which ones carry an entry (every line of a Cloudflare push; the
   document lines behind an index / create action of a bulk request).  The decoders hand every such line, whatever its
   length, to the callback with the line itself as the text of the row (since fix 630762c the scanner buffer grows
   up to 16 MiB and a scanner error fails the request). *)
From Coq Require Import List ZArith Bool.
Import ListNotations.
Open Scope Z_scope.

Fixpoint entry_lines (holds_entry : list bool) (i : Z) : list Z :=
  match holds_entry with
  | [] => []
  | true :: r => i :: entry_lines r (i + 1)
  | false :: r => entry_lines r (i + 1)
  end.

Definition zlist_eqb : list Z -> list Z -> bool :=
  fix go a b := match a, b with [], [] => true | x :: r, y :: r' => (x =? y) && go r r' | _, _ => false end.

(* n_expected: the indices of the lines that hold an entry; n_obs: for every row of the responses, the index of the line
   whose text it carries (-1: no line); n_err: the request was answered with an error *)
Record ncase := NCase { n_id : Z; n_expected : list Z; n_obs : list Z; n_err : bool }.
(* unless the request fails, every line that holds an entry is a row, once, in order, and there is no other row *)
Definition n_spec_violation (c : ncase) : bool := negb (n_err c) && negb (zlist_eqb (n_expected c) (n_obs c)).
Definition n_check_all (cs : list ncase) : list Z * list Z := ([], map n_id (filter n_spec_violation cs)).
