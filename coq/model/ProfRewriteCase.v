(* Cases of the re-indexing tie of property C16: the payloads ProfService.MergeProfiles read (decoded with the reader's
   own protobuf type) and the merged profile it answered, compared with coq/model/ProfRewrite.v and judged by the
   specification oracle on the OBSERVED merged profile.  Wire format as in ProfCase.v.  Definitions only. *)
From Coq Require Import List NArith ZArith Bool Uint63.
From Qryn Require Import model.Pprof model.ProfMerge model.ProfRewrite model.ProfCase.
Import ListNotations.
Open Scope Z_scope.

Record rwcase := {
  rw_id : Z;
  rw_inputs : list pprofile;
  rw_err : Z;                 (* 0 none, 1 "incompatible period types", 2 "incompatible sample types", 3 anything else (panic) *)
  rw_out : pprofile }.

(* ------------------------------------------------------------------ structural comparison *)
Definition zl_eqb := list_eqb' Z.eqb.
Definition vto_eqb (a b : option vtype) : bool :=
  match a, b with Some x, Some y => vt_eqb x y | None, None => true | _, _ => false end.
Definition fun_eqb (a b : pfun) : bool :=
  Z.eqb (f_id a) (f_id b) && Z.eqb (f_name a) (f_name b) && Z.eqb (f_sys a) (f_sys b) && Z.eqb (f_file a) (f_file b) && Z.eqb (f_start a) (f_start b).
Definition map_eqb (a b : pmap) : bool :=
  Z.eqb (m_id a) (m_id b) && Z.eqb (m_start a) (m_start b) && Z.eqb (m_limit a) (m_limit b) && Z.eqb (m_off a) (m_off b) &&
  Z.eqb (m_file a) (m_file b) && Z.eqb (m_build a) (m_build b) && Z.eqb (m_flags a) (m_flags b).
Definition line_eqb (a b : pline) : bool := Z.eqb (ln_fn a) (ln_fn b) && Z.eqb (ln_line a) (ln_line b) && Z.eqb (ln_col a) (ln_col b).
Definition loc_eqb (a b : ploc) : bool :=
  Z.eqb (l_id a) (l_id b) && Z.eqb (l_map a) (l_map b) && Z.eqb (l_addr a) (l_addr b) && list_eqb' line_eqb (l_lines a) (l_lines b) &&
  Bool.eqb (l_folded a) (l_folded b).
Definition label_eqb (a b : plabel) : bool :=
  Z.eqb (lb_key a) (lb_key b) && Z.eqb (lb_str a) (lb_str b) && Z.eqb (lb_num a) (lb_num b) && Z.eqb (lb_unit a) (lb_unit b).
Definition samp_eqb (a b : psamp) : bool :=
  zl_eqb (s_locs a) (s_locs b) && zl_eqb (s_vals a) (s_vals b) && list_eqb' label_eqb (s_labels a) (s_labels b).
(* which parts differ: bit 0 strings, 1 types/period type, 2 functions, 3 mappings, 4 locations, 5 samples, 6 header numbers *)
Definition prof_diff (a b : pprofile) : Z :=
  (if zl_eqb (p_strs a) (p_strs b) then 0 else 1) +
  (if list_eqb' vt_eqb (p_types a) (p_types b) && vto_eqb (p_ptype a) (p_ptype b) then 0 else 2) +
  (if list_eqb' fun_eqb (p_funs a) (p_funs b) then 0 else 4) +
  (if list_eqb' map_eqb (p_maps a) (p_maps b) then 0 else 8) +
  (if list_eqb' loc_eqb (p_locs a) (p_locs b) then 0 else 16) +
  (if list_eqb' samp_eqb (p_samps a) (p_samps b) then 0 else 32) +
  (if Z.eqb (p_drop a) (p_drop b) && Z.eqb (p_keep a) (p_keep b) && Z.eqb (p_time a) (p_time b) && Z.eqb (p_duration a) (p_duration b) &&
      Z.eqb (p_period a) (p_period b) && Z.eqb (p_default a) (p_default b) && zl_eqb (p_comments a) (p_comments b) then 0 else 64).

(* 0 = model and implementation agree; otherwise 1000 + the differing parts, or 2000 + the model's verdict when the
   error differs *)
Definition rw_mismatch (c : rwcase) : Z :=
  match merge_payloads (rw_inputs c) with
  | inl p => if Z.eqb (rw_err c) 0 then (let d := prof_diff p (rw_out c) in if Z.eqb d 0 then 0 else 1000 + d) else 2000
  | inr e => if Z.eqb (rw_err c) e then 0 else 2000 + e
  end.

(* ------------------------------------------------------------------ specification oracle on the observation *)
Definition wsamples (p : pprofile) : list (list (list fden) * list Z) := map (fun s => (stack_den p s, s_vals s)) (p_samps p).
Definition weight_l (d : list (list fden)) (k : nat) (l : list (list (list fden) * list Z)) : Z :=
  sumZ (map (fun x => if stack_eqb d (fst x) then nth k (snd x) 0 else 0) l).

(* 0 fine; 2 a panic or unknown error; 3 the per-type totals of the merged samples are not the sums over the merged
   payloads; 4 some resolved stack carries another weight in the merged profile than in the payloads together.
   5 (round 8) the merged message is not closed (closed_b: ids 1..n, every function / location reference and function string
   index resolves, one value per sample type) -- judged on EVERY answered merge, malformed payloads included (theorem
   merged_profile_closed).  3 and 4 are judged when every payload that takes part is well formed (wf_raw_b); the
   stack-by-stack comparison when the case has at most [cap] samples *)
Definition rw_spec (cap : nat) (c : rwcase) : Z :=
  if Z.eqb (rw_err c) 3 then 2
  else if negb (Z.eqb (rw_err c) 0) then 0
  else if negb (closed_b (length (p_types (rw_out c))) (rw_out c)) then 5
  else
    let ins := filter merged_in (rw_inputs c) in
    if negb (forallb wf_raw_b ins) then 0
    else
      let nt := length (p_types (rw_out c)) in
      let wi := flat_map wsamples ins in
      let wo := wsamples (rw_out c) in
      if negb (forallb (fun k => Z.eqb (wrap64 (sumZ (map (fun x => nth k (snd x) 0) wo))) (wrap64 (sumZ (map (fun x => nth k (snd x) 0) wi)))) (seq 0 nt))
      then 3
      else if Nat.ltb cap (length wi + length wo) then 0
      else if forallb (fun d => forallb (fun k => Z.eqb (wrap64 (weight_l d k wo)) (wrap64 (weight_l d k wi))) (seq 0 nt)) (map fst (wi ++ wo))
      then 0 else 4.

(* sanitizeProfile of ANY payload is [sane]: a theorem since round 8 (sanitize_sane); still evaluated on every payload of every
   case, malformed ones included, as a cross-check of the decoder *)
Definition rw_sane (c : rwcase) : Z * Z :=
  let ins := rw_inputs c in
  (Z.of_nat (length ins), Z.of_nat (length (filter (fun p => sane_b (sanitize p)) ins))).

(* ------------------------------------------------------------------ wire format *)
Definition rd_uz : R Z := u <- rd_u ;; ret (Z.of_N u).
Definition rd_vt : R vtype := t <- rd_z ;; u <- rd_z ;; ret {| vt_type := t; vt_unit := u |}.
Definition rd_fun : R pfun :=
  i <- rd_uz ;; n <- rd_z ;; s <- rd_z ;; f <- rd_z ;; st <- rd_z ;; ret {| f_id := i; f_name := n; f_sys := s; f_file := f; f_start := st |}.
Definition rd_line : R pline := f <- rd_uz ;; l <- rd_z ;; c <- rd_z ;; ret {| ln_fn := f; ln_line := l; ln_col := c |}.
Definition rd_loc : R ploc :=
  i <- rd_uz ;; m <- rd_uz ;; a <- rd_uz ;; ls <- rd_list rd_line ;; fo <- rd_b ;;
  ret {| l_id := i; l_map := m; l_addr := a; l_lines := ls; l_folded := fo |}.
Definition rd_map : R pmap :=
  i <- rd_uz ;; s <- rd_uz ;; l <- rd_uz ;; o <- rd_uz ;; f <- rd_z ;; b <- rd_z ;; fl <- rd_z ;;
  ret {| m_id := i; m_start := s; m_limit := l; m_off := o; m_file := f; m_build := b; m_flags := fl |}.
Definition rd_label : R plabel := k <- rd_z ;; s <- rd_z ;; n <- rd_z ;; u <- rd_z ;; ret {| lb_key := k; lb_str := s; lb_num := n; lb_unit := u |}.
Definition rd_samp : R psamp :=
  ls <- rd_list rd_uz ;; vs <- rd_list rd_z ;; lb <- rd_list rd_label ;; ret {| s_locs := ls; s_vals := vs; s_labels := lb |}.
Definition rd_pprofile : R pprofile :=
  strs <- rd_list rd_z ;; types <- rd_list rd_vt ;; pt <- rd_list rd_vt ;;
  funs <- rd_list rd_fun ;; maps <- rd_list rd_map ;; locs <- rd_list rd_loc ;; samps <- rd_list rd_samp ;;
  dr <- rd_z ;; ke <- rd_z ;; ti <- rd_z ;; du <- rd_z ;; pe <- rd_z ;; de <- rd_z ;; co <- rd_list rd_z ;;
  ret {| p_strs := strs; p_types := types; p_ptype := hd_error pt; p_funs := funs; p_maps := maps; p_locs := locs; p_samps := samps;
         p_drop := dr; p_keep := ke; p_time := ti; p_duration := du; p_period := pe; p_default := de; p_comments := co |}.
Definition rd_rwcase : R rwcase :=
  id <- rd_z ;; ins <- rd_list rd_pprofile ;; err <- rd_z ;; out <- rd_pprofile ;;
  ret {| rw_id := id; rw_inputs := ins; rw_err := err; rw_out := out |}.

(* (positions that do not decode, (id, mismatch code) of the differing cases, (id, spec code) of the rejected ones,
   (payloads checked for sane, payloads sane), cases judged stack by stack, ids of the cases holding a merged payload that
   is not well formed) *)
Definition rw_results (cap : nat) (ws : list (list int)) : list Z * list (Z * Z) * list (Z * Z) * (Z * Z) * Z * list Z :=
  let cs := decoded rd_rwcase ws in
  let sn := map rw_sane cs in
  (decode_errors_from rd_rwcase 0 ws,
   filter (fun x => negb (Z.eqb (snd x) 0)) (map (fun c => (rw_id c, rw_mismatch c)) cs),
   filter (fun x => negb (Z.eqb (snd x) 0)) (map (fun c => (rw_id c, rw_spec cap c)) cs),
   (sumZ (map fst sn), sumZ (map snd sn)),
   Z.of_nat (length (filter (fun c => Z.eqb (rw_err c) 0 && forallb wf_raw_b (filter merged_in (rw_inputs c)) &&
                                      negb (is_nil (p_samps (rw_out c))) &&
                                      Nat.leb (length (flat_map p_samps (filter merged_in (rw_inputs c))) + length (p_samps (rw_out c))) cap) cs)),
   map rw_id (filter (fun c => negb (forallb wf_raw_b (filter merged_in (rw_inputs c)))) cs)).
