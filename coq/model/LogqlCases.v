(* Comparison functions evaluated by generated case files (checks/sqltext.py). *)
From Coq Require Import List ZArith NArith String Ascii Bool.
From Qryn Require Import lib.Strs model.Sql model.SqlRender model.Logql model.LogqlPlan model.LogqlTemplate.
Import ListNotations.
Open Scope string_scope.

(* k executions of ONE plan object, the window advancing by one second each time (live tail) *)
Definition advance (c : pctx) : pctx :=
  {| c_from_ns := c_from_ns c + 1000000000; c_to_ns := c_to_ns c + 1000000000; c_limit := c_limit c; c_asc := c_asc c;
     c_cluster := c_cluster c; c_type := c_type c; c_finalize := c_finalize c; c_step_ns := c_step_ns c;
     t_gin := t_gin c; t_samples := t_samples c; t_ts := t_ts c; t_ts_dist := t_ts_dist c; t_m15 := t_m15 c |}.

Fixpoint run_plan (k : nat) (p : planner) (c : pctx) (st : pst) : list (option string) :=
  match k with
  | O => []
  | S k' =>
    match process p c st with
    | None => [None]
    | Some (q, st', p') => render q (c_cluster c) :: run_plan k' p' (advance c) st'
    end
  end.

Definition log_sqls (sel : strsel) (finalize : bool) (c : pctx) (runs : nat) : list (option string) :=
  match plan_log sel finalize with
  | None => [None]
  | Some p => run_plan runs p c pst0
  end.

Record lcase := { lc_id : Z; lc_sel : strsel; lc_final : bool; lc_ctx : pctx; lc_sql : list (option string) }.

Definition ostr_eqb (a b : option string) : bool :=
  match a, b with Some x, Some y => String.eqb x y | None, None => true | _, _ => false end.
Fixpoint olist_eqb (a b : list (option string)) : bool :=
  match a, b with
  | [], [] => true
  | x :: r, y :: r' => ostr_eqb x y && olist_eqb r r'
  | _, _ => false
  end.
Definition lcase_mismatch (c : lcase) : bool :=
  negb (olist_eqb (log_sqls (lc_sel c) (lc_final c) (lc_ctx c) (List.length (lc_sql c))) (lc_sql c)).
Definition log_mismatches (cs : list lcase) : list Z := map lc_id (filter lcase_mismatch cs).

(* ---------- a line_format template alone (checks/sqltext.run_tpl) ----------
   what the template model says of the text (Some true = parsed, Some false = Parse refuses it, None = outside the transcribed
   fragment: no claim) and the statement of LineFormatPlanner{Main: SQLMainInitPlanner, Template: t} *)
Definition tpl_probe (t : string) (c : pctx) : option bool * option string :=
  (match tpl_parse t with TOk _ => Some true | TErr => Some false | TUnmodelled => None end,
   match process (PLineFormatP t PMainInit) c pst0 with Some (q, _, _) => render q (c_cluster c) | None => None end).

(* ---------- any script (metric queries, C08) ---------- *)
Definition script_sqls (s : script) (finalize : bool) (c : pctx) (runs : nat) : list (option string) :=
  match plan_script s finalize with
  | None => [None]
  | Some p => run_plan runs p c pst0
  end.

Record mcase := { mc_id : Z; mc_script : script; mc_final : bool; mc_ctx : pctx; mc_sql : list (option string) }.
Definition mcase_mismatch (c : mcase) : bool :=
  negb (olist_eqb (script_sqls (mc_script c) (mc_final c) (mc_ctx c) (List.length (mc_sql c))) (mc_sql c)).
Definition script_mismatches (cs : list mcase) : list Z := map mc_id (filter mcase_mismatch cs).
