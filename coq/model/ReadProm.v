(* C12 -- the Prometheus query endpoints (GET/POST /api/v1/query_range, /api/v1/query): what the controller decides
   before the vendored PromQL engine runs, and how many points the engine's evaluators reserve for what the
   controller lets through.

   Transcribed from reader/controller/promQueryRangeController.go (QueryRange, parseQueryRangePropsV2, parseDuration,
   checkSubquerySteps -- fix 234ea6b), promQueryInstantController.go (QueryInstant, parseQueryInstantProps),
   utils.go (ParseTimeSecOrRFC) and, for the evaluator windows, from prometheus/promql/engine.go (eval of
   *parser.SubqueryExpr: a subquery is evaluated by a new evaluator over [start - offset - range, end - offset] at its own
   step; rangeEval reserves numSteps = (end - start) / interval + 1 points per series before it looks at a sample).

   time.Duration is an int64 of nanoseconds: the sums of checkSubquerySteps wrap around (wrap64); the engine computes in
   int64 milliseconds from the same durations (PromQL durations are whole milliseconds, windows whole seconds), where
   nothing wraps for durations the parser accepts. *)
From Coq Require Import List ZArith Bool.
From Qryn Require Import model.Pipeline model.ReadPath.
Import ListNotations.
Open Scope Z_scope.

Definition two63 : Z := 9223372036854775808.
Definition wrap64 (z : Z) : Z := (z + two63) mod (2 * two63) - two63.
(* time.Time.Sub saturates *)
Definition sat64 (z : Z) : Z := if two63 <=? z then two63 - 1 else if z <? - two63 then - two63 else z.

(* the part of a PromQL expression that matters here *)
Inductive pexpr :=
| PSel                                   (* vector selector, literal *)
| PMat (range : Z)                       (* matrix selector up[5m]: reads samples, reserves nothing per step *)
| PCall (a : pexpr)                      (* function call, aggregation, parentheses, unary *)
| PBin (a b : pexpr)
| PSub (a : pexpr) (range step : Z).     (* a[range:step]; step = 0: a[range:] (default resolution) *)

(* what the parser guarantees: 0 < range < 2^63 ns, 0 <= step < 2^63 *)
Fixpoint pwf (e : pexpr) : bool :=
  match e with
  | PSel => true
  | PMat r => (0 <? r) && (r <? two63)
  | PCall a => pwf a
  | PBin a b => pwf a && pwf b
  | PSub a r s => (0 <? r) && (r <? two63) && (0 <=? s) && (s <? two63) && pwf a
  end.

Definition max_steps : Z := 11000.

(* checkSubquerySteps(query, window): parser.Inspect visits every node with its path; for a subquery with Step > 0,
   span := window + sq.Range + (ranges of the subqueries on the path), in int64; refused when span < 0 or
   span / sq.Step > 11000. acc = window + ranges of the enclosing subqueries, exact; Go's value is wrap64 of the sum
   whatever the order of the additions (wrap64_add). *)
Fixpoint sq_ok (acc : Z) (e : pexpr) : bool :=
  match e with
  | PSel | PMat _ => true
  | PCall a => sq_ok acc a
  | PBin a b => sq_ok acc a && sq_ok acc b
  | PSub a r s =>
    let span := wrap64 (acc + r) in
    (if 0 <? s then (0 <=? span) && (span / s <=? max_steps) else true) && sq_ok (acc + r) a
  end.

(* the evaluators the engine creates for the subqueries of e, as (length of the evaluated interval, step), exact
   arithmetic. A subquery without resolution calls the engine's NoStepSubqueryIntervalFn, which this reader leaves nil:
   the evaluation ends there with a recovered panic (500) and nothing below it is evaluated. *)
Fixpoint evals (acc : Z) (e : pexpr) : list (Z * Z) :=
  match e with
  | PSel | PMat _ => []
  | PCall a => evals acc a
  | PBin a b => evals acc a ++ evals acc b
  | PSub a r s => if s =? 0 then [] else (acc + r, s) :: evals (acc + r) a
  end.

Definition eval_bounded (p : Z * Z) : bool := (0 <? snd p) && (fst p / snd p <=? max_steps).

(* ------------------------------------------------------------------ the two controllers *)
Inductive pquery := PQMissing | PQNoParse | PQ (e : pexpr).

(* start / end / time: whole seconds, PAbsent = the default (now - 6 h, now), PBad = neither a number nor RFC 3339;
   step: nanoseconds after parseDuration, PAbsent/PBad = no duration (the empty string is no duration either) *)
Record prequest := mkPR { pr_instant : bool; pr_now : Z; pr_start : param; pr_end : param; pr_step : param; pr_query : pquery }.

Inductive pout := PoResp (c : oclass) | PoEngine (window step : Z) (e : pexpr).  (* engine: 2xx, or 5xx with an error *)

Definition sec_or (def : Z) (p : param) : option Z := match p with PAbsent => Some def | PBad => None | PNum v => Some v end.
Definition ceil15 (t : Z) : Z := ((t + 14) / 15) * 15.
Definition floor15 (t : Z) : Z := Z.quot t 15 * 15.

Definition prom_outcome (r : prequest) : pout :=
  if pr_instant r then
    match sec_or (pr_now r) (pr_end r) with
    | None => PoResp O4xx
    | Some _ =>
      match pr_query r with
      | PQMissing => PoResp O4xx
      | PQNoParse => PoResp O5xx                       (* NewInstantQuery: parse error *)
      | PQ e => if sq_ok 0 e then PoEngine 0 1 e else PoResp O4xx
      end
    end
  else
    match sec_or (pr_now r - 21600) (pr_start r), sec_or (pr_now r) (pr_end r) with
    | Some s, Some e_ =>
      match pr_query r with
      | PQMissing => PoResp O4xx
      | q =>
        match pr_step r with
        | PNum st =>
          if st <=? 0 then PoResp O4xx else
          let window := sat64 ((ceil15 e_ - floor15 s) * 1000000000) in
          if max_steps <? Z.quot window st then PoResp O5xx else
          match q with
          | PQ e => if sq_ok window e then PoEngine window st e else PoResp O4xx
          | _ => PoResp O5xx                           (* NewRangeQuery: parse error *)
          end
        | _ => PoResp O4xx
        end
      end
    | _, _ => PoResp O4xx
    end.

(* ------------------------------------------------------------------ correspondence cases: observed class 0 2xx, 1 4xx, 2 5xx, ... *)
Record pcase := mkPC { pc_id : Z; pc_req : prequest; pc_obs : Z }.

(* 0 / 1 / 2 = the controller answers 2xx / 4xx / 5xx itself, 7 = the engine answers (2xx or 5xx) *)
Definition pcode (o : pout) : Z := match o with PoResp c => code_of c | PoEngine _ _ _ => 7 end.
Definition ppredicted (c : pcase) : Z := pcode (prom_outcome (pc_req c)).
Definition pagree (pred obs : Z) : bool := if pred =? 7 then (obs =? 0) || (obs =? 2) else pred =? obs.
Definition pmismatches (cs : list pcase) : list Z := map pc_id (filter (fun c => negb (pagree (ppredicted c) (pc_obs c))) cs).
Definition pspec_violations (cs : list pcase) : list Z := map pc_id (filter (fun c => negb (spec_ok (pc_obs c))) cs).
