(* C12 -- reader/utils/dsn/sqlxWrap.go: StableSqlxDBWrapper, the object EVERY statement of the read side goes through.
   One sync.RWMutex guards the connection pool: a statement runs under the read lock; when it fails the wrapper takes the
   WRITE lock, closes the pool and opens a new one. What a request does to that mutex is visible only to LATER requests
   (a read lock left behind is harmless until somebody needs the write lock), so the subject here is a set of requests
   served by one process: an LTS of threads over one writer-preferring read/write lock, every interleaving.

   A thread is the sequence of lock operations a request performs on the wrapper (generated shape: every unit of
   sqlxWrap.go takes the mutex at most once and gives it back on every path -- theorem locks_released_on_every_path over
   the control-flow models generated from the code -- and the closure holding the read lock returns before the write lock
   is asked for). The state of the mutex is not stored: it IS what the threads hold (readers = read locks held by all
   threads, a writer is announced / active iff some thread is), so a lock kept by a finished thread stays counted.

   sync.RWMutex (Go): RLock blocks while a writer is active or has announced itself (Lock() called, waiting for the
   readers to leave); Lock announces (one writer at a time: the inner mutex w), then waits until no reader is left. *)
From Coq Require Import List Bool Arith ZArith Lia.
Import ListNotations.

Inductive pl_op := OWork      (* anything else: the statement runs, the pool is closed / reopened, rows are read *)
                 | ORLock | ORUnlock | OLock | OUnlock.

Record pl_thread := mkT { t_r : nat;      (* read locks this thread holds *)
                          t_w : bool;     (* it holds the write lock *)
                          t_ann : bool;   (* it called Lock() and waits for the readers to leave *)
                          t_ops : list pl_op }.

Definition pl_fresh (ops : list pl_op) : pl_thread := mkT 0 false false ops.

Fixpoint pl_readers (ts : list pl_thread) : nat := match ts with [] => 0 | t :: r => t_r t + pl_readers r end.
Definition pl_wbusy (ts : list pl_thread) : bool := existsb (fun t => t_w t || t_ann t) ts.

(* one step of thread t inside the thread set `all` (None: it cannot move -- blocked, or finished) *)
Definition pl_tstep (all : list pl_thread) (t : pl_thread) : option pl_thread :=
  match t_ops t with
  | [] => None
  | OLock :: r =>
      if t_ann t then (if Nat.eqb (pl_readers all) 0 then Some (mkT (t_r t) true false r) else None)
      else if pl_wbusy all then None else Some (mkT (t_r t) (t_w t) true (t_ops t))
  | o :: r =>
      if t_ann t then None else
      match o with
      | OWork => Some (mkT (t_r t) (t_w t) false r)
      | ORLock => if pl_wbusy all then None else Some (mkT (S (t_r t)) (t_w t) false r)
      | ORUnlock => match t_r t with S k => Some (mkT k (t_w t) false r) | O => None end
      | OUnlock => if t_w t then Some (mkT (t_r t) false false r) else None
      | OLock => None
      end
  end.

Inductive pl_step : list pl_thread -> list pl_thread -> Prop :=
| PlStep : forall l1 t l2 t', pl_tstep (l1 ++ t :: l2) t = Some t' -> pl_step (l1 ++ t :: l2) (l1 ++ t' :: l2).

Inductive pl_star : list pl_thread -> list pl_thread -> Prop :=
| PlRefl : forall ts, pl_star ts ts
| PlNext : forall a b c, pl_step a b -> pl_star b c -> pl_star a c.

Definition pl_stuck (ts : list pl_thread) : Prop := forall ts', ~ pl_step ts ts'.
Definition pl_done (t : pl_thread) : bool := match t_ops t with [] => true | _ => false end.
Definition pl_free (t : pl_thread) : bool := Nat.eqb (t_r t) 0 && negb (t_w t) && negb (t_ann t).

(* ------------------------------------------------------------------ the shape of a well-behaved thread *)
Inductive pl_mode := MOut | MRead | MAnn | MWrite.

Fixpoint pl_ok (m : pl_mode) (ops : list pl_op) : bool :=
  match ops with
  | [] => match m with MOut => true | _ => false end       (* leaving with a lock held *)
  | o :: r =>
      match m, o with
      | MOut, OWork => pl_ok MOut r | MOut, ORLock => pl_ok MRead r | MOut, OLock => pl_ok MWrite r
      | MRead, OWork => pl_ok MRead r | MRead, ORUnlock => pl_ok MOut r
      | MWrite, OWork => pl_ok MWrite r | MWrite, OUnlock => pl_ok MOut r
      | MAnn, OLock => pl_ok MWrite r
      | _, _ => false                                       (* a second lock while one is held; unlock of a lock not held *)
      end
  end.

Definition pl_mode_of (t : pl_thread) : option pl_mode :=
  match t_r t, t_w t, t_ann t with
  | 0, false, false => Some MOut
  | 1, false, false => Some MRead
  | 0, true, false => Some MWrite
  | 0, false, true => Some MAnn
  | _, _, _ => None
  end.

Definition pl_tinv (t : pl_thread) : bool := match pl_mode_of t with Some m => pl_ok m (t_ops t) | None => false end.

Definition pl_measure_t (t : pl_thread) : nat := 2 * List.length (t_ops t) + (if t_ann t then 0 else 1).
Fixpoint pl_measure (ts : list pl_thread) : nat := match ts with [] => 0 | t :: r => pl_measure_t t + pl_measure r end.

(* ------------------------------------------------------------------ StableSqlxDBWrapper's methods as programs *)
(* what the database does with one statement *)
Inductive pl_event := EvOk        (* QueryContext returns rows (whatever happens to them later) *)
                    | EvDbErr     (* QueryContext fails, the caller's context is alive *)
                    | EvGaveUp.   (* QueryContext fails and the caller's context is cancelled: client gone mid-statement,
                                     limit reached, engine timeout *)

Definition pl_rebuild : list pl_op := [OLock; OWork; OUnlock].     (* Lock; defer Unlock; DB.Close(); DB = GetDB() *)
(* QueryCtx / Query / ExecCtx: func() { RLock; defer RUnlock; DB.QueryContext }(); if err != nil { rebuild } *)
Definition pl_query_ctx (ev : pl_event) : list pl_op :=
  [ORLock; OWork; ORUnlock] ++ match ev with EvOk => [] | _ => pl_rebuild end.
(* Conn / Begin / Close: RLock; defer RUnlock; one call *)
Definition pl_conn : list pl_op := [ORLock; OWork; ORUnlock].
(* the seeded change C12-e: explicit RLock / RUnlock with an early return before the RUnlock when the caller gave up *)
Definition pl_query_ctx_leaky (ev : pl_event) : list pl_op :=
  match ev with
  | EvGaveUp => [ORLock; OWork]
  | EvOk => [ORLock; OWork; ORUnlock]
  | EvDbErr => [ORLock; OWork; ORUnlock] ++ pl_rebuild
  end.

(* a request: any number of statements, work in between *)
Definition pl_request (q : pl_event -> list pl_op) (evs : list pl_event) : list pl_op :=
  flat_map (fun ev => OWork :: q ev) evs ++ [OWork].

(* ------------------------------------------------------------------ histories: requests served one after the other *)
Fixpoint pl_run_alone (fuel : nat) (before : list pl_thread) (t : pl_thread) : pl_thread :=
  match fuel with
  | O => t
  | S f => match pl_tstep (before ++ [t]) t with Some t' => pl_run_alone f before t' | None => t end
  end.

Fixpoint pl_count_lock (ops : list pl_op) : Z :=
  match ops with [] => 0%Z | OLock :: r => (1 + pl_count_lock r)%Z | _ :: r => pl_count_lock r end.

(* per request of the history: (answered, pools rebuilt while it was served); a request that is not answered stays in
   the thread set (blocked), a lock a finished request kept stays counted *)
Fixpoint pl_history (q : pl_event -> list pl_op) (before : list pl_thread) (reqs : list (list pl_event)) : list (bool * Z) :=
  match reqs with
  | [] => []
  | evs :: rest =>
      let ops := pl_request q evs in
      let t := pl_run_alone (2 * List.length ops + 2) before (pl_fresh ops) in
      (pl_done t, (pl_count_lock ops - pl_count_lock (t_ops t))%Z) :: pl_history q (before ++ [t]) rest
  end.

(* ------------------------------------------------------------------ correspondence cases (harness readfuzz, stream 6) *)
(* observed per request: outcome class code (0 2xx, 1 4xx, 2 5xx, 3 crash, 4 leak, 5 hang, 6 abort, 10 stopped serving),
   pool rebuilds counted by the harness's GetDB *)
Record pl_case := mkPlC { plc_id : Z; plc_events : list pl_event; plc_obs : list (Z * Z) }.

Definition pl_answered (code : Z) : bool := (Z.eqb code 0 || Z.eqb code 1 || Z.eqb code 2)%bool.

(* every request of the harness issues its one data statement last (the version bootstrap statements before it succeed) *)
Definition pl_predicted (c : pl_case) : list (bool * Z) :=
  pl_history pl_query_ctx [] (map (fun ev => [EvOk; ev]) (plc_events c)).

Definition pl_agrees (ev : pl_event) (p : bool * Z) (o : Z * Z) : bool :=
  Bool.eqb (fst p) (pl_answered (fst o)) && Z.eqb (snd p) (snd o) &&
  match ev with EvOk => Z.eqb (fst o) 0 | _ => (Z.eqb (fst o) 1 || Z.eqb (fst o) 2)%bool end.

Fixpoint pl_agree_all (evs : list pl_event) (ps : list (bool * Z)) (os : list (Z * Z)) : bool :=
  match evs, ps, os with
  | [], [], [] => true
  | ev :: e', p :: p', o :: o' => pl_agrees ev p o && pl_agree_all e' p' o'
  | _, _, _ => false
  end.

Definition pl_mismatches (cs : list pl_case) : list Z :=
  map plc_id (filter (fun c => negb (pl_agree_all (plc_events c) (pl_predicted c) (plc_obs c))) cs).

(* the property's oracle on the observations alone: every request of the history was answered, nothing left behind *)
Definition pl_spec_ok (c : pl_case) : bool :=
  Nat.eqb (List.length (plc_obs c)) (List.length (plc_events c)) && forallb (fun o => pl_answered (fst o)) (plc_obs c).
Definition pl_spec_violations (cs : list pl_case) : list Z := map plc_id (filter (fun c => negb (pl_spec_ok c)) cs).

(* statements of a request that failed: each costs one rebuild of the pool *)
Fixpoint pl_failed (evs : list pl_event) : Z :=
  match evs with [] => 0%Z | EvOk :: r => pl_failed r | _ :: r => (1 + pl_failed r)%Z end.
Definition pl_idle (t : pl_thread) : bool := pl_done t && pl_free t.
