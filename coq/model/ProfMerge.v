(* Model of the pprof payload merge of the reader (property C16):
     reader/service/profMerge_v2.go   ProfileMergeV2.Merge / Profile, RewriteTableV2.Get (the sample table)
     reader/service/profMerge_v1.go   compatible (sample types of the merged profiles must agree)
   as ProfService.MergeProfiles uses it: the stored payloads of the selected profiles are merged one by one.
   A sample is identified by its key (GetSampleKey of the rewritten location ids and labels; in the cases: the
   stack's function-name tokens, which is what the check aggregates the observed samples by); values are int64.
   Executable definitions only; proofs are in proofs/ProfDiffProofs.v. *)
From Coq Require Import List NArith ZArith Bool.
From Qryn Require Import model.Pprof.
Import ListNotations.

Record msample := { mk_key : list Z; mk_vals : list Z }.

Fixpoint zlist_eqb (a b : list Z) : bool :=
  match a, b with
  | [], [] => true
  | x :: a', y :: b' => Z.eqb x y && zlist_eqb a' b'
  | _, _ => false
  end.

(* for i := range _s.Value { _s.Value[i] += s.Value[i] } *)
Fixpoint add_values (acc vs : list Z) : list Z :=
  match acc with
  | [] => []
  | a :: acc' => wrap64 (a + hd 0%Z vs) :: add_values acc' (tl vs)
  end.

(* sampleTable.Get(s): the entry of the key, created with zero values when new; then the values are added *)
Fixpoint table_add (eqb : list Z -> list Z -> bool) (tbl : list msample) (s : msample) : list msample :=
  match tbl with
  | [] => [ {| mk_key := mk_key s; mk_vals := add_values (map (fun _ => 0%Z) (mk_vals s)) (mk_vals s) |} ]
  | e :: r =>
      if eqb (mk_key e) (mk_key s)
      then {| mk_key := mk_key e; mk_vals := add_values (mk_vals e) (mk_vals s) |} :: r
      else e :: table_add eqb r s
  end.

Definition merge_samples (eqb : list Z -> list Z -> bool) (ps : list (list msample)) : list msample :=
  fold_left (fun tbl p => fold_left (table_add eqb) p tbl) ps [].

(* Merge over the payloads in the order the rows arrive: a profile without samples is skipped, the first other one
   fixes the sample types, a later one with other sample types is an error ("incompatible sample types") *)
Fixpoint merge_profiles_from (eqb : list Z -> list Z -> bool) (types : option (list Z)) (tbl : list msample)
         (ps : list (list Z * list msample)) : option (option (list Z) * list msample) :=
  match ps with
  | [] => Some (types, tbl)
  | (ty, ss) :: rest =>
      match ss with
      | [] => merge_profiles_from eqb types tbl rest
      | _ =>
          match types with
          | None => merge_profiles_from eqb (Some ty) (fold_left (table_add eqb) ss tbl) rest
          | Some t0 => if zlist_eqb t0 ty then merge_profiles_from eqb types (fold_left (table_add eqb) ss tbl) rest else None
          end
      end
  end.
Definition merge_profiles (eqb : list Z -> list Z -> bool) (ps : list (list Z * list msample)) :=
  merge_profiles_from eqb None [] ps.

(* the weight of sample type k carried by a list of samples *)
Definition col_sum (k : nat) (l : list msample) : Z := sumZ (map (fun s => nth k (mk_vals s) 0%Z) l).

Fixpoint lookup_key (tbl : list msample) (k : list Z) : option (list Z) :=
  match tbl with
  | [] => None
  | e :: r => if zlist_eqb (mk_key e) k then Some (mk_vals e) else lookup_key r k
  end.
