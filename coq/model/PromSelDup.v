(* Round 7 (seed C17-g): the specification of CLokiQuerier.Select's assembly when SEVERAL fingerprints carry one
   label set (ReshuffleSeries' merge branch), judged on the OBSERVED series and written as a function of the rows
   and of the labels answer alone (no reshuffle_go, no select_loop inside).

   select_dup_ok (PromSelect.v) only counted: every label set once, every fingerprint's label set present, as many
   samples out as rows in.  A Select that hands series B samples of the merged series A+C (same count) passed it.
   select_dup_exact_ok says WHICH samples: the series under label set L carries
     - one fingerprint under L  : exactly that fingerprint's rows, in row order (after MapResult)          [= select_spec_ok]
     - several fingerprints     : a permutation of the rows of all of them (each after MapResult), ascending by
                                  timestamp (ReshuffleSeries appends and sorts), under one of their fingerprints
   and no series is returned whose label set belongs to no fingerprint of the rows.  Executable definitions only. *)
From Coq Require Import List ZArith NArith String Bool.
From Qryn Require Import lib.Strs model.PromSelect.
Import ListNotations.

Definition group_fps (rows : list row) (fetch : list fetch_row) (l : labels) : list N :=
  filter (fun fp => labels_eqb (labels_get fetch fp) l) (fps_of rows).
Definition own_samples (mr : bool) (rows : list row) (fp : N) : list sample :=
  if mr then map_result_count (rows_of fp rows) else rows_of fp rows.
Definition ts_ascending (l : list sample) : bool := sorted_by (fun a b => Z.leb (fst a) (fst b)) l.

Definition series_own_ok (mr : bool) (rows : list row) (fetch : list fetch_row) (o : out_series) : bool :=
  match group_fps rows fetch (o_labels o) with
  | [] => false
  | [fp] => N.eqb (o_fp o) fp && samples_eqb (o_samples o) (own_samples mr rows fp)
  | fps => existsb (N.eqb (o_fp o)) fps
           && samples_eqb (canon_samples (o_samples o)) (canon_samples (flat_map (own_samples mr rows) fps))
           && ts_ascending (o_samples o)
  end.

Definition select_dup_exact_ok (mr : bool) (rows : list row) (fetch : list fetch_row) (obs : list out_series) : bool :=
  select_dup_ok mr rows fetch obs && forallb (series_own_ok mr rows fetch) obs.

Definition scase_dup_exact_violation (c : scase) : bool :=
  negb (select_dup_exact_ok (sc_mr c) (sc_rows c) (sc_fetch c) (sc_obs c)).

(* ---- the seed's witness: label set X under fingerprints 11 and 33, label set Y under 22 (rows ORDER BY fingerprint) ---- *)
Definition dupw_rows : list row :=
  [ {| r_fp := 11; r_val := 101; r_ts := 1000 |}; {| r_fp := 11; r_val := 102; r_ts := 2000 |}; {| r_fp := 11; r_val := 103; r_ts := 3000 |};
    {| r_fp := 22; r_val := 201; r_ts := 1000 |}; {| r_fp := 22; r_val := 202; r_ts := 2000 |}; {| r_fp := 22; r_val := 203; r_ts := 3000 |};
    {| r_fp := 33; r_val := 301; r_ts := 1500 |}; {| r_fp := 33; r_val := 302; r_ts := 2500 |}; {| r_fp := 33; r_val := 303; r_ts := 3500 |} ]%Z%N.
Definition dupw_x : labels := [("__name__", "m"); ("job", "x")]%string.
Definition dupw_y : labels := [("__name__", "m"); ("job", "y")]%string.
Definition dupw_fetch : list fetch_row := [(11%N, dupw_x); (22%N, dupw_y); (33%N, dupw_x)].
(* what Select hands to the engine with one shared sample buffer (seed C17-g, observed by its demo) *)
Definition dupw_obs_shared_buffer : list out_series :=
  [ {| o_labels := dupw_x; o_fp := 11; o_samples := [(1000, 101); (1500, 301); (2000, 102); (2500, 302); (3000, 103); (3500, 303)] |};
    {| o_labels := dupw_y; o_fp := 22; o_samples := [(2500, 302); (3000, 103); (3500, 303)] |} ]%Z%N.
