(* Byte-exact transcription of the String methods of reader/utils/sql_select (Select.String,
   With.String, WithRef.String, Join.String, Col.String, LogicalOp.String, StringVal.String, ...).
   Rendering threads the sql.Ctx id counter and an error flag (Go returns an error for a Select
   without columns, a WithRef with an empty alias, an undefined CtxParam). *)
From Coq Require Import List ZArith NArith String Ascii Bool.
From Qryn Require Import lib.Strs lib.CivilDate model.Sql.
Import ListNotations.
Open Scope string_scope.

(* ---------- StringVal.String: eight sequential strings.Replace, as a per-byte map ---------- *)
Definition esc_char (c : ascii) : string :=
  if Ascii.eqb c "\" then "\\"
  else if Ascii.eqb c "000" then "\0"
  else if Ascii.eqb c "010" then "\n"
  else if Ascii.eqb c "013" then "\r"
  else if Ascii.eqb c "008" then "\b"
  else if Ascii.eqb c "009" then "\t"
  else if Ascii.eqb c "026" then "\x1a"
  else if Ascii.eqb c "'" then "\'"
  else String c EmptyString.
Definition esc (s : string) : string := map_string esc_char s.
Definition quote (s : string) : string := "'" ++ esc s ++ "'".

(* options ...int : STRING_OPT_SKIP_WITH, STRING_OPT_INLINE_WITH, WITH_REF_NO_ALIAS *)
Record opts := { skip_with : bool; inline_with : bool; no_alias : bool }.
Definition no_opts := {| skip_with := false; inline_with := false; no_alias := false |}.
Definition inline_opts := {| skip_with := false; inline_with := true; no_alias := false |}.
Definition add_skip (o : opts) := {| skip_with := true; inline_with := inline_with o; no_alias := no_alias o |}.
Definition add_noalias (o : opts) := {| skip_with := skip_with o; inline_with := inline_with o; no_alias := true |}.
Definition del_noalias (o : opts) := {| skip_with := skip_with o; inline_with := inline_with o; no_alias := false |}.

(* sql.Ctx: the id counter; err = some String method returned an error *)
Record rst := { r_id : N; r_err : bool }.
Definition rst0 := {| r_id := 0; r_err := false |}.
Definition fail (st : rst) := {| r_id := r_id st; r_err := true |}.

Section RENDER.
  Context {E : Type} (rexpr : E -> opts -> rst -> string * rst).

  Fixpoint rlist (l : list E) (o : opts) (st : rst) : list string * rst :=
    match l with
    | [] => ([], st)
    | e :: r => let '(s, st1) := rexpr e o st in let '(ss, st2) := rlist r o st1 in (s :: ss, st2)
    end.
  Definition ropt (kw : string) (x : option E) (o : opts) (st : rst) : string * rst :=
    match x with None => ("", st) | Some e => let '(s, st1) := rexpr e o st in (kw ++ s, st1) end.
  (* LIMIT / OFFSET are printed only when the object renders to a non-empty string *)
  Definition ropt_nonempty (kw : string) (x : option E) (o : opts) (st : rst) : string * rst :=
    match x with None => ("", st)
    | Some e => let '(s, st1) := rexpr e o st in ((if String.eqb s "" then "" else kw ++ s), st1) end.
  Definition rlist_kw (kw sep : string) (l : list E) (o : opts) (st : rst) : string * rst :=
    match l with [] => ("", st) | _ => let '(ss, st1) := rlist l o st in (kw ++ join sep ss, st1) end.

  Fixpoint rjoins (js : list (string * E * option E)) (o : opts) (st : rst) : string * rst :=
    match js with
    | [] => ("", st)
    | (tp, tbl, on) :: r =>
      let '(t, st1) := rexpr tbl o st in
      let '(ons, st2) :=
        if String.eqb (to_lower tp) "array" then ("", st1)
        else match on with
             | Some c => let '(s, st') := rexpr c o st1 in ("ON " ++ s, st')
             | None => ("ON ", fail st1)      (* nil condition: the Go code would dereference nil *)
             end in
      let '(rest, st3) := rjoins r o st2 in
      (" " ++ tp ++ " JOIN " ++ t ++ " " ++ ons ++ rest, st3)
    end.

  Fixpoint rsel (s : select_ E) (o : opts) (st : rst) {struct s} : string * rst :=
    let fix rwiths (ws : list (string * select_ E)) (st : rst) : list string * rst :=
        match ws with
        | [] => ([], st)
        | (a, q) :: r => let '(s1, st1) := rsel q (add_skip o) st in
                         let '(ss, st2) := rwiths r st1 in ((a ++ " as (" ++ s1 ++ ")") :: ss, st2)
        end in
    let fix runions (us : list (select_ E)) (st : rst) : list string * rst :=
        match us with
        | [] => ([], st)
        | q :: r => let '(s1, st1) := rsel q o st in let '(ss, st2) := runions r st1 in (s1 :: ss, st2)
        end in
    let skip := skip_with o || inline_with o in
    let '(w, st1) := match s_withs s with
                     | [] => ("", st)
                     | ws => if skip then ("", st) else let '(ss, st') := rwiths ws st in ("WITH " ++ join "," ss, st') end in
    let '(cols, st2) := match s_cols s with
                        | [] => ("", fail st1)                       (* "no 'SELECT' part" *)
                        | cs => let '(ss, st') := rlist cs o st1 in (join ", " ss, st') end in
    let '(fromj, st3) := match s_from s with
                         | None => ("", st2)
                         | Some f => let '(fs, st') := rexpr f o st2 in
                                     let '(js, st'') := rjoins (s_joins s) o st' in (" FROM " ++ fs ++ js, st'') end in
    let '(pw, st4) := ropt " PREWHERE " (s_prewhere s) o st3 in
    let '(wh, st5) := ropt " WHERE " (s_where s) o st4 in
    let '(gb, st6) := rlist_kw " GROUP BY " ", " (s_groupby s) o st5 in
    let '(hv, st7) := ropt " HAVING " (s_having s) o st6 in
    let '(ob, st8) := rlist_kw " ORDER BY " ", " (s_orderby s) o st7 in
    let '(lm, st9) := ropt_nonempty " LIMIT " (s_limit s) o st8 in
    let '(off, st10) := ropt_nonempty " OFFSET " (s_offset s) o st9 in
    let sett := match s_settings s with
                | [] => ""
                | kv => " SETTINGS " ++ String.concat "" (map (fun p => fst p ++ "=" ++ snd p ++ " ") kv) end in
    let '(us, st11) := runions (s_unions s) st10 in
    (join " UNION ALL " ((w ++ " SELECT " ++ (if s_distinct s then " DISTINCT " else "") ++ cols ++ fromj
       ++ pw ++ wh ++ gb ++ hv ++ ob ++ lm ++ off ++ sett) :: us), st11).
End RENDER.

Fixpoint bitset_parts (ss : list string) (i : N) : list string :=
  match ss with [] => [] | s :: r => ("bitShiftLeft(toUInt64(" ++ s ++ "), " ++ string_of_N i ++ ")") :: bitset_parts r (i + 1)%N end.

Fixpoint rexpr (e : expr) (o : opts) (st : rst) {struct e} : string * rst :=
  match e with
  | Raw s => (s, st)
  | Id s => (s, st)
  | QRaw s => ("'" ++ s ++ "'", st)
  | Idx x k => let '(s1, st1) := rexpr x o st in let '(s2, st2) := rexpr k o st1 in (s1 ++ "[" ++ s2 ++ "]", st2)
  | StrV s => (quote s, st)
  | IntV z => (string_of_Z z, st)
  | FloatV t => (t, st)
  | BoolV b => ((if b then "true" else "false"), st)
  | DateV d => (quote (date_string d), st)
  | LOp fn cl => let '(ss, st1) := rlist rexpr cl o st in
                 (join (" " ++ lop_str fn ++ " ") (map (fun s => "(" ++ s ++ ")") ss), st1)
  | Not x => let '(s, st1) := rexpr x o st in ("!(" ++ s ++ ")", st1)
  | NotNull x => let '(s, st1) := rexpr x o st in (s ++ " IS NOT NULL", st1)
  | In l r => let '(rs, st1) := rlist rexpr r o st in
              let '(ls, st2) := rexpr l o st1 in (ls ++ " IN (" ++ join "," rs ++ ")", st2)
  | WRef a q =>
      if String.eqb a "" then ("", fail st)
      else if inline_with o then
        let '(s, st1) := rsel rexpr q (del_noalias o) st in
        ("(" ++ s ++ ")" ++ (if no_alias o then "" else " as " ++ a), st1)
      else (a, st)
  | Col x a => let '(s, st1) := rexpr x (add_noalias o) st in
               ((if String.eqb a "" then s else s ++ " as " ++ a), st1)
  | Ord x asc => let '(s, st1) := rexpr x o st in (s ++ " " ++ (if asc then "asc" else "desc"), st1)
  | CtxParam _ def => match def with Some d => (d, st) | None => ("", fail st) end
  | Fn name args => let '(ss, st1) := rlist rexpr args o st in (name ++ "(" ++ join ", " ss ++ ")", st1)
  | Sep sep parts => let '(ss, st1) := rlist rexpr parts o st in (join sep ss, st1)
  | BitSetAnd cl => let '(ss, st1) := rlist rexpr cl o st in
                    ("groupBitOr(" ++ join " + " (bitset_parts ss 0%N) ++ ")", st1)
  | WithId f => let id := (r_id st + 1)%N in rexpr (f id) o {| r_id := id; r_err := r_err st |}
  | SubQ q => rsel rexpr q o st
  end.

Definition render_select (s : select) (o : opts) (st : rst) : string * rst := rsel rexpr s o st.

(* top-level: q.String(&sql.Ctx{...}, opts...) ; None = an error was returned *)
Definition render (s : select) (cluster : bool) : option string :=
  let '(txt, st) := render_select s (if cluster then inline_opts else no_opts) rst0 in
  if r_err st then None else Some txt.
