(* The settings table as ClickHouse keeps it (property C19): every putSetting INSERTs a row (fingerprint, value,
   inserted_at); getSetting's argMax(value, inserted_at) may return the value of ANY row of the fingerprint whose
   stamp is maximal (which one among equal stamps is unspecified).  model/Rotate.v uses the map "fingerprint ->
   value of the row inserted last"; proofs/RotateClockProofs.v says when that is what ClickHouse answers: whenever
   the stamps of a fingerprint strictly increase in insertion order.  Executable definitions only. *)
From Coq Require Import List ZArith Bool String Ascii.
Import ListNotations.
Open Scope string_scope.
Open Scope Z_scope.

Record row := { r_key : Z; r_val : string; r_ts : Z }.

(* rows in insertion order, oldest first *)
Definition rows_of (rows : list row) (k : Z) : list row := filter (fun r => r_key r =? k) rows.

(* an answer ClickHouse may give for fingerprint k: the value of a row with a maximal stamp; "" when there is no row *)
Definition may_read (rows : list row) (k : Z) (v : string) : Prop :=
  (rows_of rows k = [] /\ v = "") \/
  exists r, In r (rows_of rows k) /\ r_val r = v /\ forall r', In r' (rows_of rows k) -> r_ts r' <= r_ts r.

(* the value of the row inserted last: the settings map of model/Rotate.v *)
Definition latest (rows : list row) (k : Z) : string := match rev (rows_of rows k) with r :: _ => r_val r | [] => "" end.

(* the stamps of every fingerprint strictly increase in insertion order *)
Fixpoint increasing (l : list row) : Prop :=
  match l with
  | [] => True
  | r :: rest => (forall r', In r' rest -> r_ts r < r_ts r') /\ increasing rest
  end.
Definition strict (rows : list row) : Prop := forall k, increasing (rows_of rows k).

(* the stamps: NOW() is the server clock (ns) truncated to the second, now64(9) the clock itself *)
Definition stamp_now (clock_ns : Z) : Z := clock_ns - clock_ns mod 1000000000.
Definition stamp_now64 (clock_ns : Z) : Z := clock_ns.

