(* Reference meaning of the profile selector query (ProfSel.prof_selector) over profiles_series_gin,
   and its list-function reading.  The generic interpreter is PromSem.ev / eval_fpq; this file adds the
   row environment of profiles_series_gin and the reading the theorems are stated over.
   TRUSTED together with PromSem.v.  Executable definitions only. *)
From Coq Require Import List ZArith NArith String Ascii Bool.
From Qryn Require Import lib.Strs model.Sql model.Logql model.LogqlPlan model.PromSelect model.PromSem model.ProfSel.
Import ListNotations.
Open Scope string_scope.

(* one row of profiles_series_gin: (date, key, val, type_id, sample_types_units, service_name, fingerprint) *)
Record pginrow := { pg_date : Z; pg_key : string; pg_val : string; pg_fp : N; pg_type_id : string;
                    pg_service : string; pg_stu : list (string * string) }.

Definition type_parts (r : pginrow) : list string := split_char ":" (pg_type_id r) "".
Definition pgin_env (r : pginrow) : env := fun n =>
  if String.eqb n "date" then Some (VI (pg_date r))
  else if String.eqb n "key" then Some (VS (pg_key r))
  else if String.eqb n "val" then Some (VS (pg_val r))
  else if String.eqb n "fingerprint" then Some (VI (Z.of_N (pg_fp r)))
  else if String.eqb n "type_id" then Some (VS (pg_type_id r))
  else if String.eqb n "service_name" then Some (VS (pg_service r))
  else if String.eqb n "sample_types_units" then Some (VArr (map (fun ab => VTup [VS (fst ab); VS (snd ab)]) (pg_stu r)))
  else if String.eqb n "_parts" then Some (VArr (map VS (type_parts r)))      (* (splitByChar(':', type_id) as _parts) *)
  else None.

Section PREADING.
  Variable re : string -> string -> bool.        (* the regular-expression oracle used for =~ / !~ *)

  Definition cmp_ok (op : mop) (v x : string) : bool :=
    match op with
    | MEq => String.eqb x v
    | MNeq => negb (String.eqb x v)
    | MRe => re x v
    | MNre => negb (re x v)
    end.

  (* the attributes of a profile series that the pseudo labels look at *)
  Definition pseudo_ok (p : pseudo) (op : mop) (v : string) (parts : list string) (service : string) (stu : list (string * string)) : bool :=
    let part := fun k => nth k parts "" in
    match p with
    | PName => cmp_ok op v (part 0%nat)
    | PPeriodType => cmp_ok op v (part 1%nat)
    | PPeriodUnit => cmp_ok op v (part 2%nat)
    | PSampleType => existsb (fun ab => cmp_ok op v (fst ab)) stu
    | PSampleUnit => existsb (fun ab => cmp_ok op v (snd ab)) stu
    | PProfileType => existsb (fun ab => cmp_ok op v (subst_braces "{}:{}:{}:{}:{}" [part 0%nat; fst ab; snd ab; part 1%nat; part 2%nat])) stu
    | PServiceName => cmp_ok op v service
    end.
  Definition global_ok (g : pseudo * mop * string) (r : pginrow) : bool :=
    let '(p, op, v) := g in pseudo_ok p op v (type_parts r) (pg_service r) (pg_stu r).

  (* getMatchers: the selectors split into pseudo-label conditions and key/value conditions *)
  Fixpoint split_selectors (sels : list selector) : list (pseudo * mop * string) * list selector :=
    match sels with
    | [] => ([], [])
    | s :: r =>
      let '(g, kv) := split_selectors r in
      match pseudo_of (sl_name s) with
      | Some p => ((p, sl_op s, sl_val s) :: g, kv)
      | None => (g, s :: kv)
      end
    end.

  Definition to_gin (r : pginrow) : ginrow :=
    {| g_date := pg_date r; g_key := pg_key r; g_val := pg_val r; g_fp := pg_fp r; g_type := 0 |}.
  Definition sel_clause_of (s : selector) : clause :=
    clause_of {| m_name := sl_name s; m_op := sl_op s; m_val := sl_val s |}.

  Definition prow_ok (D1 D2 : Z) (g : list (pseudo * mop * string)) (cs : list clause) (r : pginrow) : bool :=
    (D1 <=? pg_date r)%Z && (pg_date r <=? D2)%Z && forallb (fun x => global_ok x r) g
    && match cs with [] => true | _ => existsb (fun c => eval_clause re c (to_gin r)) cs end.

  Definition prof_fp_sel (D1 D2 : Z) (sels : list selector) (rows : list pginrow) : list N :=
    let '(g, kv) := split_selectors sels in
    let cs := map sel_clause_of kv in
    let rows1 := filter (prow_ok D1 D2 g cs) rows in
    let fps := nodup N.eq_dec (map pg_fp rows1) in
    match cs with
    | [] => fps
    | _ => filter (fun fp => N.eqb (group_bit_or re cs (group_of (map to_gin rows1) fp)) (2 ^ (N.of_nat (List.length cs)) - 1)) fps
    end.
End PREADING.

(* ---- the reading of Process since the absent-label fix: pos = the indexed selectors, neg = the inverses of the selectors
   that accept "" on a stored label; a fingerprint with an index row (inside the date bounds) satisfying one of the
   inverses is left out.  The exclusion is applied to the rows before grouping; it depends on the fingerprint only. ---- *)
Definition prof_rejected (re : string -> string -> bool) (D1 D2 : Z) (neg : list selector) (rows : list pginrow) (fp : N) : bool :=
  existsb (fun n => existsb (N.eqb fp) (prof_fp_sel re D1 D2 [n] rows)) neg.
Definition prof_fp_sel_abs (re : string -> string -> bool) (D1 D2 : Z) (pos neg : list selector) (rows : list pginrow) : list N :=
  prof_fp_sel re D1 D2 pos (filter (fun r => negb (prof_rejected re D1 D2 neg rows (pg_fp r))) rows).

(* the statement's meaning under the generic interpreter; a fingerprint query may itself use
   fingerprint IN (SELECT fingerprint ..) (one level: the sub-queries are plain index queries over the same table) *)
Definition prof_cte (re : string -> string -> bool) (rows : list pginrow) : select -> option (list N) :=
  fun q' => Some (eval_fpq re no_cte q' (map pgin_env rows)).
Definition eval_prof_sel (re : string -> string -> bool) (q : select) (rows : list pginrow) : list N :=
  eval_fpq re (prof_cte re rows) q (map pgin_env rows).
