(* C10 — the segmented renderer applied to the statements of the Tempo v1 API as modelled by C13 (model/ScansTempo.v: SQLIndexQuery.String,
   GetTracesQuery, GetQueryRequest, GetValuesRequest over model/Sql.v trees, tied byte for byte to reader/tempo and
   reader/service/tempoService.go by C13's check and, on the hostile requests, by checks/c10sel.py).  Executable definitions only. *)
From Coq Require Import List ZArith NArith String Ascii Bool.
From Qryn Require Import lib.Strs model.Sql model.SqlRender model.Scans model.ScansTempo model.ChLex model.SqlPieces model.SqlPiecesCases
  model.SqlPiecesSel.
Import ListNotations.
Open Scope string_scope.

(* a statement of the service (search / one trace / tag values), or the index sub-query alone (tempo.SQLIndexQuery) *)
Inductive tv1_req :=
 | TvService (c : tv1_case)
 | TvIndex (db : string) (dist : bool) (tags : list tag) (from_ns to_ns min_d max_d limit : Z) (v2 : bool).
Definition tv1_tree (r : tv1_req) : option select :=
  match r with
  | TvService c => Some (tv1_select c)
  | TvIndex db dist tags f t mn mx lim v2 => index_query db dist tags f t mn mx lim v2
  end.
Definition tv1_pieces (r : tv1_req) : option pstmt :=
  match tv1_tree r with Some q => stmt_of q false | None => None end.

(* tag conditions that differ only in key and value: same operator *)
Definition tag_variant (t t' : tag) : Prop := tg_op t = tg_op t'.
