(* Correspondence cases for property C11: what the harness observed when it ran the real parser
   and planners on a query, and the functions that compare it with the model.
   Executable definitions only. *)
From Coq Require Import List ZArith QArith String Ascii Bool Uint63.
From Qryn Require Import model.TqSql model.Traceql model.TraceqlPlan model.TraceqlSem model.TraceqlKey.
Import ListNotations.
Open Scope string_scope.

(* Transport of byte strings into case files: Coq's string notation costs ~80 us per byte to
   parse, primitive integers do not.  A string travels as a list of 63-bit integers, seven 9-bit
   slots each (low slot first); a slot holds byte+1, 0 ends the string. *)
Definition bit_of (v : int) (k : int) : bool := negb (Uint63.is_zero (Uint63.land (Uint63.lsr v k) 1%uint63)).
Definition ascii_of_int (v : int) : ascii :=
  Ascii (bit_of v 0%uint63) (bit_of v 1%uint63) (bit_of v 2%uint63) (bit_of v 3%uint63)
        (bit_of v 4%uint63) (bit_of v 5%uint63) (bit_of v 6%uint63) (bit_of v 7%uint63).
Fixpoint dec_slots (k : nat) (x : int) : string :=
  match k with
  | O => ""
  | S k' => let v := Uint63.land x 511%uint63 in
            if Uint63.is_zero v then "" else String (ascii_of_int (Uint63.sub v 1%uint63)) (dec_slots k' (Uint63.lsr x 9%uint63))
  end.
Fixpoint S_ (l : list int) : string :=
  match l with [] => "" | x :: r => dec_slots 7 x ++ S_ r end.

(* fingerprint of a byte string: two polynomial hashes modulo 2^63 and the length.  The bulk of
   the cases carries only the fingerprint of the observed SQL text (the check computes the same
   function over the observed bytes); a sample and every disagreeing case carry the text itself
   and the object tree. *)
Definition int_of_ascii (a : ascii) : int :=
  match a with
  | Ascii b0 b1 b2 b3 b4 b5 b6 b7 =>
      ((if b0 then 1 else 0) + (if b1 then 2 else 0) + (if b2 then 4 else 0) + (if b3 then 8 else 0) +
       (if b4 then 16 else 0) + (if b5 then 32 else 0) + (if b6 then 64 else 0) + (if b7 then 128 else 0))%uint63
  end.
Fixpoint fp_go (s : string) (h1 h2 n : int) : int * int * int :=
  match s with
  | EmptyString => (h1, h2, n)
  | String c r => let v := (int_of_ascii c + 1)%uint63 in
                  fp_go r (h1 * 1000003 + v)%uint63 (h2 * 998244353 + v)%uint63 (n + 1)%uint63
  end.
Definition fingerprint (s : string) : int * int * int := fp_go s 7%uint63 11%uint63 0%uint63.
Definition fp_eqb (a b : int * int * int) : bool :=
  Uint63.eqb (fst (fst a)) (fst (fst b)) && Uint63.eqb (snd (fst a)) (snd (fst b)) && Uint63.eqb (snd a) (snd b).

(* one call of Process on the planner *)
Inductive obs :=
 | ObsSql (fp : int * int * int) (text : option string) (tree : option select)
     (* fingerprint of the text of Select.String; the text and the object tree it was printed from *)
 | ObsErr (e : perr)                        (* Plan or Process returned this error *)
 | ObsOtherErr                              (* an error the model has no class for *)
 | ObsPanic.

Record case := {
  c_id : Z;
  c_q : script;
  c_mode : mode;
  c_ctx : ctx;
  c_obs : list (Z * obs);     (* per call: RandomFilter.I of that call, observation *)
  c_dbs : list db;            (* generated attribute-index contents for the semantic oracle *)
  c_keys : list string        (* what the REAL AttrSelector.String() printed for every term of the script (TraceqlKey.script_terms order) *)
}.

Definition with_rf_i (c : ctx) (i : Z) : ctx :=
  {| from_ns := from_ns c; to_ns := to_ns c; from_date := from_date c; to_date := to_date c;
     ffd_from := ffd_from c; ffd_to := ffd_to c; limit := limit c; is_cluster := is_cluster c;
     rf_max := rf_max c; rf_i := i; cached := cached c;
     attrs_table := attrs_table c; attrs_dist_table := attrs_dist_table c; traces_table := traces_table c;
     traces_dist_table := traces_dist_table c; kv_dist_table := kv_dist_table c |}.

Definition perr_eqb (a b : perr) : bool :=
  match a, b with
  | EUnsupportedAttr, EUnsupportedAttr | EUnsupportedStmt, EUnsupportedStmt | ENotSupportedOp, ENotSupportedOp
  | ENotTimeValue, ENotTimeValue | EBadDuration, EBadDuration | EBadNumber, EBadNumber | EUnquote, EUnquote
  | EComplexNotSupported, EComplexNotSupported | EEmptySelAgg, EEmptySelAgg | EEmptySelOr, EEmptySelOr
  | EOrEmptySel, EOrEmptySel | EAggNoAttr, EAggNoAttr => true
  | _, _ => false
  end.

(* inside the modelled domain of FloatVal's text (at most 15 significant digits) the literal printed into the
   statement parses back to exactly the query's number; beyond it float64 itself rounds *)
Definition value_lit_ok (v : Traceql.value) : bool :=
  match fmt_f_dec (v_f v) with Some _ => lit_exact v | None => true end.
Definition agg_lit_ok (g : aggregator) : bool :=
  if String.eqb (g_attr g) "duration" then
    match parse_duration_dec (g_num g ++ g_meas g) with Some (Some _) => agg_guard g && agg_lit_exact g | _ => true end
  else match fmt_f_dec (g_num g ++ g_meas g) with
       | Some _ => agg_lit_exact g && (if String.eqb (g_meas g) "" then agg_guard g else true)
       | None => true end.
Fixpoint exp_lits_ok (e : attr_exp) : bool :=
  match e with
  | AExp h _ tl =>
      match h with HTerm t => value_lit_ok (a_val t) | HParen e' => exp_lits_ok e' end
      && match tl with Some t' => exp_lits_ok t' | None => true end
  end.
Fixpoint script_lits_ok (s : script) : bool :=
  match s with
  | Script h _ tl =>
      match sel_attr h with Some e => exp_lits_ok e | None => true end
      && match sel_agg h with Some g => agg_lit_ok g | None => true end
      && match tl with Some s' => script_lits_ok s' | None => true end
  end.

(* oracle fields of every value/aggregator of the script agree with the modelled domain *)
Fixpoint exp_oracles_ok (e : attr_exp) : bool :=
  match e with
  | AExp h _ tl =>
      match h with HTerm t => value_oracles_ok (a_val t) | HParen e' => exp_oracles_ok e' end
      && match tl with Some t' => exp_oracles_ok t' | None => true end
  end.
Fixpoint script_oracles_ok (s : script) : bool :=
  match s with
  | Script h _ tl =>
      match sel_attr h with Some e => exp_oracles_ok e | None => true end
      && match tl with Some s' => script_oracles_ok s' | None => true end
  end.

(* codes: 1 = outcome class differs (statement / error class / panic); 2 = text of the model's
   statement differs from the observed text; 3 = the dumped object tree does not print to the
   observed text (the dump or its translation is wrong); 4 = library values inconsistent;
   5 = a numeric literal, as printed into the statement, does not parse back to the query's number;
   6 = a term of the parsed script is outside what the grammar is said to guarantee (TraceqlKey.terms_grammar: the hypothesis
       from which keys_ok is PROVED), 7 = the de-duplication key of the model (attr_sel_string) is not the text the real
       AttrSelector.String() printed for that term *)
Definition text_ok (rendered : string) (fp : int * int * int) (text : option string) : bool :=
  fp_eqb (fingerprint rendered) fp && match text with Some t => String.eqb rendered t | None => true end.

Definition call_mismatch (cs : case) (n : nat) (o : Z * obs) : list Z :=
  let c := with_rf_i (c_ctx cs) (fst o) in
  let m := plan (c_q cs) (c_mode cs) c n in
  match snd o with
  | ObsSql fp text tree =>
      (match m with Ok s => if text_ok (render s) fp text then [] else [2%Z] | _ => [1%Z] end)
      ++ (match tree with Some t => if text_ok (render t) fp text then [] else [3%Z] | None => [] end)
  | ObsErr e => match m with Err e' => if perr_eqb e e' then [] else [1%Z] | _ => [1%Z] end
  | ObsPanic => match m with Panic => [] | _ => [1%Z] end
  | ObsOtherErr => [1%Z]
  end.

Fixpoint calls_mismatch (cs : case) (n : nat) (l : list (Z * obs)) : list Z :=
  match l with [] => [] | o :: r => (call_mismatch cs n o ++ calls_mismatch cs (S n) r)%list end.

Definition case_mismatch (cs : case) : list Z :=
  ((if script_oracles_ok (c_q cs) then [] else [4%Z]) ++ (if script_lits_ok (c_q cs) then [] else [5%Z])
   ++ (if script_terms_grammar (c_q cs) then [] else [6%Z]) ++ (if keys_tie (c_q cs) (c_keys cs) then [] else [7%Z])
   ++ calls_mismatch cs 1 (c_obs cs))%list.

Definition mismatches (l : list case) : list (Z * Z) :=
  flat_map (fun cs => map (fun code => (c_id cs, code)) (case_mismatch cs)) l.

(* the statement of a call that the oracles look at: the implementation's own object tree when
   the case carries it, otherwise the model's statement (whose text was just compared) *)
Definition stmt_of (cs : case) (n : nat) (o : Z * obs) : option select :=
  match snd o with
  | ObsSql _ _ (Some t) => Some t
  | ObsSql _ _ None => match plan (c_q cs) (c_mode cs) (with_rf_i (c_ctx cs) (fst o)) n with Ok s => Some s | _ => None end
  | _ => None
  end.
Fixpoint stmts_of (cs : case) (n : nat) (l : list (Z * obs)) : list select :=
  match l with
  | [] => []
  | o :: r => match stmt_of cs n o with Some s => s :: stmts_of cs (S n) r | None => stmts_of cs (S n) r end
  end.

(* specification oracle, part 1 (syntax): every statement the implementation built is well formed *)
Definition case_illformed (cs : case) : bool :=
  existsb (fun s => negb (wf_sel s)) (stmts_of cs 1 (c_obs cs)).
Definition spec_violations (l : list case) : list Z :=
  map c_id (filter case_illformed l).

(* ================================================================ semantic oracle *)
(* Concrete instances of the three library functions for the generated databases.  The theorems
   hold for every instance; the oracle needs one.  re_toy: literals, '.', [0-9], postfix * and +,
   ^ and $ anchors, top-level alternation; partial match like RE2's match(). *)
Inductive atom := AChar (c : ascii) | AAny | ADigit | AEnd.
Inductive quant := QOne | QStar | QPlus.
Definition atom_ok (a : atom) (c : ascii) : bool :=
  match a with AChar x => Ascii.eqb x c | AAny => true | ADigit => is_digit c | AEnd => false end.
Fixpoint re_items (fuel : nat) (p : string) : list (atom * quant) :=
  match fuel with
  | O => []
  | S f =>
    let '(a, rest) :=
      match p with
      | EmptyString => (None, EmptyString)
      | String "." r => (Some AAny, r)
      | String "$" EmptyString => (Some AEnd, EmptyString)
      | String "[" r => if has_prefix "0-9]" r then (Some ADigit, drop 4 r) else (Some (AChar "["), r)
      | String c r => (Some (AChar c), r)
      end in
    match a with
    | None => []
    | Some at_ =>
        match rest with
        | String "*" r => (at_, QStar) :: re_items f r
        | String "+" r => (at_, QPlus) :: re_items f r
        | _ => (at_, QOne) :: re_items f rest
        end
    end
  end.
Fixpoint m_here (p : list (atom * quant)) (s : string) {struct p} : bool :=
  match p with
  | [] => true
  | (AEnd, _) :: _ => match s with EmptyString => true | _ => false end
  | (a, QOne) :: p' => match s with String c s' => atom_ok a c && m_here p' s' | EmptyString => false end
  | (a, QStar) :: p' =>
      (fix star (t : string) : bool :=
         m_here p' t || match t with String c t' => atom_ok a c && star t' | EmptyString => false end) s
  | (a, QPlus) :: p' =>
      match s with
      | String c s' => atom_ok a c &&
          (fix star (t : string) : bool :=
             m_here p' t || match t with String c' t' => atom_ok a c' && star t' | EmptyString => false end) s'
      | EmptyString => false
      end
  end.
Fixpoint m_any (p : list (atom * quant)) (s : string) : bool :=
  m_here p s || match s with String _ s' => m_any p s' | EmptyString => false end.
Fixpoint split_bar (s cur : string) : list string :=
  match s with
  | EmptyString => [cur]
  | String "|" r => cur :: split_bar r EmptyString
  | String c r => split_bar r (cur ++ String c EmptyString)
  end.
Definition re_alt (p s : string) : bool :=
  match p with
  | String "^" r => m_here (re_items (S (String.length r)) r) s
  | _ => m_any (re_items (S (String.length p)) p) s
  end.
Definition re_toy (p s : string) : bool := existsb (fun a => re_alt a s) (split_bar p EmptyString).

Definition float_toy (s : string) : option Q := match parse_dec s with Some d => Some (dec_Q d) | None => None end.
Fixpoint hash_toy (s : string) : Z := match s with EmptyString => 7%Z | String c r => (Z.of_N (N_of_ascii c) + 31 * hash_toy r)%Z end.

(* the rows of the CTE index_grouped of a search statement: which traces, which spans.  The WITH entries are evaluated in
   the order they are printed, each seeing the earlier ones, up to `target`.  Generic in the three library functions (the
   theorems of props/C11.v are about index_rows_g for every instance); the oracle runs the toy instances. *)
Section ROWS.
  Variable re_match : string -> string -> bool.
  Variable parse_float : string -> option Q.
  Variable hash64 : string -> Z.
  Fixpoint eval_until_g (c : ctx) (d : db) (target : string) (withs : list (string * select)) (cte : env) : option table :=
    match withs with
    | [] => None
    | (a, q) :: r =>
        match eval_sel re_match parse_float hash64 [(attrs_table c, map row_of_irow d)] 12 cte false q with
        | Some t => if String.eqb a target then Some t else eval_until_g c d target r ((a, t) :: cte)
        | None => None
        end
    end.
  Definition index_rows_g (c : ctx) (d : db) (s : select) : option (list (string * list string)) :=
    match eval_until_g c d "index_grouped" (s_withs s) [] with
    | None => None
    | Some t =>
        all_some (map (fun r => match lookup "trace_id" r, lookup "span_id" r with
                                | Some (VStr tr), Some (VArr l) =>
                                    match all_some (map (fun v => match v with VStr x => Some x | _ => None end) l) with
                                    | Some sp => Some (tr, sp) | None => None end
                                | _, _ => None end) t)
    end.
  (* the same with the statement fuel as a parameter (eval_until_g / index_rows_g = fuel 12): a chain of k selectors nests
     2 levels of sub-queries per && / || node, the theorems about chains are stated for every sufficient fuel *)
  Fixpoint eval_until_gf (fuel : nat) (c : ctx) (d : db) (target : string) (withs : list (string * select)) (cte : env) : option table :=
    match withs with
    | [] => None
    | (a, q) :: r =>
        match eval_sel re_match parse_float hash64 [(attrs_table c, map row_of_irow d)] fuel cte false q with
        | Some t => if String.eqb a target then Some t else eval_until_gf fuel c d target r ((a, t) :: cte)
        | None => None
        end
    end.
  Definition index_rows_gf (fuel : nat) (c : ctx) (d : db) (s : select) : option (list (string * list string)) :=
    match eval_until_gf fuel c d "index_grouped" (s_withs s) [] with
    | None => None
    | Some t =>
        all_some (map (fun r => match lookup "trace_id" r, lookup "span_id" r with
                                | Some (VStr tr), Some (VArr l) =>
                                    match all_some (map (fun v => match v with VStr x => Some x | _ => None end) l) with
                                    | Some sp => Some (tr, sp) | None => None end
                                | _, _ => None end) t)
    end.
End ROWS.
Definition eval_until := eval_until_g re_toy float_toy hash_toy.
Definition index_rows := index_rows_g re_toy float_toy hash_toy.

(* the portion of a complex request: only traces of this hash class, or already found *)
Definition in_portion (c : ctx) (t : string) : bool :=
  Z.eqb (rf_max c) 0 || Z.eqb (Z.modulo (hash_toy t) (rf_max c)) (rf_i c) || existsb (String.eqb t) (cached c).

Definition same_set (a b : list string) : bool :=
  forallb (fun x => existsb (String.eqb x) b) a && forallb (fun x => existsb (String.eqb x) a) b.

(* does the statement's answer agree with the meaning of the script: every returned trace matches, with
   its matched spans; all matching traces are returned, or the `limit` most recent of them *)
Definition result_ok_j (J : list string -> list string -> bool) (c : ctx) (all : list tres) (res : list (string * list string)) : bool :=
  let keyed := flat_map (fun r => match find_tres (fst r) all with
                                  | Some t => if J (snd r) (t_spans t) then [t] else []
                                  | None => [] end) res in
  Nat.eqb (List.length keyed) (List.length res)
  && distinct_strs (map fst res)
  && is_topk (limit c) all keyed.
Definition result_ok : ctx -> list tres -> list (string * list string) -> bool := result_ok_j same_set.

(* the judgement when a span list may be cut at k ids (groupArray(k) / groupUniqArray(k)): the returned ids are distinct matched spans of
   the trace, all of them if there are at most k, else k of them -- WHICH k is not judged (ClickHouse does not promise an order for
   groupArray's input and none at all for groupUniqArray) *)
Definition cap_set (k : nat) (got ref : list string) : bool :=
  forallb (fun x => existsb (String.eqb x) ref) got && distinct_strs got && Nat.eqb (List.length got) (Nat.min k (List.length ref)).
Definition result_ok_cap (k : nat) : ctx -> list tres -> list (string * list string) -> bool := result_ok_j (cap_set k).

(* 0 = agrees; 1 = the statement does not evaluate (unknown column, unsupported construct: ClickHouse
   would answer with an error); 2 = evaluates to a different answer *)
Definition sem_code (cs : case) (n : nat) (o : Z * obs) (d : db) : Z :=
  let c := with_rf_i (c_ctx cs) (fst o) in
  match stmt_of cs n o with
  | None => 0%Z
  | Some s =>
      match index_rows c d s with
      | None => 1%Z
      | Some res =>
          let all := filter (fun t => in_portion c (t_trace t)) (traceql_sem re_toy float_toy false c d (c_q cs)) in
          if result_ok c all res then 0%Z else 2%Z
      end
  end.
Fixpoint sem_calls (cs : case) (n : nat) (l : list (Z * obs)) : list Z :=
  match l with
  | [] => []
  | o :: r => (map (sem_code cs n o) (c_dbs cs) ++ sem_calls cs (S n) r)%list
  end.
Definition has_attr_everywhere (q : script) : bool := all_have_attr q.
(* only searches are judged here (tag / value listings answer with attribute names, not traces) and only
   scripts without `{}` (answered from the traces table) *)
Definition sem_case (cs : case) : Z :=
  match c_mode cs with
  | MSearch => if has_attr_everywhere (c_q cs) then fold_left Z.max (sem_calls cs 1 (c_obs cs)) 0%Z else 0%Z
  | _ => 0%Z
  end.
Definition sem_violations (l : list case) : list (Z * Z) :=
  flat_map (fun cs => let v := sem_case cs in if Z.eqb v 0 then [] else [(c_id cs, v)]) l.
