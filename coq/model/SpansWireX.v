(* Events and status of the stored OTLP span on the wire (property C06): extension of model/SpansWire.v.

   The write path (OTLPDecoder.Decode) leaves a span's events and status untouched and re-marshals the span; the read path
   (parseOTLPPB = proto.Unmarshal, then parseOTLP) returns them as stored and substitutes Status{UNSET} when the payload carries no
   status.  proto.Marshal emits known fields in field-number order, so the bytes of a span with events (field 11) and a status
   (field 15) are the bytes of SpansWire.enc_span followed by those fields.

     Span.Event : time_unix_nano = 1 (fixed64), name = 2 (string), attributes = 3 (repeated KeyValue), dropped_attributes_count = 4 (uint32)
     Status     : message = 2 (string), code = 3 (enum, varint)

   Executable definitions only; the round trip is proved in proofs/SpansWireXProofs.v. *)
From Coq Require Import List ZArith NArith Bool String Ascii Uint63.
From Qryn Require Import model.Spans model.SpansChunk model.SpansWire model.SpansStore.
Import ListNotations.
Open Scope string_scope.
Open Scope Z_scope.

Record oevent := { e_time : Z; e_name : string; e_attrs : attrs; e_dropped : Z (* dropped_attributes_count = 4, uint32 *) }.
Record ostatus := { s_msg : string; s_code : Z }.
(* what the span carries besides the fields of Spans.ospan *)
Record oextra := { x_events : list oevent; x_status : option ostatus }.
Definition no_extra : oextra := {| x_events := []; x_status := None |}.

Definition fields_event (e : oevent) : list field :=
  (fixed64_field 1 (e_time e) ++ bytes_field 2 (e_name e) ++ map (fun kv => (3%N, RBytes (enc_kv kv))) (e_attrs e)
   ++ varint_field 4 (e_dropped e))%list.
Definition enc_event (e : oevent) : string := ser_fields (fields_event e).
Definition fields_status (s : ostatus) : list field := (bytes_field 2 (s_msg s) ++ varint_field 3 (s_code s))%list.
Definition enc_status (s : ostatus) : string := ser_fields (fields_status s).
Definition fields_extra (x : oextra) : list field :=
  (map (fun e => (11%N, RBytes (enc_event e))) (x_events x)
   ++ match x_status x with Some s => [(15%N, RBytes (enc_status s))] | None => [] end)%list.
Definition enc_spanx (s : ospan) (x : oextra) : string := ser_fields (fields_span s ++ fields_extra x).

(* ------------------------------------------------------------------ decoding *)
Definition event0 : oevent := {| e_time := 0; e_name := EmptyString; e_attrs := []; e_dropped := 0 |}.
Definition u32_of (n : N) : Z := Z.of_N n mod 4294967296.       (* a uint32 read from a varint: truncated *)
Definition event_step (st : oevent) (f : field) : option oevent :=
  let '(n, v) := f in
  match v with
  | RFixed64 x => if (n =? 1)%N then Some {| e_time := Z.of_N x; e_name := e_name st; e_attrs := e_attrs st; e_dropped := e_dropped st |} else Some st
  | RBytes b => if (n =? 2)%N then Some {| e_time := e_time st; e_name := b; e_attrs := e_attrs st; e_dropped := e_dropped st |} else Some st
  | RVarint x => if (n =? 4)%N then Some {| e_time := e_time st; e_name := e_name st; e_attrs := e_attrs st; e_dropped := u32_of x |} else Some st
  | _ => Some st
  end.
Definition dec_event (fuel : nat) (b : string) : option oevent :=
  match raw_fields b with
  | None => None
  | Some fs =>
      match fold_opt event_step fs event0, dec_kvs (dec_any_f fuel) 3 fs with
      | Some st, Some a => Some {| e_time := e_time st; e_name := e_name st; e_attrs := a; e_dropped := e_dropped st |}
      | _, _ => None
      end
  end.
Fixpoint dec_events (fuel : nat) (fs : list field) : option (list oevent) :=
  match fs with
  | [] => Some []
  | (n, v) :: r =>
      match v with
      | RBytes b =>
          if (n =? 11)%N then
            match dec_event fuel b with
            | Some e => match dec_events fuel r with Some l => Some (e :: l) | None => None end
            | None => None
            end
          else dec_events fuel r
      | _ => dec_events fuel r
      end
  end.
Definition status0 : ostatus := {| s_msg := EmptyString; s_code := 0 |}.
Definition status_step (st : ostatus) (f : field) : option ostatus :=
  let '(n, v) := f in
  match v with
  | RBytes b => if (n =? 2)%N then Some {| s_msg := b; s_code := s_code st |} else Some st
  | RVarint x => if (n =? 3)%N then Some {| s_msg := s_msg st; s_code := int32_of x |} else Some st
  | _ => Some st
  end.
(* a repeated occurrence of the message field is merged into the previous one *)
Fixpoint dec_status (fs : list field) (st : option ostatus) : option (option ostatus) :=
  match fs with
  | [] => Some st
  | (n, v) :: r =>
      match v with
      | RBytes b =>
          if (n =? 15)%N then
            match raw_fields b with
            | Some sf => match fold_opt status_step sf (match st with Some s => s | None => status0 end) with
                         | Some s' => dec_status r (Some s')
                         | None => None
                         end
            | None => None
            end
          else dec_status r st
      | _ => dec_status r st
      end
  end.
Definition dec_spanx (b : string) : option (ospan * oextra) :=
  match dec_span b, raw_fields b with
  | Some s, Some fs =>
      match dec_events (String.length b) fs, dec_status fs None with
      | Some ev, Some st => Some (s, {| x_events := ev; x_status := st |})
      | _, _ => None
      end
  | _, _ => None
  end.

(* ------------------------------------------------------------------ the domain of the round trip *)
Definition event_ok (e : oevent) : bool :=
  (0 <=? e_time e) && (e_time e <? two64) && (0 <=? e_dropped e) && (e_dropped e <? 4294967296) && forallb (fun kv => any_ok (snd kv)) (e_attrs e).
Definition status_ok (s : ostatus) : bool := (0 <=? s_code s) && (s_code s <? 2147483648).
Definition extra_ok (x : oextra) : bool :=
  forallb event_ok (x_events x) && match x_status x with Some s => status_ok s | None => true end.

(* ------------------------------------------------------------------ read path: parseOTLP leaves events alone, status defaults to UNSET *)
Definition read_extra (x : oextra) : list (Z * string) * Z :=
  (map (fun e => (e_time e, e_name e)) (x_events x), match x_status x with Some s => s_code s | None => 0 end).

(* ------------------------------------------------------------------ cases *)
(* per OTLP request: the extras of its spans in batch order, per stored row (byte length, fingerprints) of the real payload column, and per
   row the (events, status code) OutputQuery returned *)
Record xcase := {
  xc_id : Z; xc_in : input;
  xc_extra : list oextra;
  xc_obs : list (Z * (int * int));
  xc_read : list (option (list (Z * string) * Z))
}.
Fixpoint zip_extra (rows : list span_rows) (xs : list oextra) : list (span_rows * oextra) :=
  match rows with
  | [] => []
  | r :: rows' => match xs with x :: xs' => (r, x) :: zip_extra rows' xs' | [] => (r, no_extra) :: zip_extra rows' [] end
  end.
Definition wirex_of (p : span_rows * oextra) : option (Z * (int * int)) :=
  match t_payload (fst (fst p)) with
  | POtlp s => let b := enc_spanx s (snd p) in Some (zlen b, fp61 b)
  | _ => None
  end.
Definition ev_eqb (a b : Z * string) : bool := (fst a =? fst b) && String.eqb (snd a) (snd b).
Definition wirex_matches (c : xcase) : bool :=
  let '(rows, _) := decode_stream fixed (xc_in c) in
  let zs := zip_extra rows (xc_extra c) in
  all2 (fun o z => match wirex_of z with Some w => obs_eqb w o | None => false end)
       (xc_obs c) (firstn (List.length (xc_obs c)) zs)
  && Nat.leb (List.length (xc_obs c)) (List.length rows)
  (* the read path returns the pushed events and status *)
  && all2 (fun o z => match o with
                      | Some (ev, code) => list_eqb ev_eqb ev (fst (read_extra (snd z))) && (code =? snd (read_extra (snd z)))
                      | None => true      (* the missing span is reads_ok's matter *)
                      end)
          (xc_read c) (firstn (List.length (xc_read c)) zs).
(* the property's demand on the OBSERVED read-back, independent of the decoders' model: the k-th stored span of a request returns the events
   (time, name) and the status code of the k-th pushed span *)
Fixpoint xread_ok (os : list (option (list (Z * string) * Z))) (xs : list oextra) : bool :=
  match os, xs with
  | o :: os', x :: xs' =>
      match o with
      | Some (ev, code) => list_eqb ev_eqb ev (fst (read_extra x)) && (code =? snd (read_extra x))
      | None => true
      end && xread_ok os' xs'
  | _, _ => true
  end.
Definition xread_violations (cs : list xcase) : list Z := map xc_id (filter (fun c => negb (xread_ok (xc_read c) (xc_extra c))) cs).
Definition wirex_mismatches (cs : list xcase) : list Z := map xc_id (filter (fun c => negb (wirex_matches c)) cs).
(* every payload of the run lies in the domain of the round-trip theorem and decodes to what was encoded *)
Definition oevent_eqb (a b : oevent) : bool :=
  (e_time a =? e_time b) && String.eqb (e_name a) (e_name b) && list_eqb attr_eqb (e_attrs a) (e_attrs b) && (e_dropped a =? e_dropped b).
Definition ostatus_eqb (a b : ostatus) : bool := String.eqb (s_msg a) (s_msg b) && (s_code a =? s_code b).
Definition oextra_eqb (a b : oextra) : bool :=
  list_eqb oevent_eqb (x_events a) (x_events b) && opt_eqb ostatus_eqb (x_status a) (x_status b).
Definition wirex_roundtrips (c : xcase) : bool :=
  forallb (fun z => match t_payload (fst (fst z)) with
                    | POtlp s => span_wire_ok s && extra_ok (snd z)
                                 && match dec_spanx (enc_spanx s (snd z)) with
                                    | Some (s', x') => ospan_eqb s s' && oextra_eqb (snd z) x'
                                    | None => false
                                    end
                    | _ => true
                    end) (zip_extra (fst (decode_stream fixed (xc_in c))) (xc_extra c)).
Definition wirex_roundtrip_failures (cs : list xcase) : list Z := map xc_id (filter (fun c => negb (wirex_roundtrips c)) cs).
