(* C10 (round 5) -- package fmt's doPrintf (Go 1.24, fmt/print.go) for operands that are all STRINGS, on the fragment of formats
   without flags, argument indexes, width and precision: what Sprintf makes of a format string.  Outside the fragment the model
   answers None (never a guess).  Executable definitions only.

   Why it is here: the site census (translate/sqlsites_src) reads a CONSTANT format as  text / operand / text ...; that reading is
   fmt_go's (theorems fmt_text_then_s, fmt_verb_free_text).  A format that is NOT constant - seeded change C10-e printed a JOIN clause
   with Sprintf(" %s JOIN "+<rendered sub-select>, type) - hands the escaped request strings to this interpreter: a percent sign
   inside a quoted value starts a verb, and the byte behind it (the backslash that protects a quote) is consumed as the verb. *)
From Coq Require Import List String Ascii Bool NArith.
Import ListNotations.
Open Scope string_scope.

Definition c2s (c : ascii) : string := String c EmptyString.
Definition is_pct (c : ascii) : bool := Ascii.eqb c "%".

(* bytes that start flags / an argument index / width / precision: outside the fragment *)
Definition spec_byte (c : ascii) : bool :=
  let n := N_of_ascii c in
  (n =? 35)%N || (n =? 43)%N || (n =? 45)%N || (n =? 32)%N || (n =? 91)%N || (n =? 42)%N || (n =? 46)%N
  || ((48 <=? n)%N && (n <=? 57)%N).

(* verbs that print a string in another notation (or its type): outside the fragment *)
Definition other_notation (c : ascii) : bool :=
  existsb (Ascii.eqb c) ["q"; "x"; "X"; "T"; "w"; "p"]%char.

Definition plain_verb (c : ascii) : bool := Ascii.eqb c "s" || Ascii.eqb c "v".

(* "%!(EXTRA string=a, string=b)" : operands no verb consumed *)
Fixpoint extra_list (args : list string) : string :=
  match args with
  | [] => ""
  | [a] => "string=" ++ a
  | a :: r => "string=" ++ a ++ ", " ++ extra_list r
  end.
Definition extra (args : list string) : string :=
  match args with [] => "" | _ => "%!(EXTRA " ++ extra_list args ++ ")" end.

(* one verb over the next operand *)
Definition print_verb (v : ascii) (args : list string) : string * list string :=
  match args with
  | [] => ("%!" ++ c2s v ++ "(MISSING)", [])
  | a :: r => (if plain_verb v then a else "%!" ++ c2s v ++ "(string=" ++ a ++ ")", r)
  end.

Fixpoint fmt_go (f : string) (args : list string) : option string :=
  match f with
  | EmptyString => Some (extra args)
  | String c r =>
    if is_pct c then
      match r with
      | EmptyString => Some ("%!(NOVERB)" ++ extra args)
      | String v r' =>
        if spec_byte v || other_notation v || (128 <=? N_of_ascii v)%N then None
        else if is_pct v then option_map (fun o => "%" ++ o) (fmt_go r' args)
        else let '(txt, rest) := print_verb v args in option_map (fun o => txt ++ o) (fmt_go r' rest)
      end
    else option_map (fun o => String c o) (fmt_go r args)
  end.

Fixpoint pct_free (s : string) : bool :=
  match s with EmptyString => true | String c r => negb (is_pct c) && pct_free r end.

(* what the census takes a constant format for: texts with one operand between two of them *)
Fixpoint interleave (texts : list string) (args : list string) : string :=
  match texts with
  | [] => ""
  | [t] => t
  | t :: ts => match args with a :: r => t ++ a ++ interleave ts r | [] => t end
  end.
Fixpoint mkformat (texts : list string) : string :=
  match texts with
  | [] => ""
  | [t] => t
  | t :: ts => t ++ "%s" ++ mkformat ts
  end.

(* correspondence cases (checks/c10.py): format, operands, what package fmt printed *)
Definition fmt_case := (string * list string * string)%type.
Definition fmt_verdict (c : fmt_case) : nat :=
  let '(f, args, out) := c in
  match fmt_go f args with
  | None => 2                                  (* outside the fragment *)
  | Some o => if String.eqb o out then 0 else 1
  end.
