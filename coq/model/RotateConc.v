(* Concurrent Rotate runs (property C19): several qryn instances start at the same time against one ClickHouse and
   each runs Rotate; the statements of the instances interleave in any order, each statement being atomic.
   Small-step version of model/Rotate.v (no connection fault here; an instance that crashes is one the schedule never
   picks again): the program counter of an instance says which call comes next, the only value an instance
   remembers is the setting it read (it decides skip / forget).  proofs/RotateConcProofs.v shows that an instance
   running alone is exactly Rotate.run.  Executable definitions only. *)
From Coq Require Import List ZArith Bool String Ascii.
From Qryn Require Import model.Rotate.
Import ListNotations.
Open Scope string_scope.
Open Scope Z_scope.

Inductive pc :=
| PGet (g : group) (rest : list group)                 (* next: getSetting of g *)
| PForget (g : group) (rest : list group)              (* read a non-empty record that differs: next: empty it *)
| PAlter (g : group) (c : call) (cs : list call) (rest : list group)   (* next: ALTER c, then cs, then the record *)
| PPut (g : group) (rest : list group)                 (* next: putSetting of the applied value *)
| PDone.

Record inst := { i_cfg : config; i_pc : pc }.

Definition goto (rest : list group) : pc := match rest with [] => PDone | g :: r => PGet g r end.
Definition alter_pc (g : group) (cs : list call) (rest : list group) : pc :=
  match cs with [] => PPut g rest | c :: r => PAlter g c r rest end.
Definition after_get (cfg : config) (g : group) (v : string) (rest : list group) : pc :=
  if skip cfg g v then goto rest
  else if String.eqb v "" then alter_pc g (alters cfg g) rest
  else PForget g rest.

Definition start (cfg : config) : inst := {| i_cfg := cfg; i_pc := goto groups |}.

(* one statement of one instance on the shared database: the call, the database after it, the instance after it *)
Definition step (d : db) (i : inst) : option (call * db * inst) :=
  let cfg := i_cfg i in
  match i_pc i with
  | PDone => None
  | PGet g rest => Some (CGet g, d, {| i_cfg := cfg; i_pc := after_get cfg g (recd d g) rest |})
  | PForget g rest => Some (CPut g "", apply d (CPut g ""), {| i_cfg := cfg; i_pc := alter_pc g (alters cfg g) rest |})
  | PAlter g c cs rest => Some (c, apply d c, {| i_cfg := cfg; i_pc := alter_pc g cs rest |})
  | PPut g rest =>
    Some (CPut g (desired cfg g), apply d (CPut g (desired cfg g)), {| i_cfg := cfg; i_pc := goto rest |})
  end.

Definition done (i : inst) : bool := match i_pc i with PDone => true | _ => false end.

Fixpoint set_nth {A} (n : nat) (x : A) (l : list A) : list A :=
  match l, n with
  | [], _ => []
  | _ :: r, O => x :: r
  | y :: r, S k => y :: set_nth k x r
  end.

(* the system: database, instances, log (newest first) of (instance, call) *)
Record sys := { s_db : db; s_insts : list inst; s_log : list (nat * call) }.

(* the schedule names the instance that issues the next statement; naming a finished (or missing) instance is a no-op *)
Definition sched_step (s : sys) (k : nat) : sys :=
  match nth_error (s_insts s) k with
  | None => s
  | Some i =>
    match step (s_db s) i with
    | None => s
    | Some (c, d', i') => {| s_db := d'; s_insts := set_nth k i' (s_insts s); s_log := (k, c) :: s_log s |}
    end
  end.
Definition sched_run (sched : list nat) (s : sys) : sys := fold_left sched_step sched s.
Definition init_sys (d : db) (cfgs : list config) : sys := {| s_db := d; s_insts := map start cfgs; s_log := [] |}.
Definition all_done (s : sys) : bool := forallb done (s_insts s).

(* one instance run alone for n statements *)
Fixpoint solo (n : nat) (d : db) (i : inst) (log : list call) : db * inst * list call :=
  match n with
  | O => (d, i, log)
  | S m => match step d i with
           | None => (d, i, log)
           | Some (c, d', i') => solo m d' i' (c :: log)
           end
  end.

(* ------------------------------------------------------------------ connection faults inside concurrent runs
   A statement of an instance may fail (having taken effect or not); the instance's Rotate then returns the error and
   issues nothing more ("dead").  Events: the instance that is granted its next statement, or whose next statement fails. *)
Inductive sev := SStep (k : nat) | SFail (k : nat) (eff : bool).
Definition sev_inst (e : sev) : nat := match e with SStep k => k | SFail k _ => k end.
Record fsys := { f_sys : sys; f_dead : list nat; f_log : list (nat * call * bool) }.   (* log: newest first *)

Definition is_dead (dead : list nat) (k : nat) : bool := existsb (Nat.eqb k) dead.
Definition next_call (s : sys) (k : nat) : option call :=
  match nth_error (s_insts s) k with
  | None => None
  | Some i => match step (s_db s) i with Some (c, _, _) => Some c | None => None end
  end.
Definition fsched_step (s : fsys) (e : sev) : fsys :=
  let k := sev_inst e in
  if is_dead (f_dead s) k then s else
  match next_call (f_sys s) k with
  | None => s                                        (* the instance has finished (or does not exist): nothing to fail *)
  | Some c =>
    match e with
    | SStep _ => {| f_sys := sched_step (f_sys s) k; f_dead := f_dead s; f_log := (k, c, true) :: f_log s |}
    | SFail _ eff => {| f_sys := if eff then sched_step (f_sys s) k else f_sys s; f_dead := k :: f_dead s;
                        f_log := (k, c, false) :: f_log s |}
    end
  end.
Definition fsched_run (evs : list sev) (s : fsys) : fsys := fold_left fsched_step evs s.
Definition finit (d : db) (cfgs : list config) : fsys := {| f_sys := init_sys d cfgs; f_dead := []; f_log := [] |}.

(* the fault-free schedule that does the same to the database and the instances: a failed statement that took effect
   is a statement after which the instance is never scheduled again, one that did not is no statement *)
Fixpoint effective (evs : list sev) (s : fsys) : list nat :=
  match evs with
  | [] => []
  | e :: r =>
    let k := sev_inst e in
    let s' := fsched_step s e in
    if is_dead (f_dead s) k then effective r s' else
    match next_call (f_sys s) k, e with
    | None, _ => effective r s'
    | Some _, SStep _ => k :: effective r s'
    | Some _, SFail _ true => k :: effective r s'
    | Some _, SFail _ false => effective r s'
    end
  end.

Definition render_fconc (cfgs : list config) (e : nat * call * bool) : nat * ocall :=
  (fst (fst e), render (nth (fst (fst e)) cfgs {| cluster := ""; distributed := false; days := []; drop_days := 0; storage_policy := "" |})
                       (snd (fst e), snd e)).

(* rendered entry of the interleaved log, for the comparison with the implementation *)
Definition render_conc (cfgs : list config) (e : nat * call) : nat * ocall :=
  (fst e, render (nth (fst e) cfgs {| cluster := ""; distributed := false; days := []; drop_days := 0; storage_policy := "" |})
                 (snd e, true)).
