(* Model of the trace write path and the trace read path (property C06).

   Writer  : writer/utils/unmarshal/otlpUnmarshal.go  (OTLPDecoder.Decode, populateServiceNames,
             writeAttrValue/initAttributesMap), zipkinJsonUnmarshal.go (zipkinDecoderV2.Decode /
             decodeSpan / parseEndpoint / parseTags / decodeHexStr / stringOrInt64,
             zipkinNDDecoderV2.Decode) and builder.go onSpan.
   Reader  : reader/service/tempoService.go parseZipkinJSON, decodeParentId, parseOTLP
             (protobuf payloads), OutputQuery's payload-type dispatch.

   Executable definitions only.  Bytes are Coq strings; ids are byte strings (16 / 8 bytes when
   well formed); times are Z with the int64/uint64 wrap-arounds of the Go conversions made
   explicit.  The stored payload is abstract: the OTLP payload IS the span value that was
   marshalled (protobuf (un)marshalling assumed lossless), the Zipkin payload is a reference to
   the JSON element of the request it was copied from (JSON (un)parsing assumed lossless).
   Both assumptions are exercised by the correspondence (the harness decodes the real payload
   bytes and the comparison is made on the decoded value).

   The record [quirks] switches on the seven defects this model was first written against and that
   were repaired in /repo; [fixed] (all off) is the behaviour of the code, [legacy] the behaviour
   before the repairs (kept for the witnesses in proofs/SpansProofs.v and for diagnosing a
   regression in the check). *)
From Coq Require Import List ZArith NArith Bool String Ascii DecimalString.
Import ListNotations.
Open Scope string_scope.
Open Scope Z_scope.

Record quirks := {
  q_list_drop : bool;        (* writeAttrValue handed *AnyValue of list elements to the oneof switch: lists yield no tags *)
  q_remote_inverted : bool;  (* remoteEndpoint: if z.serviceName != "" { z.serviceName = remote } *)
  q_nd_stateful : bool;      (* NDJSON framing: no per-line reset, payload never set *)
  q_peer_first : bool;       (* parseOTLP: peer.service before service.name, service.name always rewritten *)
  q_parent_payload : bool;   (* parseZipkinJSON: parent only from a 16-digit "parentId" of the payload, parent_id column ignored *)
  q_time_wrap : bool;        (* zipkin decodeSpan: microseconds * 1000 wrapped around int64 silently *)
  q_nil_resource : bool      (* OTLPDecoder.Decode: res.Resource.Attributes on a ResourceSpans without the resource message = nil dereference, 500 *)
}.
Definition fixed : quirks :=
  {| q_list_drop := false; q_remote_inverted := false; q_nd_stateful := false; q_peer_first := false; q_parent_payload := false; q_time_wrap := false; q_nil_resource := false |}.
Definition legacy : quirks :=
  {| q_list_drop := true; q_remote_inverted := true; q_nd_stateful := true; q_peer_first := true; q_parent_payload := true; q_time_wrap := true; q_nil_resource := true |}.

(* ------------------------------------------------------------------ numbers *)
Definition two63 : Z := 9223372036854775808.
Definition two64 : Z := 18446744073709551616.
Definition wrap64 (z : Z) : Z := (z + two63) mod two64 - two63.       (* conversion to int64 *)
Definition to_u64 (z : Z) : Z := z mod two64.                          (* conversion to uint64 *)
Definition in_int64 (z : Z) : bool := (- two63 <=? z) && (z <? two63).

Definition print_Z (z : Z) : string := NilZero.string_of_int (Z.to_int z).           (* %d *)
Definition print_N (n : N) : string := NilZero.string_of_uint (N.to_uint n).
Fixpoint zeros (n : nat) : string := match n with O => "" | S k => String "0" (zeros k) end.
Definition pad0 (w : nat) (s : string) : string := zeros (w - String.length s) ++ s.
(* %f of the double micro/10^6 (exactly representable: the generator only makes multiples of 1/8) *)
Definition print_f6 (micro : Z) : string :=
  let a := Z.abs micro in
  (if micro <? 0 then "-" else "") ++ print_Z (a / 1000000) ++ "." ++ pad0 6 (print_Z (a mod 1000000)).

(* ------------------------------------------------------------------ OTLP values *)
Inductive aval :=
| AStr (s : string) | AInt (z : Z) | ABool (b : bool) | ADouble (micro : Z) | ABytes (s : string)
| AEmpty                      (* AnyValue without a oneof *)
| ANil                        (* KeyValue without a value (nil *AnyValue) *)
| AList (l : list aval)
| AMap (l : list (string * aval)).

Fixpoint aval_eqb (a b : aval) {struct a} : bool :=
  match a, b with
  | AStr x, AStr y => String.eqb x y
  | AInt x, AInt y => x =? y
  | ABool x, ABool y => Bool.eqb x y
  | ADouble x, ADouble y => x =? y
  | ABytes x, ABytes y => String.eqb x y
  | AEmpty, AEmpty => true
  | ANil, ANil => true
  | AList x, AList y =>
      (fix go (x y : list aval) : bool :=
         match x, y with
         | [], [] => true
         | p :: r, q :: r' => aval_eqb p q && go r r'
         | _, _ => false
         end) x y
  | AMap x, AMap y =>
      (fix go (x y : list (string * aval)) : bool :=
         match x, y with
         | [], [] => true
         | p :: r, q :: r' => String.eqb (fst p) (fst q) && aval_eqb (snd p) (snd q) && go r r'
         | _, _ => false
         end) x y
  | _, _ => false
  end.

Definition attrs := list (string * aval).
Definition amap := list (string * string).       (* a Go map[string]string: unique keys, order irrelevant *)

Fixpoint upsert {A} (k : string) (v : A) (m : list (string * A)) : list (string * A) :=
  match m with
  | [] => [(k, v)]
  | (k', v') :: r => if String.eqb k k' then (k, v) :: r else (k', v') :: upsert k v r
  end.
Fixpoint lookup {A} (k : string) (m : list (string * A)) : option A :=
  match m with
  | [] => None
  | (k', v') :: r => if String.eqb k k' then Some v' else lookup k r
  end.
Definition of_list {A} (l : list (string * A)) : list (string * A) :=
  fold_left (fun m kv => upsert (fst kv) (snd kv) m) l [].

(* writeAttrValue / initAttributesMap.  [name] = prefix+key.  None = nil dereference (recovered by
   tamePanic: the request fails).  [lists] = list elements are descended into. *)
Fixpoint flat_val (lists : bool) (name : string) (v : aval) (m : amap) {struct v} : option amap :=
  match v with
  | AStr s => Some (upsert name s m)
  | ABool b => Some (upsert name (if b then "true" else "false") m)
  | ADouble d => Some (upsert name (print_f6 d) m)
  | AInt z => Some (upsert name (print_Z z) m)
  | ABytes _ => Some m
  | AEmpty => Some m
  | ANil => None
  | AList l =>
      if lists then
        (fix go (l : list aval) (i : N) (m : amap) : option amap :=
           match l with
           | [] => Some m
           | x :: r => match flat_val lists (name ++ "." ++ print_N i) x m with
                       | Some m' => go r (i + 1)%N m'
                       | None => None
                       end
           end) l 0%N m
      else Some m
  | AMap kvs =>
      (fix go (kvs : list (string * aval)) (m : amap) : option amap :=
         match kvs with
         | [] => Some m
         | p :: r => match flat_val lists (name ++ "." ++ fst p) (snd p) m with
                     | Some m' => go r m'
                     | None => None
                     end
         end) kvs m
  end.
Fixpoint flat_attrs (lists : bool) (a : attrs) (m : amap) : option amap :=
  match a with
  | [] => Some m
  | p :: r => match flat_val lists (fst p) (snd p) m with
              | Some m' => flat_attrs lists r m'
              | None => None
              end
  end.

(* getOtlpAttr: first attribute with the key *)
Fixpoint get_attr (k : string) (a : attrs) : option aval :=
  match a with
  | [] => None
  | (k', v) :: r => if String.eqb k k' then Some v else get_attr k r
  end.

Definition k_service := "service.name".
Definition k_remote := "remoteService.name".
Definition k_peer := "peer.service".
Definition k_name := "name".
Definition fallback_names := ["faas.name"; "k8s.deployment.name"; "process.executable.name"].
Definition no_service := "OTLPResourceNoServiceName".

(* otlpGetServiceNames: the LAST name of the list that is present with a string value wins *)
Definition last_str (names : list string) (a : attrs) : string :=
  fold_left (fun acc n => match get_attr n a with Some (AStr s) => s | _ => acc end) names "".
Definition local_name (a : attrs) : string :=
  let l := last_str (k_peer :: k_service :: fallback_names) a in
  if String.eqb l "" then no_service else l.
Definition remote_name (a : attrs) : string := last_str (k_service :: fallback_names) a.
Definition populate (a : attrs) : attrs :=
  let a1 := match get_attr k_service a with None => (a ++ [(k_service, AStr (local_name a))])%list | Some _ => a end in
  match get_attr k_remote a1 with None => (a1 ++ [(k_remote, AStr (remote_name a))])%list | Some _ => a1 end.

Record ospan := {
  o_trace : string; o_span : string; o_parent : string; o_name : string;
  o_start : Z; o_end : Z;            (* uint64 *)
  o_kind : Z; o_attrs : attrs }.
Record ores := { r_has_res : bool; r_attrs : attrs; r_scopes : list (list ospan) }.

(* ------------------------------------------------------------------ rows *)
Inductive payload := PEmpty | PRef (i : N) | POtlp (s : ospan) | POther.
Record trow := {
  t_trace : string; t_span : string; t_parent : string; t_name : string;
  t_ts : Z; t_dur : Z; t_service : string; t_ptype : Z; t_payload : payload }.
Record arow := { a_key : string; a_val : string; a_trace : string; a_span : string; a_ts : Z; a_dur : Z; a_date : Z }.

(* the Date column of a tag row: MDate = time.Unix(ts/1e9, 0), then ch-go ToDate = UInt16((unix + zone offset) / 86400);
   the zone offset is 0 here (UTC; the local-zone defect belongs to C04/C13), Go's / truncates towards zero *)
Definition date_of (ts : Z) : Z := (Z.quot (Z.quot ts 1000000000) 86400) mod 65536.

(* builder.go onSpan: ids of any other width than 16 / 8 bytes are rejected (400, the whole request fails);
   otherwise one trace row, one tag row per key; observed after the column-wise copy of
   tempoInsertService.go (ProcessRequest), i.e. as the columns of the two INSERT blocks *)
Definition id_widths_ok (tid sid : string) : bool := Nat.eqb (String.length tid) 16 && Nat.eqb (String.length sid) 8.
Definition on_span (ptype : Z) (tid sid : string) (ts dur : Z) (parent name svc : string) (p : payload) (kv : amap)
  : option (trow * list arow) :=
  if negb (id_widths_ok tid sid) then None else Some
  ({| t_trace := tid; t_span := sid; t_parent := parent; t_name := name; t_ts := ts; t_dur := dur;
      t_service := svc; t_ptype := ptype; t_payload := p |},
   map (fun e => {| a_key := fst e; a_val := snd e; a_trace := tid; a_span := sid; a_ts := ts; a_dur := dur;
                    a_date := date_of ts |}) kv).

Definition span_rows := (trow * list arow)%type.

Fixpoint mapM {A B} (f : A -> option B) (l : list A) : option (list B) :=
  match l with
  | [] => Some []
  | x :: r => match f x with
              | None => None
              | Some y => match mapM f r with None => None | Some ys => Some (y :: ys) end
              end
  end.

(* ------------------------------------------------------------------ OTLP write path *)
Definition with_attrs (s : ospan) (a : attrs) : ospan :=
  {| o_trace := o_trace s; o_span := o_span s; o_parent := o_parent s; o_name := o_name s;
     o_start := o_start s; o_end := o_end s; o_kind := o_kind s; o_attrs := a |}.

Definition otlp_span (q : quirks) (ra : attrs) (s : ospan) : option span_rows :=
  let a := populate (o_attrs s ++ ra)%list in
  match flat_attrs (negb (q_list_drop q)) a [] with
  | None => None
  | Some m =>
      let m' := upsert k_name (o_name s) m in
      let svc := match lookup k_service m' with Some v => v | None => "" end in
      on_span 2 (o_trace s) (o_span s) (wrap64 (o_start s)) (wrap64 ((o_end s - o_start s) mod two64))
              (o_parent s) (o_name s) svc (POtlp (with_attrs s a)) m'
  end.

(* res.GetResource().GetAttributes(): a ResourceSpans entry whose optional resource message is absent on the wire is a
   resource without attributes (until the repair: res.Resource.Attributes on the nil Resource, the request failed) *)
Definition res_attrs (r : ores) : attrs := if r_has_res r then r_attrs r else [].
Definition otlp_res (q : quirks) (r : ores) : option (list span_rows) :=
  let spans := List.concat (r_scopes r) in
  if r_has_res r || negb (q_nil_resource q) then mapM (otlp_span q (res_attrs r)) spans
  else match spans with [] => Some [] | _ => None end.      (* legacy: nil dereference at the group's first span *)

Definition otlp_decode_core (q : quirks) (b : list ores) : option (list span_rows) :=
  option_map (@List.concat _) (mapM (otlp_res q) b).

(* withParsedBody: proto.Unmarshal of the request refuses a proto3 string field that is not UTF-8 (utf8.Valid: no overlong forms, no
   encoded surrogates, nothing above U+10FFFF) -- the span's name, every attribute key and string value at any depth, of the span and of the
   resource; ids and bytes values are not strings.  The whole request fails before Decode runs. *)
Definition in_rng (lo hi : N) (c : ascii) : bool := let n := N_of_ascii c in (lo <=? n)%N && (n <=? hi)%N.
Fixpoint utf8_from (k : nat) (lo hi : N) (s : string) : bool :=       (* k continuation bytes pending, the next one within lo..hi *)
  match s with
  | EmptyString => Nat.eqb k 0
  | String c r =>
      match k with
      | S k' => in_rng lo hi c && utf8_from k' 128 191 r
      | O =>
          let n := N_of_ascii c in
          if (n <? 128)%N then utf8_from 0 128 191 r
          else if (n <? 194)%N then false                      (* a continuation byte, or the overlong leads C0 C1 *)
          else if (n <? 224)%N then utf8_from 1 128 191 r
          else if (n =? 224)%N then utf8_from 2 160 191 r      (* E0: no overlong three-byte forms *)
          else if (n =? 237)%N then utf8_from 2 128 159 r      (* ED: no surrogates *)
          else if (n <? 240)%N then utf8_from 2 128 191 r
          else if (n =? 240)%N then utf8_from 3 144 191 r      (* F0: no overlong four-byte forms *)
          else if (n <? 244)%N then utf8_from 3 128 191 r
          else if (n =? 244)%N then utf8_from 3 128 143 r      (* F4: up to U+10FFFF *)
          else false
      end
  end.
Definition utf8_valid (s : string) : bool := utf8_from 0 128 191 s.
Fixpoint aval_utf8 (v : aval) : bool :=
  match v with
  | AStr s => utf8_valid s
  | AList l => (fix go (l : list aval) : bool := match l with [] => true | x :: r => aval_utf8 x && go r end) l
  | AMap kvs => (fix go (l : list (string * aval)) : bool :=
                   match l with [] => true | p :: r => utf8_valid (fst p) && aval_utf8 (snd p) && go r end) kvs
  | _ => true
  end.
Definition attrs_utf8 (a : attrs) : bool := forallb (fun kv => utf8_valid (fst kv) && aval_utf8 (snd kv)) a.
Definition ospan_utf8 (s : ospan) : bool := utf8_valid (o_name s) && attrs_utf8 (o_attrs s).
Definition ores_utf8 (r : ores) : bool := attrs_utf8 (res_attrs r) && forallb ospan_utf8 (List.concat (r_scopes r)).
Definition otlp_utf8_ok (b : list ores) : bool := forallb ores_utf8 b.

Definition otlp_decode (q : quirks) (b : list ores) : option (list span_rows) :=
  if otlp_utf8_ok b then otlp_decode_core q b else None.

(* ------------------------------------------------------------------ JSON values, Zipkin write path *)
Inductive jv :=
| JStr (s : string) | JInt (z : Z) | JFloat | JBool (b : bool) | JNull
| JObj (l : list (string * jv)) | JArr (l : list jv).

Definition hexval (c : ascii) : option N :=
  let n := N_of_ascii c in
  if (48 <=? n)%N && (n <=? 57)%N then Some (n - 48)%N
  else if (97 <=? n)%N && (n <=? 102)%N then Some (n - 87)%N
  else if (65 <=? n)%N && (n <=? 70)%N then Some (n - 55)%N
  else None.
Fixpoint hex_decode (s : string) : option string :=
  match s with
  | EmptyString => Some EmptyString
  | String a (String b r) =>
      match hexval a, hexval b, hex_decode r with
      | Some x, Some y, Some t => Some (String (ascii_of_N (16 * x + y)) t)
      | _, _, _ => None
      end
  | String _ EmptyString => None
  end.
Definition hx (s : string) : string := match hex_decode s with Some b => b | None => "" end.   (* literals of case files *)

(* decodeHexStr: empty -> 400; shorter -> left-padded with '0'; longer -> the first [leng] characters *)
Definition decode_hex_str (s : string) (leng : nat) : option string :=
  if String.eqb s "" then None
  else
    let s' := if Nat.ltb (String.length s) leng then zeros (leng - String.length s) ++ s else s in
    hex_decode (substring 0 leng s').

Fixpoint digits (s : string) (acc : Z) : option Z :=
  match s with
  | EmptyString => Some acc
  | String c r =>
      let n := Z.of_N (N_of_ascii c) in
      if (48 <=? n) && (n <=? 57) then digits r (acc * 10 + (n - 48)) else None
  end.
(* strconv.ParseInt(s, 10, 64) *)
Definition parse_int64 (s : string) : option Z :=
  match s with
  | EmptyString => None
  | String c r =>
      let neg := Ascii.eqb c "-" in
      let body := if neg || Ascii.eqb c "+" then r else s in
      if String.eqb body "" then None
      else match digits body 0 with
           | Some v => let v' := if neg then - v else v in if in_int64 v' then Some v' else None
           | None => None
           end
  end.
(* stringOrInt64: a JSON number must be an integer in range (jx Int64), a string goes through ParseInt *)
Definition string_or_int64 (v : jv) : option Z :=
  match v with
  | JInt z => if in_int64 z then Some z else None
  | JStr s => parse_int64 s
  | _ => None
  end.

(* usToNs: Zipkin microseconds -> int64 nanoseconds; a product outside int64 is refused (400) *)
Definition ns_of_us (x : Z) : option Z := if in_int64 (x * 1000) then Some (x * 1000) else None.
Definition us_to_ns (q : quirks) (x : Z) : option Z := if q_time_wrap q then Some (wrap64 (x * 1000)) else ns_of_us x.

Record zst := {
  z_tid : string; z_sid : string; z_ts : Z; z_dur : Z; z_parent : string; z_name : string;
  z_svc : string; z_payload : payload; z_kv : amap (* key/val arrays: appended, never de-duplicated *) }.
Definition z_init : zst :=
  {| z_tid := ""; z_sid := ""; z_ts := 0; z_dur := 0; z_parent := ""; z_name := ""; z_svc := ""; z_payload := PEmpty; z_kv := [] |}.

Definition set_tid st x := {| z_tid := x; z_sid := z_sid st; z_ts := z_ts st; z_dur := z_dur st; z_parent := z_parent st; z_name := z_name st; z_svc := z_svc st; z_payload := z_payload st; z_kv := z_kv st |}.
Definition set_sid st x := {| z_tid := z_tid st; z_sid := x; z_ts := z_ts st; z_dur := z_dur st; z_parent := z_parent st; z_name := z_name st; z_svc := z_svc st; z_payload := z_payload st; z_kv := z_kv st |}.
Definition set_ts st x := {| z_tid := z_tid st; z_sid := z_sid st; z_ts := x; z_dur := z_dur st; z_parent := z_parent st; z_name := z_name st; z_svc := z_svc st; z_payload := z_payload st; z_kv := z_kv st |}.
Definition set_dur st x := {| z_tid := z_tid st; z_sid := z_sid st; z_ts := z_ts st; z_dur := x; z_parent := z_parent st; z_name := z_name st; z_svc := z_svc st; z_payload := z_payload st; z_kv := z_kv st |}.
Definition set_parent st x := {| z_tid := z_tid st; z_sid := z_sid st; z_ts := z_ts st; z_dur := z_dur st; z_parent := x; z_name := z_name st; z_svc := z_svc st; z_payload := z_payload st; z_kv := z_kv st |}.
Definition set_name st x kv := {| z_tid := z_tid st; z_sid := z_sid st; z_ts := z_ts st; z_dur := z_dur st; z_parent := z_parent st; z_name := x; z_svc := z_svc st; z_payload := z_payload st; z_kv := kv |}.
Definition set_svc st x kv := {| z_tid := z_tid st; z_sid := z_sid st; z_ts := z_ts st; z_dur := z_dur st; z_parent := z_parent st; z_name := z_name st; z_svc := x; z_payload := z_payload st; z_kv := kv |}.
Definition set_payload st p := {| z_tid := z_tid st; z_sid := z_sid st; z_ts := z_ts st; z_dur := z_dur st; z_parent := z_parent st; z_name := z_name st; z_svc := z_svc st; z_payload := p; z_kv := z_kv st |}.

(* parseEndpoint: (last serviceName, key/val additions); a non-string serviceName or a non-object fails *)
Fixpoint endpoint_fields (prefix : string) (fs : list (string * jv)) (svc : string) (kv : amap) : option (string * amap) :=
  match fs with
  | [] => Some (svc, kv)
  | (k, v) :: r =>
      if String.eqb k "serviceName" then
        match v with
        | JStr s => endpoint_fields prefix r s (kv ++ [(prefix ++ "service_name", s)%string])%list
        | _ => None
        end
      else endpoint_fields prefix r svc kv
  end.
Definition parse_endpoint (prefix : string) (v : jv) (kv : amap) : option (string * amap) :=
  match v with JObj fs => endpoint_fields prefix fs "" kv | _ => None end.

(* parseTags: string-valued members only *)
Fixpoint tag_fields (fs : list (string * jv)) (kv : amap) : amap :=
  match fs with
  | [] => kv
  | (k, JStr s) :: r => tag_fields r (kv ++ [(k, s)])%list
  | _ :: r => tag_fields r kv
  end.

Inductive zkey := KTrace | KId | KParent | KTimestamp | KDuration | KName | KLocal | KRemote | KTags | KOther.
Definition zkey_of (k : string) : zkey :=
  if String.eqb k "traceId" then KTrace else if String.eqb k "id" then KId
  else if String.eqb k "parentId" then KParent else if String.eqb k "timestamp" then KTimestamp
  else if String.eqb k "duration" then KDuration else if String.eqb k "name" then KName
  else if String.eqb k "localEndpoint" then KLocal else if String.eqb k "remoteEndpoint" then KRemote
  else if String.eqb k "tags" then KTags else KOther.

Definition z_field (q : quirks) (st : zst) (k : zkey) (v : jv) : option zst :=
  match k with
  | KTrace => match v with JStr s => option_map (set_tid st) (decode_hex_str s 32) | _ => None end
  | KId => match v with JStr s => option_map (set_sid st) (decode_hex_str s 16) | _ => None end
  | KParent => match v with JStr s => option_map (set_parent st) (decode_hex_str s 16) | _ => None end
  | KTimestamp => match string_or_int64 v with Some x => option_map (set_ts st) (us_to_ns q x) | None => None end
  | KDuration => match string_or_int64 v with Some x => option_map (set_dur st) (us_to_ns q x) | None => None end
  | KName => match v with JStr s => Some (set_name st s (z_kv st ++ [(k_name, s)])%list) | _ => None end
  | KLocal =>
      match parse_endpoint "local_endpoint_" v (z_kv st) with
      | Some (svc, kv) =>
          Some (set_svc st (if q_remote_inverted q then svc else if String.eqb svc "" then z_svc st else svc) kv)
      | None => None
      end
  | KRemote =>
      match parse_endpoint "remote_endpoint_" v (z_kv st) with
      | Some (svc, kv) =>
          let cond := if q_remote_inverted q then negb (String.eqb (z_svc st) "") else String.eqb (z_svc st) "" in
          Some (set_svc st (if cond then svc else z_svc st) kv)
      | None => None
      end
  | KTags => match v with JObj fs => Some (set_svc st (z_svc st) (tag_fields fs (z_kv st))) | _ => None end
  | KOther => Some st
  end.

Fixpoint z_fields (q : quirks) (st : zst) (fs : list (string * jv)) : option zst :=
  match fs with
  | [] => Some st
  | (k, v) :: r => match z_field q st (zkey_of k) v with Some st' => z_fields q st' r | None => None end
  end.

(* decodeSpan: the element must be an object; afterwards service.name is appended and onSpan called.
   Returns the rows and the decoder state left behind. *)
Definition decode_span (q : quirks) (st : zst) (e : jv) : option (span_rows * zst) :=
  match e with
  | JObj fs =>
      match z_fields q st fs with
      | Some st' =>
          let kv := (z_kv st' ++ [(k_service, z_svc st')])%list in
          let st'' := set_svc st' (z_svc st') kv in
          option_map (fun rows => (rows, st''))
            (on_span 1 (z_tid st') (z_sid st') (z_ts st') (z_dur st') (z_parent st') (z_name st') (z_svc st')
                     (z_payload st') kv)
      | None => None
      end
  | _ => None
  end.

(* zipkinDecoderV2.Decode (array) and zipkinNDDecoderV2.Decode (one span per line): state reset and
   payload := the element's own text before every element *)
Fixpoint zipkin_from (q : quirks) (nd : bool) (i : N) (st : zst) (es : list jv) : option (list span_rows) :=
  match es with
  | [] => Some []
  | e :: r =>
      let st0 := if nd && q_nd_stateful q then st else set_payload z_init (PRef i) in
      match decode_span q st0 e with
      | None => None
      | Some (rows, st') =>
          match zipkin_from q nd (i + 1)%N st' r with None => None | Some rs => Some (rows :: rs) end
      end
  end.
Definition zipkin_decode (q : quirks) (nd : bool) (es : list jv) : option (list span_rows) :=
  zipkin_from q nd 0%N z_init es.

(* ------------------------------------------------------------------ read path *)
Record rspan := {
  rs_trace : string; rs_span : string; rs_parent : string; rs_name : string;
  rs_start : Z; rs_end : Z; rs_kind : Z; rs_attrs : attrs; rs_service : string }.

Fixpoint jget (k : string) (fs : list (string * jv)) : option jv :=
  match fs with
  | [] => None
  | (k', v) :: r => if String.eqb k k' then Some v else jget k r
  end.
Definition jget_str (k : string) (fs : list (string * jv)) : option string :=
  match jget k fs with Some (JStr s) => Some s | _ => None end.

Definition zipkin_kind (fs : list (string * jv)) : Z :=
  match jget_str "kind" fs with
  | Some s => if String.eqb s "CLIENT" then 3 else if String.eqb s "SERVER" then 2
              else if String.eqb s "PRODUCER" then 4 else if String.eqb s "CONSUMER" then 5 else 0
  | None => 0
  end.

(* payload path of the parent: decodeParentId takes exactly 16 hex characters, anything else leaves the parent empty *)
Definition read_parent (fs : list (string * jv)) : string :=
  match jget_str "parentId" fs with
  | Some p => if Nat.eqb (String.length p) 16 then match hex_decode p with Some b => b | None => "" end else ""
  | None => ""
  end.

Fixpoint read_tags (fs : list (string * jv)) : attrs :=
  match fs with
  | [] => []
  | (k, JStr s) :: r => (k, AStr s) :: read_tags r
  | _ :: r => read_tags r
  end.

(* one endpoint: (attributes, serviceName if it is a string) *)
Definition read_endpoint (name : string) (fs : list (string * jv)) : attrs * option string :=
  match jget name fs with
  | Some (JObj ep) =>
      let strs := flat_map (fun a => match jget_str a ep with Some s => [(name ++ "." ++ a, AStr s)] | None => [] end)
                           ["serviceName"; "ipv4"; "ipv6"] in
      let port := match jget "port" ep with
                  | Some (JInt p) => if in_int64 p && negb (p =? 0) then [(name ++ ".port", AInt p)] else []
                  | _ => []
                  end in
      ((strs ++ port)%list, jget_str "serviceName" ep)
  | _ => ([], None)
  end.

Definition parse_zipkin (q : quirks) (row : trow) (e : jv) : option rspan :=
  let fs := match e with JObj fs => fs | _ => [] end in
  if Nat.ltb (String.length (t_trace row)) 16 || Nat.ltb (String.length (t_span row)) 8 then None  (* slice out of range *)
  else
    let tags := match jget "tags" fs with Some (JObj ts) => read_tags ts | _ => [] end in
    let '(la, ls) := read_endpoint "localEndpoint" fs in
    let '(ra, rs) := read_endpoint "remoteEndpoint" fs in
    let svc := match ls with
               | Some s => if String.eqb s "" then match rs with Some s' => s' | None => "" end else s
               | None => match rs with Some s' => s' | None => "" end
               end in
    Some {| rs_trace := substring 0 16 (t_trace row); rs_span := substring 0 8 (t_span row);
            (* the stored parent_id column when it holds 8 bytes, else the payload *)
            rs_parent := if negb (q_parent_payload q) && Nat.eqb (String.length (t_parent row)) 8 then t_parent row
                         else read_parent fs;
            rs_name := match jget_str "name" fs with Some s => s | None => "" end;
            rs_start := to_u64 (t_ts row); rs_end := to_u64 (wrap64 (t_ts row + t_dur row));
            rs_kind := zipkin_kind fs;
            rs_attrs := (tags ++ la ++ ra ++ [(k_service, AStr svc)])%list;
            rs_service := svc |}.

(* parseOTLP on a protobuf payload; the attribute list is rebuilt through a map (order irrelevant) *)
Definition str_nonempty (v : option aval) : option string :=
  match v with Some (AStr s) => if String.eqb s "" then None else Some s | _ => None end.
Fixpoint first_nonempty (names : list string) (m : attrs) : option string :=
  match names with
  | [] => None
  | n :: r => match str_nonempty (lookup n m) with Some s => Some s | None => first_nonempty r m end
  end.
Definition parse_otlp (q : quirks) (s : ospan) : rspan :=
  let m := of_list (o_attrs s) in
  let order := if q_peer_first q then k_peer :: k_service :: fallback_names else k_service :: k_peer :: fallback_names in
  let svc := match first_nonempty order m with Some x => x | None => no_service end in
  let m' := if q_peer_first q then upsert k_service (AStr svc) m
            else match lookup k_service m with Some _ => m | None => upsert k_service (AStr svc) m end in
  {| rs_trace := o_trace s; rs_span := o_span s; rs_parent := o_parent s; rs_name := o_name s;
     rs_start := o_start s; rs_end := o_end s; rs_kind := o_kind s; rs_attrs := m'; rs_service := svc |}.

(* OutputQuery: dispatch on the payload type; [elems] resolves the Zipkin payload reference.
   None = no span is produced for the row (decode error; empty payload). *)
Definition read_row (q : quirks) (elems : list jv) (row : trow) : option rspan :=
  if t_ptype row =? 1 then
    match t_payload row with
    | PRef i => match nth_error elems (N.to_nat i) with Some e => parse_zipkin q row e | None => None end
    | _ => None
    end
  else if t_ptype row =? 2 then
    match t_payload row with POtlp s => Some (parse_otlp q s) | _ => None end
  else None.

(* OutputQuery's loop over the rows of ONE query: a row of an unknown payload type is passed over (continue); the first row that does
   not decode ends the output (return; a decoding panic is recovered and ends it likewise) *)
Fixpoint output_query (q : quirks) (elems : list jv) (rows : list trow) : list rspan :=
  match rows with
  | [] => []
  | r :: rest =>
      if (t_ptype r =? 1) || (t_ptype r =? 2) then
        match read_row q elems r with Some s => s :: output_query q elems rest | None => [] end
      else output_query q elems rest
  end.

(* ==================================================================================================
   Specification: what the property demands, stated independently of the decoders above wherever
   the demand is not itself "the value denoted by this text".
   ================================================================================================== *)
Inductive input := InOtlp (b : list ores) | InZipkin (nd : bool) (es : list jv).

(* the pushed spans of a request, in order, in a common form *)
Record pushed := {
  p_trace : string; p_span : string; p_parent : string; p_name : string;
  p_ts : Z; p_dur : Z;                       (* as int64 nanoseconds *)
  p_service : string;
  p_tags : amap;                              (* the flattened attributes the tag index must hold, as a map *)
  p_attrs : attrs;                            (* the attributes the read path must return, as a map *)
  p_ordered : bool                            (* Zipkin: orders are deterministic and compared *)
}.

Definition otlp_pushed (ra : attrs) (s : ospan) : option pushed :=
  let a := populate (o_attrs s ++ ra)%list in
  match flat_attrs true a [] with
  | None => None
  | Some m =>
      let m' := upsert k_name (o_name s) m in
      Some {| p_trace := o_trace s; p_span := o_span s; p_parent := o_parent s; p_name := o_name s;
              p_ts := wrap64 (o_start s); p_dur := wrap64 ((o_end s - o_start s) mod two64);
              p_service := match lookup k_service m' with Some v => v | None => "" end;
              p_tags := m'; p_attrs := of_list a; p_ordered := false |}
  end.

Definition batch_spans (b : list ores) : list (attrs * ospan) :=
  flat_map (fun r => map (fun s => (res_attrs r, s)) (List.concat (r_scopes r))) b.

(* Zipkin: the fields of one span object, each taken from its LAST occurrence (the write path's reading) *)
Fixpoint jget_last (k : string) (fs : list (string * jv)) : option jv :=
  match fs with
  | [] => None
  | (k', v) :: r => match jget_last k r with Some x => Some x | None => if String.eqb k k' then Some v else None end
  end.
Definition ep_service (name : string) (fs : list (string * jv)) : string :=
  match jget name fs with
  | Some (JObj ep) => match jget_str "serviceName" ep with Some s => s | None => "" end
  | _ => ""
  end.
Definition spec_zipkin_service (fs : list (string * jv)) : string :=
  let l := ep_service "localEndpoint" fs in if String.eqb l "" then ep_service "remoteEndpoint" fs else l.

Definition nodup_keys (fs : list (string * jv)) : bool :=
  (fix go (l : list string) : bool :=
     match l with [] => true | k :: r => negb (existsb (String.eqb k) r) && go r end) (map fst fs).
Definition ep_nodup (name : string) (fs : list (string * jv)) : bool :=
  match jget name fs with Some (JObj ep) => nodup_keys ep | _ => true end.
(* JSON objects without repeated member names (RFC 8259 "SHOULD be unique"): on repeated names the
   write path (every occurrence, last wins) and the read path (first occurrence) read different spans *)
Definition z_wellformed (e : jv) : bool :=
  match e with
  | JObj fs => nodup_keys fs && ep_nodup "localEndpoint" fs && ep_nodup "remoteEndpoint" fs
  | _ => true
  end.

(* the span a Zipkin element denotes; None = some field does not denote a value (the write path
   rejects the request) or an id is missing (outside this property: defect 9 / C05) *)
Definition opt_field {A} (o : option jv) (absent : A) (f : jv -> option A) : option A :=
  match o with None => Some absent | Some v => f v end.
Definition hex_field (leng : nat) (v : jv) : option string :=
  match v with JStr s => decode_hex_str s leng | _ => None end.
Definition time_field (v : jv) : option Z := match string_or_int64 v with Some x => ns_of_us x | None => None end.
Definition ep_ok (name : string) (fs : list (string * jv)) : bool :=
  match jget name fs with
  | None => true
  | Some (JObj ep) => match jget "serviceName" ep with None => true | Some (JStr _) => true | Some _ => false end
  | Some _ => false
  end.
(* the tag rows a span object calls for, member by member: its name, the service name of each endpoint,
   every string-valued tag (then service.name, see zipkin_pushed) *)
Definition ep_contrib (prefix : string) (ep : list (string * jv)) : amap :=
  flat_map (fun kv => if String.eqb (fst kv) "serviceName"
                      then match snd kv with JStr s => [(prefix ++ "service_name", s)] | _ => [] end
                      else []) ep.
Definition z_contrib (kv : string * jv) : amap :=
  match zkey_of (fst kv), snd kv with
  | KName, JStr s => [(k_name, s)]
  | KLocal, JObj ep => ep_contrib "local_endpoint_" ep
  | KRemote, JObj ep => ep_contrib "remote_endpoint_" ep
  | KTags, JObj ts => tag_fields ts []
  | _, _ => []
  end.
Definition str_tags (fs : list (string * jv)) : amap :=
  match jget "tags" fs with Some (JObj ts) => tag_fields ts [] | _ => [] end.

Definition zipkin_pushed (e : jv) : option pushed :=
  match e with
  | JObj fs =>
      match jget "traceId" fs, jget "id" fs with
      | Some t, Some i =>
          match hex_field 32 t, hex_field 16 i, opt_field (jget "parentId" fs) "" (hex_field 16),
                opt_field (jget "timestamp" fs) 0 time_field, opt_field (jget "duration" fs) 0 time_field,
                opt_field (jget "name" fs) None (fun v => match v with JStr s => Some (Some s) | _ => None end) with
          | Some tid, Some sid, Some par, Some ts, Some dur, Some name =>
              if ep_ok "localEndpoint" fs && ep_ok "remoteEndpoint" fs
                 && match jget "tags" fs with None => true | Some (JObj _) => true | Some _ => false end
              then
                let svc := spec_zipkin_service fs in
                Some {| p_trace := tid; p_span := sid; p_parent := par;
                        p_name := match name with Some s => s | None => "" end;
                        p_ts := ts; p_dur := dur; p_service := svc;
                        p_tags := (flat_map z_contrib fs ++ [(k_service, svc)])%list;
                        p_attrs := map (fun kv => (fst kv, AStr (snd kv))) (str_tags fs);
                        p_ordered := true |}
              else None
          | _, _, _, _, _, _ => None
          end
      | _, _ => None
      end
  | _ => None
  end.

Definition pushed_of (i : input) : option (list pushed) :=
  match i with
  | InOtlp b => mapM (fun x => otlp_pushed (fst x) (snd x)) (batch_spans b)
  | InZipkin _ es => if forallb z_wellformed es then mapM zipkin_pushed es else None
  end.

(* ------------------------------------------------------------------ comparisons *)
Definition attr_eqb (a b : string * aval) : bool := String.eqb (fst a) (fst b) && aval_eqb (snd a) (snd b).
Definition kv_eqb (a b : string * string) : bool := String.eqb (fst a) (fst b) && String.eqb (snd a) (snd b).
Fixpoint all2 {A B} (f : A -> B -> bool) (a : list A) (b : list B) : bool :=
  match a, b with
  | [], [] => true
  | x :: r, y :: r' => f x y && all2 f r r'
  | _, _ => false
  end.
Definition list_eqb {A} (eqb : A -> A -> bool) (a b : list A) : bool := all2 eqb a b.
Fixpoint remove_first {A} (eqb : A -> A -> bool) (x : A) (l : list A) : option (list A) :=
  match l with
  | [] => None
  | y :: r => if eqb x y then Some r else option_map (cons y) (remove_first eqb x r)
  end.
Fixpoint perm_eqb {A} (eqb : A -> A -> bool) (a b : list A) : bool :=
  match a with
  | [] => match b with [] => true | _ => false end
  | x :: r => match remove_first eqb x b with Some b' => perm_eqb eqb r b' | None => false end
  end.
Definition incl_b {A} (eqb : A -> A -> bool) (a b : list A) : bool := forallb (fun x => existsb (eqb x) b) a.

Definition ospan_eqb (a b : ospan) : bool :=
  String.eqb (o_trace a) (o_trace b) && String.eqb (o_span a) (o_span b) && String.eqb (o_parent a) (o_parent b)
  && String.eqb (o_name a) (o_name b) && (o_start a =? o_start b) && (o_end a =? o_end b) && (o_kind a =? o_kind b)
  && list_eqb attr_eqb (o_attrs a) (o_attrs b).
Definition payload_eqb (a b : payload) : bool :=
  match a, b with
  | PEmpty, PEmpty => true
  | PRef i, PRef j => N.eqb i j
  | POtlp s, POtlp s' => ospan_eqb s s'
  | _, _ => false
  end.
Definition trow_eqb (a b : trow) : bool :=
  String.eqb (t_trace a) (t_trace b) && String.eqb (t_span a) (t_span b) && String.eqb (t_parent a) (t_parent b)
  && String.eqb (t_name a) (t_name b) && (t_ts a =? t_ts b) && (t_dur a =? t_dur b)
  && String.eqb (t_service a) (t_service b) && (t_ptype a =? t_ptype b) && payload_eqb (t_payload a) (t_payload b).
Definition arow_eqb (a b : arow) : bool :=
  String.eqb (a_key a) (a_key b) && String.eqb (a_val a) (a_val b) && String.eqb (a_trace a) (a_trace b)
  && String.eqb (a_span a) (a_span b) && (a_ts a =? a_ts b) && (a_dur a =? a_dur b) && (a_date a =? a_date b).
Definition rspan_eqb (ordered : bool) (a b : rspan) : bool :=
  String.eqb (rs_trace a) (rs_trace b) && String.eqb (rs_span a) (rs_span b) && String.eqb (rs_parent a) (rs_parent b)
  && String.eqb (rs_name a) (rs_name b) && (rs_start a =? rs_start b) && (rs_end a =? rs_end b) && (rs_kind a =? rs_kind b)
  && (if ordered then list_eqb attr_eqb (rs_attrs a) (rs_attrs b) else perm_eqb attr_eqb (rs_attrs a) (rs_attrs b))
  && String.eqb (rs_service a) (rs_service b).
Definition opt_eqb {A} (eqb : A -> A -> bool) (a b : option A) : bool :=
  match a, b with Some x, Some y => eqb x y | None, None => true | _, _ => false end.

(* the observed tag rows, cut into consecutive groups of the given sizes *)
Fixpoint chunks {A} (sizes : list nat) (l : list A) : option (list (list A)) :=
  match sizes with
  | [] => match l with [] => Some [] | _ => None end
  | n :: r => if Nat.ltb (List.length l) n then None
              else option_map (cons (firstn n l)) (chunks r (skipn n l))
  end.

(* ------------------------------------------------------------------ cases *)
(* how the request body reached the parser: one Read, one byte per Read, 1..1500 or 1..64 bytes per Read (sizes from
   a PRNG with the given seed).  Deliberately NOT an argument of [decode], [read_row] or [spec_ok]: the rows, the stored
   payload (the span's own text) and the read-back are functions of the request alone — see segmentation_irrelevant. *)
Record delivery := { d_mode : Z; d_seed : Z }.

Record case := {
  c_id : Z; c_in : input; c_delivery : delivery;
  c_err : bool;                      (* the parser answered an error *)
  c_rows : list trow;                (* TempoSamples rows, in order *)
  c_tags : list arow;                (* TempoTag rows, in order *)
  c_read : list (option rspan)       (* OutputQuery on each stored row alone *)
}.
Definition in_elems (i : input) : list jv := match i with InZipkin _ es => es | _ => [] end.
Definition in_ordered (i : input) : bool := match i with InZipkin _ _ => true | _ => false end.
Definition decode (q : quirks) (i : input) : option (list span_rows) :=
  match i with InOtlp b => otlp_decode q b | InZipkin nd es => zipkin_decode q nd es end.

Definition write_matches (q : quirks) (c : case) : bool :=
  match decode q (c_in c) with
  | None => c_err c && match c_rows c with [] => true | _ => false end
  | Some rs =>
      negb (c_err c)
      && list_eqb trow_eqb (map fst rs) (c_rows c)
      && match chunks (map (fun r => List.length (snd r)) rs) (c_tags c) with
         | Some groups => list_eqb (fun m o => if in_ordered (c_in c) then list_eqb arow_eqb m o else perm_eqb arow_eqb m o)
                                   (map snd rs) groups
         | None => false
         end
  end.
Definition read_matches (q : quirks) (c : case) : bool :=
  list_eqb (opt_eqb (rspan_eqb (in_ordered (c_in c))))
           (map (read_row q (in_elems (c_in c))) (c_rows c)) (c_read c).
Definition model_mismatch (c : case) : bool := negb (write_matches fixed c && read_matches fixed c).

(* ---- the property's oracle on the OBSERVED behaviour *)
Definition widths_ok (p : pushed) : bool := Nat.eqb (String.length (p_trace p)) 16 && Nat.eqb (String.length (p_span p)) 8.

Definition payload_ok (i : input) (idx : N) (p : pushed) (r : trow) : bool :=
  match i, t_payload r with
  | InZipkin _ _, PRef j => (t_ptype r =? 1) && N.eqb idx j
  | InOtlp _, POtlp s => (t_ptype r =? 2) && String.eqb (o_trace s) (p_trace p) && String.eqb (o_span s) (p_span p)
                         && String.eqb (o_parent s) (p_parent p) && String.eqb (o_name s) (p_name p)
                         && perm_eqb attr_eqb (of_list (o_attrs s)) (p_attrs p)
  | _, _ => false
  end.
Definition row_ok (i : input) (idx : N) (p : pushed) (r : trow) : bool :=
  String.eqb (t_trace r) (p_trace p) && String.eqb (t_span r) (p_span p) && String.eqb (t_parent r) (p_parent p)
  && String.eqb (t_name r) (p_name p) && (t_ts r =? p_ts p) && (t_dur r =? p_dur p)
  && String.eqb (t_service r) (p_service p) && payload_ok i idx p r.
Fixpoint rows_ok (i : input) (idx : N) (ps : list pushed) (rs : list trow) : bool :=
  match ps, rs with
  | [], [] => true
  | p :: ps', r :: rs' => row_ok i idx p r && rows_ok i (idx + 1)%N ps' rs'
  | _, _ => false
  end.
Definition tag_group_ok (p : pushed) (g : list arow) : bool :=
  forallb (fun a => String.eqb (a_trace a) (p_trace p) && String.eqb (a_span a) (p_span p) && (a_ts a =? p_ts p)
                    && (a_dur a =? p_dur p) && (a_date a =? date_of (p_ts p))) g
  && perm_eqb kv_eqb (map (fun a => (a_key a, a_val a)) g) (p_tags p).
Definition tags_ok (ps : list pushed) (tags : list arow) : bool :=
  match chunks (map (fun p => List.length (p_tags p)) ps) tags with
  | Some groups => all2 tag_group_ok ps groups
  | None => false
  end.
(* attributes the Zipkin read path adds on its own: the endpoints' fields and service.name *)
Fixpoint has_prefix (p s : string) : bool :=
  match p with
  | EmptyString => true
  | String a p' => match s with String b s' => Ascii.eqb a b && has_prefix p' s' | EmptyString => false end
  end.
Definition synth_key (k : string) : bool :=
  String.eqb k k_service || has_prefix "localEndpoint." k || has_prefix "remoteEndpoint." k.
Definition read_ok (p : pushed) (o : option rspan) : bool :=
  match o with
  | None => false
  | Some r =>
      String.eqb (rs_trace r) (p_trace p) && String.eqb (rs_span r) (p_span p)
      && String.eqb (rs_parent r) (p_parent p)
      && String.eqb (rs_name r) (p_name p)
      && (rs_start r =? to_u64 (p_ts p)) && (rs_end r =? to_u64 (wrap64 (p_ts p + p_dur p)))
      && (if p_ordered p
          then list_eqb attr_eqb (firstn (List.length (p_attrs p)) (rs_attrs r)) (p_attrs p)
               && forallb (fun kv => synth_key (fst kv)) (skipn (List.length (p_attrs p)) (rs_attrs r))
          else perm_eqb attr_eqb (p_attrs p) (rs_attrs r))
  end.
Definition reads_ok (ps : list pushed) (os : list (option rspan)) : bool := all2 read_ok ps os.

(* a Zipkin request without repeated member names that denotes no spans (a member that is not a value of its field:
   a number outside int64 microseconds or int64 nanoseconds, a fraction or exponent, a malformed id ...) must be refused *)
Definition must_reject (i : input) : bool :=
  match i with InZipkin _ es => forallb z_wellformed es | InOtlp _ => false end.

(* accepted requests of the property's domain (every id 16/8 bytes wide, objects without repeated
   member names) must satisfy all three clauses; a request that denotes nothing must not be accepted. *)
Definition spec_ok (c : case) : bool :=
  if c_err c then true
  else match pushed_of (c_in c) with
       | None => negb (must_reject (c_in c))
       | Some ps =>
           if forallb widths_ok ps then
             rows_ok (c_in c) 0%N ps (c_rows c) && tags_ok ps (c_tags c)
             && reads_ok ps (c_read c)
           else true
       end.
Definition spec_violation (c : case) : bool := negb (spec_ok c).

Definition with_delivery (c : case) (d : delivery) : case :=
  {| c_id := c_id c; c_in := c_in c; c_delivery := d; c_err := c_err c; c_rows := c_rows c; c_tags := c_tags c; c_read := c_read c |}.

Definition mismatches (cs : list case) : list Z := map c_id (filter model_mismatch cs).
Definition spec_violations (cs : list case) : list Z := map c_id (filter spec_violation cs).
(* diagnosis of a mismatch: which single legacy defect, switched back on, explains the observation *)
Definition with_quirk (n : nat) : quirks :=
  {| q_list_drop := Nat.eqb n 0; q_remote_inverted := Nat.eqb n 1; q_nd_stateful := Nat.eqb n 2; q_peer_first := Nat.eqb n 3;
     q_parent_payload := Nat.eqb n 4; q_time_wrap := Nat.eqb n 5; q_nil_resource := Nat.eqb n 6 |}.
Definition explains (n : nat) (c : case) : bool := write_matches (with_quirk n) c && read_matches (with_quirk n) c.
Definition regressions (cs : list case) : list (Z * Z) :=
  flat_map (fun c => if model_mismatch c
                     then map (fun n => (c_id c, Z.of_nat n)) (filter (fun n => explains n c) [0; 1; 2; 3; 4; 5; 6]%nat)
                     else []) cs.

(* run-length form used by generated case files: consecutive tag rows with the same ids and times *)
Definition tag_run (tid sid : string) (ts dur date : Z) (kv : list (string * string)) : list arow :=
  map (fun e => {| a_key := fst e; a_val := snd e; a_trace := tid; a_span := sid; a_ts := ts; a_dur := dur; a_date := date |}) kv.

(* case files write a long run of one character as rep_char c n *)
Definition rep_char (c : ascii) (n : N) : string := N.iter n (String c) EmptyString.   (* no deep recursion, no unary numeral *)

(* ------------------------------------------------------------------ OutputQuery's loop against the implementation: the stored rows of a case with
   row k made undecodable (payload that is no span) or given an unknown payload type; observed = the span ids returned by one call *)
Record qcase := { qc_case : case; qc_k : nat; qc_bad : list string; qc_type3 : list string }.
Fixpoint update_nth {A} (k : nat) (f : A -> A) (l : list A) : list A :=
  match l, k with
  | [], _ => []
  | x :: r, O => f x :: r
  | x :: r, S k' => x :: update_nth k' f r
  end.
Definition with_payload (r : trow) (p : payload) : trow :=
  {| t_trace := t_trace r; t_span := t_span r; t_parent := t_parent r; t_name := t_name r; t_ts := t_ts r; t_dur := t_dur r;
     t_service := t_service r; t_ptype := t_ptype r; t_payload := p |}.
Definition with_ptype (r : trow) (t : Z) : trow :=
  {| t_trace := t_trace r; t_span := t_span r; t_parent := t_parent r; t_name := t_name r; t_ts := t_ts r; t_dur := t_dur r;
     t_service := t_service r; t_ptype := t; t_payload := t_payload r |}.
Definition query_matches (c : qcase) : bool :=
  let rows := c_rows (qc_case c) in
  let es := in_elems (c_in (qc_case c)) in
  list_eqb String.eqb (map rs_span (output_query fixed es (update_nth (qc_k c) (fun r => with_payload r POther) rows))) (qc_bad c)
  && list_eqb String.eqb (map rs_span (output_query fixed es (update_nth (qc_k c) (fun r => with_ptype r 3) rows))) (qc_type3 c).
Definition query_mismatches (cs : list qcase) : list Z := map (fun c => c_id (qc_case c)) (filter (fun c => negb (query_matches c)) cs).
