(* When the parser of the writer sends a chunk (property C04; builder.go onEntries, the end of it):
     p.tsSpl.spl.Size += len(message[i]) + 26          for every entry of the stream
     p.tsSpl.ts.Size  += 14 + len(labels text)         for every series row the stream announced
     if p.tsSpl.spl.Size+p.tsSpl.ts.Size > 1*1024*1024 { flush(); reset() }
   and doParseLogs flushes whatever is left when the body ends (always, even an empty chunk).
   The history model (SeriesIndex.v) allows a flush at any stream boundary; this file adds the rule the code uses, as
   a deterministic function from the streams of a body (with the lengths the rule looks at) to the chunks sent, built
   from the SAME more_req / send_chunk. Executable definitions only. *)
From Coq Require Import List ZArith Bool.
From Qryn Require Import model.SeriesIndex.
Import ListNotations.
Open Scope Z_scope.

Record zstream := {
  z_stream : stream;
  z_lens : list Z;          (* len(message) of every entry, in order *)
  z_doc : Z                 (* len(encodeLabels(labels)) *)
}.
Definition flush_limit : Z := 1048576.
Definition spl_bytes (z : zstream) : Z := fold_left (fun a l => a + l + 26) (z_lens z) 0.

(* a chunk as the controller receives it: series rows, samples *)
Definition chunk : Type := (list row * list sample)%type.
Definition chunk_of (f : flight) : chunk := (f_rows f, f_spl f).

Definition cache_state (c : list row) : state := {| cache := c; ts_rows := []; acked := []; pending := [] |}.

(* one onEntries call: parse the stream, account its bytes, flush when above the limit *)
Definition feed (c : list row) (acc : flight * Z * list chunk) (z : zstream) : flight * Z * list chunk :=
  let '(f, size, out) := acc in
  let f1 := more_req (cache_state c) f [z_stream z] in
  let new_rows := Z.of_nat (length (f_rows f1)) - Z.of_nat (length (f_rows f)) in
  let size1 := size + spl_bytes z + new_rows * (14 + z_doc z) in
  if size1 >? flush_limit then (send_chunk f1 true true, 0, out ++ [chunk_of f1]) else (f1, size1, out).

(* the chunks of a whole body parsed against cache c *)
Definition chunks_of (c : list row) (zs : list zstream) : list chunk :=
  let '(f, _, out) := fold_left (feed c) zs (empty_flight, 0, []) in out ++ [chunk_of f].

(* the same body as a history of the nondeterministic model: Begin, then per stream More and, where the rule fires,
   Flush; used to state that the rule picks ONE of the behaviours the theorems cover *)
Fixpoint rule_actions (c : list row) (acc : flight * Z) (zs : list zstream) : list action :=
  match zs with
  | [] => []
  | z :: r =>
    let '(f, size) := acc in
    let '(f1, size1, out) := feed c (f, size, []) z in
    More 0 [z_stream z] :: (if is_nil out then [] else [Flush 0 true true]) ++ rule_actions c (f1, size1) r
  end.

(* ------------------------------------------------------------------ correspondence cases *)
Record zcase := {
  zc_id : Z;
  zc_streams : list zstream;
  zc_chunks : list (list row * list sample)      (* observed: the ParserResponses of the real parser, in order *)
}.
Definition sample_eqb (a b : sample) : bool := row_eqb a b.
Fixpoint samples_eqb (a b : list sample) : bool :=
  match a, b with
  | [], [] => true
  | x :: r, y :: r' => sample_eqb x y && samples_eqb r r'
  | _, _ => false
  end.
Definition chunk_eqb (a b : chunk) : bool :=
  rows_eqb (sort_rows (fst a)) (sort_rows (fst b)) && samples_eqb (snd a) (snd b).
Fixpoint chunks_eqb (a b : list chunk) : bool :=
  match a, b with
  | [], [] => true
  | x :: r, y :: r' => chunk_eqb x y && chunks_eqb r r'
  | _, _ => false
  end.
Definition zmismatch (c : zcase) : bool := negb (chunks_eqb (chunks_of [] (zc_streams c)) (zc_chunks c)).

(* spec on the OBSERVED chunks (a parser that has seen nothing before): every sample has the series row of its day and
   type in its own chunk or in an earlier chunk of the request; no row is sent twice *)
Fixpoint chunks_ok (seen : list row) (cs : list chunk) : bool :=
  match cs with
  | [] => true
  | (rows, spl) :: r =>
    let seen' := rows ++ seen in
    forallb (fun x => negb (mem_row x seen)) rows &&
    forallb (fun s => let '(fp, d, t) := s in mem_row (d, fp, t) seen') spl && chunks_ok seen' r
  end.
Definition zviolation (c : zcase) : bool := negb (chunks_ok [] (zc_chunks c)).
Definition zreport (cs : list zcase) : list (list Z) :=
  [map zc_id (filter zmismatch cs); map zc_id (filter zviolation cs)].
