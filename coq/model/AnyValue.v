(* OTLP any-value trees and attribute maps as the writer's OTLP decoder renders them (properties C04 and C03;
   writer/utils/unmarshal/otlplogs.go): SanitizeKey, SanitizeValue over the whole AnyValue tree, and the Go
   map[string]string the attributes are collected in (as the list of its entries, keys distinct, insertion order).
   Imports only GoQuote / GoJson / GoFloat. Executable definitions only. Owner: C04 (shared with C03's Decode.v). *)
From Coq Require Import List ZArith String Ascii Bool.
From Qryn Require Import model.GoQuote model.GoJson.
From Qryn Require model.GoFloat.
Import ListNotations.
Open Scope Z_scope.

(* [a-zA-Z0-9_] (the same predicate as Labels.is_alnum_us) *)
Definition av_alnum_us (b : Z) : bool := in_rng 97 122 b || in_rng 65 90 b || (b =? 95) || in_rng 48 57 b.
Definition av_us : ascii := chr 95.

(* decimal digits of a small natural number (fmt.Sprintf("%d", i+1)) *)
Fixpoint dec_digits (fuel : nat) (n : Z) (acc : string) : string :=
  match fuel with
  | O => acc
  | S f => let acc' := String (chr (48 + n mod 10)) acc in if n <? 10 then acc' else dec_digits f (n / 10) acc'
  end.
Definition dec (n : Z) : string := dec_digits 20 n EmptyString.

(* SanitizeKey: every rune outside [a-zA-Z0-9_] becomes '_'; "_" is put in front of an empty result or a digit *)
Fixpoint otlp_key_body (skip : nat) (s : string) : string :=
  match s with
  | EmptyString => EmptyString
  | String c r =>
    match skip with
    | S k => otlp_key_body k r
    | O =>
      let b := byte c in
      if b <? 128 then String (if av_alnum_us b then c else av_us) (otlp_key_body 0 r)
      else match decode_rune s with
           | Some (_, w) => String av_us (otlp_key_body (Nat.pred w) r)
           | None => String av_us (otlp_key_body 0 r)
           end
    end
  end.
Definition otlp_key (s : string) : string :=
  let t := otlp_key_body 0 s in
  match t with
  | EmptyString => str1 av_us
  | String c _ => if in_rng 48 57 (byte c) then String av_us t else t
  end.

(* a Go map[string]string as the list of its entries, keys distinct, in insertion order *)
Fixpoint mset (k v : string) (m : list (string * string)) : list (string * string) :=
  match m with
  | [] => [(k, v)]
  | (k', v') :: r => if String.eqb k k' then (k, v) :: r else (k', v') :: mset k v r
  end.
(* SanitizeValue over an any-value tree: string as it is; bool true/false; int %d; double
   strconv.FormatFloat(v, 'f', -1, 64) (model/GoFloat.v shortest_text, the transcription property C15 ties to strconv);
   bytes base64 (standard alphabet, padded); array: json.Marshal of the []string of the items' values; kvlist: json.Marshal
   of the map[string]string filled in order with SanitizeKey(key) -> value (later wins; encoding/json sorts the keys);
   an AnyValue without a value: "". *)
Inductive oval :=
| OStr (s : string) | OBool (b : bool) | OInt (z : Z)
| ODouble (bits : N) | OBytes (s : string) | OArr (items : list oval) | OKv (entries : list (string * oval)) | ONone.
Definition dec_z (z : Z) : string := if z <? 0 then String "-" (dec (- z)) else dec z.
Definition mfill (l : list (string * string)) : list (string * string) := fold_left (fun m kv => mset (fst kv) (snd kv) m) l [].
Fixpoint otlp_value (v : oval) : string :=
  match v with
  | OStr s => s
  | OBool true => "true"
  | OBool false => "false"
  | OInt z => dec_z z
  | ODouble b => GoFloat.shortest_text (GoFloat.fl_of_bits b)
  | OBytes s => base64 s
  | OArr items => gj_array (map otlp_value items)
  | OKv entries => gj_map (mfill (map (fun kv => match kv with (k, x) => (otlp_key k, otlp_value x) end) entries))
  | ONone => EmptyString
  end.
