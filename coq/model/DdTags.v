(* The ddtags member of a Datadog logs entry (property C04, writer/utils/unmarshal/datadogJsonUnmarshal.go):
     tagPattern = ( [\p{L}] [\p{L}_0-9\-.\\/]* ) : ( [\p{L}_0-9\-.\\/:]+ ) ( ,|$ )      (written here with blanks)
     for _, match := range tagPattern.FindAllStringSubmatch(val, -1) { tags = append(tags, {match[1], match[2]}) }
   Go's regexp finds the leftmost match, preferring greedy repetition, then continues after it. For THIS pattern a match
   starting at a given rune is unique: the name is the maximal run of name runes (':' is not one), then ':', the value the
   maximal run of value runes (which include ':' but not ','), which must be followed by ',' or the end of the text
   (backing off to a shorter value would have to be followed by ',' or the end, but is followed by a value rune).
   The walk is over runes; an ill-formed byte is U+FFFD, width 1, and belongs to no class. \p{L} above U+007F is an oracle.
   Executable definitions only. *)
From Coq Require Import List ZArith String Ascii Bool.
From Qryn Require Import model.GoQuote.
Import ListNotations.
Open Scope Z_scope.

Definition rune_at (s : string) : Z * nat :=
  match decode_rune s with Some (r, w) => (r, w) | None => (65533, 1%nat) end.

Section DDTAGS.
  Variable letter_hi : Z -> bool.           (* unicode.Is(unicode.L, r) for r >= 128 *)
  Definition is_letter (r : Z) : bool := if r <? 128 then in_rng 65 90 r || in_rng 97 122 r else letter_hi r.
  Definition name_rune (r : Z) : bool :=
    is_letter r || (r =? 95) || in_rng 48 57 r || (r =? 45) || (r =? 46) || (r =? 92) || (r =? 47).
  Definition value_rune (r : Z) : bool := name_rune r || (r =? 58).

  (* the maximal prefix of runes satisfying p, and the rest *)
  Fixpoint span (p : Z -> bool) (fuel : nat) (s : string) : string * string :=
    match fuel, s with
    | S f, String _ _ =>
      let '(r, w) := rune_at s in
      if p r then let '(a, b) := span p f (sdrop w s) in (append (stake w s) a, b) else (EmptyString, s)
    | _, _ => (EmptyString, s)
    end.

  (* a match of the pattern starting at the head of s: the pair and the text after the match *)
  Definition match_here (s : string) : option ((string * string) * string) :=
    if is_letter (fst (rune_at s)) then
      let '(n, rest) := span name_rune (String.length s) s in
      match rest with
      | String c rest1 =>
        if byte c =? 58 then
          let '(v, rest2) := span value_rune (String.length rest1) rest1 in
          match v with
          | EmptyString => None
          | _ => match rest2 with
                 | EmptyString => Some ((n, v), EmptyString)
                 | String d rest3 => if byte d =? 44 then Some ((n, v), rest3) else None
                 end
          end
        else None
      | EmptyString => None
      end
    else None.

  Fixpoint dd_tags_f (fuel : nat) (s : string) : list (string * string) :=
    match fuel, s with
    | S f, String _ _ =>
      match match_here s with
      | Some (kv, rest) => kv :: dd_tags_f f rest
      | None => dd_tags_f f (sdrop (snd (rune_at s)) s)
      end
    | _, _ => []
    end.
  Definition dd_tags (s : string) : list (string * string) := dd_tags_f (String.length s) s.
End DDTAGS.
