(* Model of the promise bookkeeping of controller/builder.go doParse (property C04), with the rule that decides
   which chunks' series enter the announcement cache left open (an argument of the model).

   doParse receives one ParserResponse per chunk (portion) of the request and for each of them appends
     series   += [response.TimeSeriesRequest]                                             (one entry per chunk)
     promises += [doPush(TimeSeriesRequest), doPush(SamplesRequest),
                  doPush(SpansAttrsRequest), doPush(SpansRequest), doPush(ProfileRequest)]   (FIVE entries per chunk)
   where doPush of a nil request (a log / metric push has no spans and no profile) is promise.Fulfilled and the
   insert service fulfils a request of 0 rows at once. When the body has ended it waits for the promises in order,
   returns the first error (5xx), and only if there was none calls ConfirmSeries for every entry of [series].

   SeriesIndex.v keeps of all this the conjunction [f_ok]. Here a request in flight also remembers the chunks it
   sent with the outcomes of their inserts ([chunk], newest first), the promise list is spelled out ([promises], in
   the order of the code), and [rfinish] asks a [rule] which of the chunks are confirmed:
     rule_all       the code: every chunk, if every promise of the request was fulfilled
     rule_own       a chunk is confirmed when its OWN time_series insert succeeded (whatever the status)
     rule_position  series[i] is confirmed when promises[i] was fulfilled (the i-th promise of the flat list is the
                    chunk's own series insert only for i = 0; for i = 1 it is the SAMPLES insert of chunk 0, for
                    i = 2 the always fulfilled span-attributes push of chunk 0)
   [sound]: a rule confirms a chunk only if the chunk has no series rows or its own time_series insert succeeded.
   proofs/ConfirmRuleProofs.v: every sound rule keeps every acknowledged sample indexed, in every history;
   rule_all and rule_own are sound; under rule_all the extended model IS SeriesIndex.run; rule_position is not
   sound and a history of five steps leaves an acknowledged sample without row.
   Executable definitions only. *)
From Coq Require Import List ZArith Bool.
From Qryn Require Import model.SeriesIndex.
Import ListNotations.
Open Scope Z_scope.

Record chunk := {
  c_rows : list row;     (* the series rows of the chunk (TimeSeriesRequest) *)
  c_nospl : bool;        (* the chunk has no samples *)
  c_ts_ok : bool;        (* scripted outcome of its time_series insert *)
  c_spl_ok : bool        (* scripted outcome of its samples insert *)
}.

(* the five promises doParse appends for one chunk, fulfilled = true *)
Definition ts_promise (c : chunk) : bool := is_nil (c_rows c) || c_ts_ok c.
Definition spl_promise (c : chunk) : bool := c_nospl c || c_spl_ok c.
Definition promises_of (c : chunk) : list bool := [ts_promise c; spl_promise c; true; true; true].
(* the promise list of a request whose chunks are [cs], oldest first *)
Definition promises (cs : list chunk) : list bool := flat_map promises_of cs.
Definition chunk_ok (c : chunk) : bool := ts_promise c && spl_promise c.
(* "for _, p := range promises { if err != nil { return err } }" *)
Definition await (ps : list bool) : bool := forallb (fun b : bool => b) ps.

(* a rule: given the chunks a request sent (NEWEST FIRST, as the flight keeps them) one decision per chunk, same order *)
Definition rule : Type := list chunk -> list bool.
Definition confirmed (r : rule) (sent : list chunk) : list row :=
  flat_map (fun bc : bool * chunk => if fst bc then c_rows (snd bc) else []) (combine (r sent) sent).

Definition rule_all : rule := fun sent => map (fun _ : chunk => await (promises (rev sent))) sent.
Definition rule_own : rule := fun sent => map ts_promise sent.
(* series[i] with promises[i]; i counts chunks oldest first *)
Definition rule_position : rule := fun sent =>
  rev (map (fun i => nth i (promises (rev sent)) true) (seq 0 (length sent))).

Definition sound (r : rule) : Prop :=
  forall sent b c, In (b, c) (combine (r sent) sent) -> b = true -> ts_promise c = true.

(* ------------------------------------------------------------------ histories *)
Record rflight := { rf : flight; rf_sent : list chunk (* newest first *) }.
Record rstate := {
  r_cache : list row;
  r_rows : list row;
  r_acked : list sample;
  r_pending : list rflight
}.
Definition rinit : rstate := {| r_cache := []; r_rows := []; r_acked := []; r_pending := [] |}.

(* what SeriesIndex.v sees of a state *)
Definition view (s : rstate) : state :=
  {| cache := r_cache s; ts_rows := r_rows s; acked := r_acked s; pending := map rf (r_pending s) |}.

Definition rmore (s : rstate) (f : rflight) (ss : list stream) : rflight :=
  {| rf := more_req (view s) (rf f) ss; rf_sent := rf_sent f |}.
Definition rbegin (s : rstate) (ss : list stream) : rflight :=
  {| rf := begin_req (view s) ss; rf_sent := [] |}.
Definition rsend (f : rflight) (ts_ok spl_ok : bool) : rflight :=
  {| rf := send_chunk (rf f) ts_ok spl_ok;
     rf_sent := {| c_rows := f_rows (rf f); c_nospl := is_nil (f_spl (rf f)); c_ts_ok := ts_ok; c_spl_ok := spl_ok |} :: rf_sent f |}.

(* the body has ended: the last chunk is sent, the status is decided over every promise, the rule picks what is confirmed *)
Definition rfinish (r : rule) (s : rstate) (f : rflight) (ts_ok spl_ok : bool) (pend : list rflight) : rstate :=
  let g := rsend f ts_ok spl_ok in
  let ack := await (promises (rev (rf_sent g))) in
  {| r_cache := confirmed r (rf_sent g) ++ r_cache s;
     r_rows := store_chunk (r_rows s) (rf f) ts_ok;
     r_acked := if ack then f_done (rf g) ++ r_acked s else r_acked s;
     r_pending := pend |}.

Definition rstep (r : rule) (s : rstate) (a : action) : rstate :=
  match a with
  | CacheReset => {| r_cache := []; r_rows := r_rows s; r_acked := r_acked s; r_pending := r_pending s |}
  | CacheEvict k => {| r_cache := remove_nth k (r_cache s); r_rows := r_rows s; r_acked := r_acked s; r_pending := r_pending s |}
  | Push ss ts_ok spl_ok => rfinish r s (rbegin s ss) ts_ok spl_ok (r_pending s)
  | PushBad ss => s
  | Begin ss => {| r_cache := r_cache s; r_rows := r_rows s; r_acked := r_acked s; r_pending := r_pending s ++ [rbegin s ss] |}
  | More k ss =>
    match nth_error (r_pending s) k with
    | Some f => {| r_cache := r_cache s; r_rows := r_rows s; r_acked := r_acked s;
                   r_pending := set_nth k (rmore s f ss) (r_pending s) |}
    | None => s
    end
  | Flush k ts_ok spl_ok =>
    match nth_error (r_pending s) k with
    | Some f => {| r_cache := r_cache s; r_rows := store_chunk (r_rows s) (rf f) ts_ok; r_acked := r_acked s;
                   r_pending := set_nth k (rsend f ts_ok spl_ok) (r_pending s) |}
    | None => s
    end
  | End k ts_ok spl_ok =>
    match nth_error (r_pending s) k with
    | Some f => rfinish r s f ts_ok spl_ok (remove_nth k (r_pending s))
    | None => s
    end
  | Abort k =>
    match nth_error (r_pending s) k with
    | Some f => {| r_cache := r_cache s; r_rows := r_rows s; r_acked := r_acked s; r_pending := remove_nth k (r_pending s) |}
    | None => s
    end
  end.

Fixpoint rrun (r : rule) (s : rstate) (h : list action) : rstate :=
  match h with
  | [] => s
  | a :: t => rrun r (rstep r s a) t
  end.

Definition r_all_indexed_typed (s : rstate) : bool := forallb (indexed_typed (r_rows s)) (r_acked s).
